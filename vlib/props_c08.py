from props import PROPS
import os, subprocess

_DRIVER = os.path.join(os.path.dirname(os.path.dirname(os.path.abspath(__file__))), "lean", ".lake", "build", "bin", "rsdriver")
_why = {}


def _accept(case, impl):
    """Verdict-level correspondence: is the recorded trace of the real code a behaviour of the proved model
    for SOME arrival times? Decided by the Lean driver (`accept … ;; trace`); Python only carries the lines."""
    key = (case, impl)
    if key not in _why:
        try:
            p = subprocess.run([_DRIVER, "C08"], input=("accept %s ;; %s\n" % (case, impl)).encode(),
                               stdout=subprocess.PIPE, stderr=subprocess.PIPE, timeout=600)
            _why[key] = p.stdout.decode("utf-8", "replace").strip() or "driver gave no answer"
        except Exception as e:  # a driver that cannot be run is a broken correspondence, never a pass
            _why[key] = "driver failed: %r" % (e,)
    return _why[key]


def _equal(case, impl, model):
    # `model` is the canonical (instantaneous) run; it is a diagnostic. The verdict is acceptance.
    return _accept(case, impl) == "ok"


def _signature(case, impl, model):
    return None


def _extra(ctx, spec, broken):
    ctx.traces = ctx.evaluations  # every case is a recorded trace of the real goroutines, validated by the driver
    # say why a trace was rejected (the replay file shows the canonical run, not the reason)
    for i, v in enumerate(ctx.violations):
        if v[0] == "mismatch":
            lines = dict(l.split(": ", 1) for l in v[2].strip().split("\n") if ": " in l)
            why = _accept(lines.get("case", ""), lines.get("implementation", ""))
            ctx.violations[i] = (v[0], v[1], v[2] + "rejected_because: %s\n" % why, v[3])


PROPS["C08"] = {
    "level_text": "Kernel-checked theorems over a Lean model of the offset arithmetic of sendPSyncCmd / runIncrementalSync / "
                  "pSyncPipeCopy / SendPSyncContinue (events recv k | tick | staleTick | waitFullClosed | connDrop | reopenFail | "
                  "reconnect reply; all histories, all start offsets): every ACK = start + bytes received, ACKs monotone and never ahead, "
                  "re-PSYNC = runid, start + received + 1, tag base constant, pipe = the contiguous stream across every seam. The model is "
                  "tied to the Go code by running the real goroutines (real 1 s ticker, real reconnect loop over loopback TCP) against a "
                  "scripted fake source and validating every recorded ACK/PSYNC line, tag-base sample, pipe byte and (tags histories) every "
                  "Offset the real parseSourceCommand attached to a command against the model.",
    "level_note": "Trusted: Lean kernel; factgen constants; the tie is trace validation on generated histories (timing-tolerant, exact in "
                  "value); Go runtime (time.Ticker, net, bufio); int64 wrap-around not modelled; the source is assumed to honour the offset "
                  "it is asked for (a +FULLRESYNC answer to a re-PSYNC is outside the statement).",
    "rule": "(full histories ask with '?' or a stale run id while the source announces its own; some begin with S<k>: the first k stream bytes in the same write as the RDB.) (tagl: the command stream of `tags` with a 70 001-byte and a 1 048 601-byte value in the cycle, cuts before, inside and after them.) (reconnects answered with +CONTINUE and the first 1..5000 backlog bytes in one segment: steps D<k>/X<k>.) inc|cont|full|tags: timed histories (bursts of 1..20000 bytes incl. 8191/8192/8193, idle ticks, WaitFull closed before/between/after "
            "traffic, 0-3 graceful drops, resets with bytes in flight, settle points) for four set-ups (runIncrementalSync; "
            "sendPSyncCmd answered +CONTINUE; +FULLRESYNC followed by an RDB; runIncrementalSync feeding the real parseSourceCommand with a "
            "RESP command stream, whose per-command Offset is compared with tag base + command end), start offsets 0, small, around 2^32, above 2^40; thorough adds "
            "long histories, retry exhaustion (abort) and a refused re-PSYNC (30 s). non-trivial = at least one non-zero ACK or a PSYNC "
            "was recorded; distinct by case text",
    "nontrivial": lambda c, i: any(t.startswith("P") or (t.startswith("a") and not t.endswith(":0") and t[1:2].isdigit())
                                   for t in i.split(" ")),
    "equal": _equal,
    "signature": _signature,
    "extra": _extra,
    "trusted": ["Go: time.Ticker/time.Sleep, net (loopback TCP: FIN delivers all data before EOF), bufio.Reader/Writer, atomic2.Int64",
                "the fake source of go/harness/c08.go (RESP parsing of the tool's commands, stream bytes by absolute offset)",
                "C10: the decoder position handed to the tagger is the number of bytes consumed from the pipe"],
    "assumptions": ["announced start offset >= 0 (needed for ack_monotone, reconnect_offset, stream_continues; ack_exact and tag_base_constant hold for every integer)",
                    "the source honours the requested offset: +CONTINUE is followed by the stream from exactly that offset; a refusal is followed by nothing",
                    "while the full sync is running the tool sends the keep-alive REPLCONF ACK 0 (ack_waiting); the exactness claim is for ACKs after close(WaitFull)",
                    "64-bit wrap-around of offsets is not modelled (Int)"],
}
