from props import PROPS


def _fields(line):
    return dict(f.split("=", 1) for f in line.split(" ") if "=" in f)


def _equal(case, impl, model):
    # the driver prints `<what the specification predicts> | <as-coded model of the two recorded deviations>`;
    # only the first part is the expected line
    return impl == model.split(" | ")[0]


def _signature(case, impl, model):
    """A known finding suppresses a difference ONLY if the implementation's line differs from the
    specification in exactly the fields of that finding AND equals the as-coded model there (the
    behaviour the counterexample theorems describe). Anything else is a violation."""
    spec, _, coded = model.partition(" | ")
    fi, fs, fm = _fields(impl), _fields(spec), _fields(coded)
    diff = sorted(set(k for k in fs if fi.get(k) != fs[k]) | set(k for k in fi if k not in fs))
    kind = case.split(" ", 1)[0]
    if kind == "path" and diff and set(diff) <= {"fulllua", "restorelua"} and all(fi.get(k) == fm.get(k) for k in diff):
        return {"key": "lua-aux-keyfilter", "db": "lua-aux-dbfilter", "slot": "lua-aux-slotfilter"}.get(fm.get("why"))
    if kind == "tail" and diff == ["tail"] and fi.get("tail") == fm.get("tail"):
        return "restore-tail-nofilter"
    return None


def _nontrivial(case, impl):
    f = case.split(" ")
    if f[0] in ("rawslot", "rawcmd"):
        return True
    # some filter is configured
    return any(not x.endswith("=_") for x in f[1:6]) or f[6] == "lua=1"


PROPS["C06"] = {
    "level_text": "Kernel-checked theorems over ALL keys (arbitrary bytes), database numbers, command names and configurations: "
                  "each predicate of filter.go (model transcribed from the source; checkpoint key, innerFilterKeys and the compared command "
                  "names regenerated from the source on every run) equals the corresponding clause of the specification `excluded` "
                  "(prefix semantics of black/whitelist, exact database numerals, slot list, checkpoint keys, script/bookkeeping commands); "
                  "`path_agrees`: the loop bodies of full sync (with the slot conjunct), restore, rump and the filter part of incremental sync "
                  "decide exactly `excluded`; `same_decision`, `lua_iff`, `opinfo_never`, `checkpoint_key_filtered`. "
                  "Lua scripts of a snapshot: exact characterisation + `lua_iff_partial`, with kernel-checked counterexamples (D10) replayed on the "
                  "real code; the command tail of restore mode applies the database bypass only (finding). Models are tied to the Go code by "
                  "differential runs of the real predicates and of the real loops of all four paths against fake peers.",
    "level_note": "Trusted: Lean kernel; factgen constant extraction; the hand transcription of filter.go and of the four loop bodies (tied by "
                  "differential testing only); Go's strings.HasPrefix/EqualFold/strconv.Atoi/FormatInt as modelled; KeyToSlot is a parameter (C15); "
                  "multi-key commands and commands without a key-table row belong to C13.",
    "rule": "(slots in the case lines and slot lists come from the external redis-go-cluster GetSlot, not from the tool; keys include brace arrangements of the hash-tag rule.) unit: per generated configuration (black/white/both/neither key lists incl. empty prefix, prefixes of `lua` and of the checkpoint key; "
            "db lists with canonical and non-canonical numerals; slot lists of Atoi-valid entries hitting the slots of tried keys; lua on/off) 16 keys "
            "probing every listed prefix from all sides (equal, extended, proper prefix, last byte altered, contained-not-prefix, hash tags, empty key, "
            "arbitrary bytes, checkpoint key and near misses) x db numbers (0..16, negative, > 2^31) x command names (every letter case, near misses); "
            "rawslot/rawcmd: unparsable slot entries and non-ASCII names against the as-coded model; "
            "path: RDB images (several databases, duplicate keys across databases, Lua aux fields in the middle and at the end) through the real "
            "syncRDBFile and restoreRDBFile against a loopback fake target with 2 workers, the same keyspace through the real rump fetcher (a quarter of the keys vanish between SCAN and DUMP; their own names are left out of the comparison; 3 in 5 complete executors run against a special-cloud source: tencent = single db 0 without keyspace query, aliyun = ISCAN) "
            "(and complete executors), a command stream (select / single-key commands in mixed case / script, bookkeeping and keyless commands) through "
            "the real parseSourceCommand and through restore mode's restoreCommand. non-trivial = at least one filter setting configured; distinct by case text",
    "nontrivial": _nontrivial,
    "equal": _equal,
    "signature": _signature,
    "trusted": ["Go standard library semantics as modelled: strings.HasPrefix (= List.isPrefixOf on bytes), strings.EqualFold (ASCII + U+017F/U+212A), "
                "strconv.Atoi with discarded error, strconv.FormatInt (= canonical decimal numeral)",
                "the fake peers of the harness (loopback RESP server, fake redigo connections for rump) and its RDB image writer",
                "KeyToSlot is taken as a parameter of the model; the harness supplies the real value with each case (C15 owns its definition)"],
    "assumptions": ["slot list entries are numerals (enforced at start-up by SanitizeOptions: strconv.Atoi must succeed)",
                    "when both a black- and a whitelist are configured (rejected at start-up) the blacklist alone decides, as written",
                    "incremental sync: single-key commands (key-table row 1,1,1) and commands without a row; other rows are C13's",
                    "command names in theorems with an `isAscii` hypothesis: Go's EqualFold additionally accepts U+017F for `s` (documented, harmless)"],
}
