from props import PROPS

import re as _re


def _equal(case, impl, model):
    """verify: a payload is accepted (then version and checksum are compared) or refused; WHICH of the three refusals (length, version,
    checksum) is reported — the harness classifies them by the error text — is not part of the property. ldfile/footer: compared exactly
    (accept/refuse only)."""
    if impl == model:
        return True
    if not case.startswith("verify"):
        return False
    norm = lambda s: _re.sub(r"=(length|version|crc|other)\b", "=rej", s)
    return norm(impl) == norm(model)


PROPS["C11"] = {
    "level_text": "Kernel-checked theorems: both in-repo CRC-64 tables (regenerated from the source on every run) equal the bit-by-bit "
                  "Jones/reflected CRC for all 256 indices, hence both digests equal the specification for every byte string, state and chunking; "
                  "any single-byte substitution changes the CRC (injectivity of the update); every emitted DUMP payload verifies and every "
                  "single-byte alteration, short payload or version above the supported one is rejected by both checkers; footer accept/reject. "
                  "The checker/emitter models are tied to the Go code by an exhaustive per-artefact substitution run.",
    "level_note": "Trusted: Lean kernel; factgen table extraction; models of createValueDump/verifyDump/CheckVersionChecksum/Footer tied by "
                  "differential testing only; the external crc64 module is compared, not proved.",
    "rule": "digest: random byte strings (0..2000 bytes) under random chunkings incl. empty writes, three CRC implementations; "
            "verify: emitted DUMP payloads, EVERY single-byte substitution (255 values x every position) of generated payloads, "
            "every truncation, a version-field sweep with matching checksum, random strings; footer: intact and byte-flipped, also delivered to the loader in pieces (short reads, byte by byte, data with EOF, empty reads). "
            "ldfile: whole RDB files through utils.NewRDBLoader (entry point of sync/restore/decode) in a child process under big_key_threshold 1/2/16/50 MB/500 MB, "
            "target.version, parallel, key_exists: intact, one value byte changed, one checksum byte changed, checksum cut short. "
            "non-trivial = every case except random-noise verify inputs shorter than 10 bytes; distinct by case text",
    "nontrivial": lambda c, i: not (c.startswith("verify") and len(c.split()[1]) < 20),
    "equal": _equal,
    "trusted": ["external module github.com/cupcake/rdb/crc64 (used by CheckVersionChecksum) is modelled by the bitwise spec and compared on every digest case",
                "Go: hash.Hash64/io.MultiWriter/encoding/binary semantics"],
    "assumptions": ["value-data/trailer positions only: a substitution in structural bytes of an RDB may end the parse elsewhere"],
}
