from props import PROPS


def _fields(line):
    return dict(p.split("=", 1) for p in line.split(" ") if "=" in p)


def _equal(case, impl, model):
    """Exact comparison, except for `dump` over TCP: dbDumper.dump closes the connection when it returns, so what
    can still be read from its reader afterwards is however much bufio had buffered — the property ("the bytes
    after the RDB stay unread") is that this is a prefix of the command bytes, and that is what is compared."""
    if impl == model:
        return True
    if not case.startswith("dump "):
        return False
    a, b = _fields(impl), _fields(model)
    if set(a) != set(b) or "rest" not in a:
        return False
    for k in a:
        if k != "rest" and a[k] != b[k]:
            return False
    ra = "" if a["rest"] == "-" else a["rest"]
    rb = "" if b["rest"] == "-" else b["rest"]
    return rb.startswith(ra)


def _nontrivial(case, impl):
    f = case.split(" ")
    kind = f[0]
    if kind in ("psync", "dump", "sync", "ack", "reconn"):
        return True
    if kind == "pcont":
        return f[5] != "-"
    if kind in ("incr", "dumpfile"):
        return f[-1] != "-" and f[1] not in ("0",)
    if kind == "iocopy":
        return True
    return kind in ("psyncraw", "reply", "wait")


def _signature(case, impl, model):
    return "C05:" + case.split(" ", 1)[0]


PROPS["C05"] = {
    "level_text": "Kernel-checked theorems over every reply framing (any number of keep-alive newlines before the reply line and before the "
                  "'$<n>' header, +FULLRESYNC/+CONTINUE in any letter case, any run id, any int64 offset, any n>0 written as any decimal "
                  "numeral, any RDB and command bytes) and every chunk oracle (any list of read sizes; each read returns a non-empty prefix "
                  "of what remains, at most the requested length; the observation may stop after any read): for the model of "
                  "sendPSyncCmd -> waitRdbDump -> runIncrementalSync (Iocopy with max, rdbSize countdown) -> pSyncPipeCopy, what reached the "
                  "pipe followed by what is still unread equals rdb ++ cmds, the first n pipe bytes are a prefix of rdb and the rest a "
                  "prefix of cmds, both complete after finitely many reads, no abort, Iocopy never asks for more than the RDB bytes still "
                  "missing; the returned (run id, offset, size) are the announced ones, +CONTINUE keeps the caller's; for dbDumper.dump the "
                  "file is rdb and the reader still holds cmds. The model is tied to the Go code by a differential run through the real "
                  "sendPSyncCmd/dump over loopback TCP with generated fragmentations and pauses, and through runIncrementalSync/"
                  "dumpRDBFile/Iocopy/waitRdbDump/SendPSyncContinue on an exact chunk oracle.",
    "level_note": "Trusted: Lean kernel; factgen extraction of the copy-buffer sizes; bufio.Reader and TCP are represented by the chunk oracle "
                  "(Go's bufio/net semantics assumed); the pipe is a lossless FIFO (property C09); the hand-written model is tied to the code "
                  "by sampled differential runs only; loopback TCP may coalesce generated fragments (the exact-oracle kinds do not).",
    "rule": "psync/pcont/dump/sync: real code against a fake source on loopback TCP, reply stream cut into generated fragments "
            "(all-at-once, 1, 2, boundary-1/0/+1 of RDB start and end, 8191/8192/8193, random) with seeded pauses, RDB 1..64 KiB (quick) "
            "with adversarial heads/tails (newlines, '$3\\r\\n', CRLF), commands 0..30 KB; incr/dumpfile: runIncrementalSync/dumpRDBFile on an "
            "exact chunk oracle with bufio sizes 16..1 MiB and pipe capacities 4 KiB..1 MiB, incl. announced sizes the source does not cover "
            "(abort expected); psyncraw/reply/wait: malformed, odd and incomplete reply lines and headers; iocopy: request size vs max and "
            "buffer length; handover: real utils.NewRDBLoader on a bufio.Reader over a well-formed RDB file (C01's generator) followed by command bytes, "
            "delivered in 1..n-byte reads with a pause in front of the last 0..9 RDB bytes: bytes taken when the entry channel closes, and the rest; dumpmain: the real CmdDump.Main over 2-5 fake sources (1-4 MB RDB each, own content) with source.rdb.parallel in {1,2,n,n+1,8}: every output file is its own source's RDB. non-trivial = every case except command-less +CONTINUE and unfragmented/RDB-less oracle cases; distinct by case text",
    "equal": _equal,
    "nontrivial": _nontrivial,
    "signature": _signature,
    "trusted": ["Go: bufio.Reader.Read/ReadByte/ReadBytes, net.Conn, strconv.Atoi/ParseInt, strings.Split/ToLower (ASCII) semantics as modelled",
                "pkg/libs/io/pipe is a lossless FIFO (C09)",
                "the RDB consumer reads exactly the n announced bytes: proved for the loader model (rdb_consumer_exact / rdb_consumer_takes_n from C01's parse_exact: any bytes behind the checksum), "
                "checked on utils.NewRDBLoader by the handover cases"],
    "assumptions": ["status words are ASCII (a non-ASCII word is reported as `unmodelled`, never generated)",
                    "offsets stay below 2^63-1 (no int64 wrap-around of offset+1)",
                    "reconnect path of runIncrementalSync: modelled after fix c30b00d (reconnect_continue_exact, reconnect_fullresync_aborts; `reconn` cases); the offset used for the re-PSYNC is C08's"],
}

# wall time is dominated by real timers / per-configuration groups: no budget escalation on source changes
PROPS["C05"]["escalate"] = False
