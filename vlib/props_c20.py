import os, subprocess
from props import PROPS

_DRIVER = os.path.join(os.path.dirname(os.path.dirname(os.path.abspath(__file__))), "lean", ".lake", "build", "bin", "rsdriver")


_rejected = [0]


def _accepted(case, impl):
    """Second level of the correspondence: an answer that differs from the deterministic model is still fine if
    the Lean acceptor (`Spec.Supervisor.correct`, proved equivalent to the property's three clauses) accepts it,
    e.g. another choice among several masters. Never reached on the unchanged tree."""
    if not (impl.startswith("ok ") or impl.startswith("err ") or impl.startswith("abort ")):
        return False
    if _rejected[0] >= 40:      # the run is failing anyway; do not spawn the acceptor hundreds of times
        return False
    try:
        if case.startswith("sync "):
            case, impl = "topo " + case[5:], impl.replace("abort ", "err ", 1)
        p = subprocess.run([_DRIVER, "C20"], input=("accept %s %s\n" % (impl.replace(" ", "|"), case)).encode(),
                           stdout=subprocess.PIPE, stderr=subprocess.PIPE, timeout=60)
        ok = p.stdout.decode().strip() == "accepted"
    except Exception:
        ok = False
    if not ok:
        _rejected[0] += 1
    return ok


def _equal(case, impl, model):
    if impl == model:
        return True
    # the acceptor demands the same verdict and the same number of attempts as the model; do not spawn it otherwise
    if impl.split(" ")[:2] != model.split(" ")[:2]:
        return False
    return _accepted(case, impl)


def _masters(case):
    # rough shape only (for the non-triviality rule): more than one node, or a script that needs a retry
    f = case.split(" ")
    return len(f) == 3 and ("," in f[1] or "/" in f[2])


def _signature(case, impl, model):
    if impl in ("unbounded", "timeout"):
        return "no-termination"
    if impl.startswith("ok") and (model.startswith("err") or model.startswith("abort")):
        return "non-master-chosen"
    if (impl.startswith("err") or impl.startswith("abort")) and model.startswith("ok"):
        return "master-missed"
    fi, fm = impl.split(" "), model.split(" ")
    if len(fi) == 4 and len(fm) == 4:
        if fi[1] != fm[1]:
            return "attempts"
        if fi[2] != fm[2]:
            return "wrong-source"
        if fi[3] != fm[3]:
            si = set(fi[3][7:].split(","))
            sm = set(fm[3][7:].split(","))
            return "node-dropped" if sm - si else "node-invented"
    if len(fi) == 2 and len(fm) == 2 and fi[1] != fm[1]:
        return "attempts"
    return "other"


PROPS["C20"] = {
    "level_text": "Kernel-checked theorems over every known-node list, every per-attempt/per-position fault sequence (connect error, command "
                  "error, arbitrary INFO bytes) and both variants of the loop body: role parsing as coded (split on LF, first line matching the "
                  "regexes extracted from the source on every run) equals the byte-scan spec of the role an INFO text reports; the returned Source "
                  "is a known node that answered master in the returning attempt, never a faulty node or a replica; Source + Slaves of the answer "
                  "is a permutation of the known nodes (repaired code); at most maxRetries+1 attempts, error iff no master answer in any of them, "
                  "return at the first attempt with a master; termination by structural recursion. The model is tied to the real "
                  "slotSupervisor.GetSlotState() by running it with an injected connection factory that plays generated fault scripts.",
    "level_note": "Trusted: Lean kernel; factgen extraction of maxRetries and the two regex strings; Go regexp semantics for the shapes "
                  "`^literal`/`literal`; redigo.String reply conversion; the hand-written model of the loop/recursion is tied by differential "
                  "testing only; back-off sleeps and the other SyncNode fields are not modelled.",
    "rule": "(sync cases run the first two statements of Sync(): the retry is counted, then the source re-discovered, on syncers with 0..2 earlier restarts 0 min … 70 days ago.) every assignment of {master-looking, replica-looking, connect error, command error, broken INFO} to the positions of 1..4 "
            "(thorough: 5) nodes in one attempt; every hand-written INFO shape (CRLF/LF/CR-only, role line first/late/absent, role:master in "
            "non-leading positions, prefixes/suffixes, case, NUL/invalid UTF-8, one-bit flips) alone and next to a replica, as []byte and string "
            "replies; every command-error flavour; random histories over up to 10 attempts x up to 5 (thorough: 8) nodes: failover/promoted "
            "replica, no master, split brain, flapping replicas, master appearing at the boundary of the bound, duplicate and prefix-related "
            "node names, short script rows. Compared: ok/error, number of attempts, chosen source, sorted slave list. "
            "non-trivial = more than one node or more than one attempt row; distinct by case text",
    "nontrivial": lambda c, i: _masters(c),
    "equal": _equal,
    "signature": _signature,
    "trusted": ["Go regexp: a pattern `^lit` without (?m) matches a line iff the line starts with lit; redigo.String maps []byte/string replies to "
                "the text and everything else to an error",
                "the per-position mapping of factory calls assumes nothing about probing order (k-th probe of a name in an attempt = k-th "
                "occurrence of the name); attempts = ceil(calls / nodes)"],
    "assumptions": ["time is not modelled: the sleeps between attempts (6+5+4+3+2+1 s) are paid by the harness, all cases running concurrently",
                    "the theorems about the complete listing (others_listed, known_nodes_preserved) are about the code WITH "
                    "fixes/C20-displaced-master.patch; for the code as pinned see counterexample_two_masters / others_listed_pinned_partial"],
}
