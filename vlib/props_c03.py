"""C03 — check configuration (see design_notes/C03.md)."""
import os, subprocess
from props import PROPS

_VERIF = os.path.dirname(os.path.dirname(os.path.abspath(__file__)))
_DRIVER = os.path.join(_VERIF, "lean", ".lake", "build", "bin", "rsdriver")
_cache = {}
STATS = {"C03": {"judged": 0, "exact": 0}, "C04": {"judged": 0, "exact": 0}}


def verdict(pid, case, impl, model):
    """Acceptance of a recorded Send/Flush trace by the nondeterministic automaton + the property's oracles,
    decided by the Lean driver (`judge<TAB>case<TAB>implementation line`)."""
    k = (pid, case, impl)
    if k not in _cache:
        p = subprocess.run([_DRIVER, pid], input=("judge\t%s\t%s\n" % (case, impl)).encode(),
                           stdout=subprocess.PIPE, stderr=subprocess.PIPE, timeout=600)
        _cache[k] = p.stdout.decode("utf-8", "replace").strip() or "reject:driver-failed"
        STATS[pid]["judged"] += 1
        if impl == model:
            STATS[pid]["exact"] += 1
    return _cache[k]


def _tdb(case):
    for f in case.split(" "):
        if f.startswith("tdb="):
            return f.split(",")[0][4:]
    return "-1"


def make_equal(pid):
    def equal(c, i, m):
        if c.startswith("parse"):
            mi, _, r = m.partition(" #")
            return i == mi and r in ("route=ok", "route=na")
        return verdict(pid, c, i, m) == "ok"
    return equal


def make_signature(pid):
    def signature(c, i, m):
        if c.startswith("parse"):
            mi, _, r = m.partition(" #")
            if i == mi and r == "route=bad:d8":
                return "targetdb-eq-sourcedb"
            return None
        v = verdict(pid, c, i, m)
        if v.endswith(":d8"):
            return "targetdb-eq-sourcedb"
        return "verdict=" + v
    return signature


def make_extra(pid):
    def extra(ctx, spec, broken):
        ctx.traces = STATS[pid]["judged"]
        ctx.stats["traces_equal_to_canonical_schedule"] = STATS[pid]["exact"]
    return extra


def _nontrivial(c, i):
    if c.startswith("parse"):
        return c.count(";") >= 2 and "items=." not in i
    return True


PROPS["C03"] = {
    "level_text": "Kernel-checked theorems over ALL event sequences of the sender automaton (arrivals and ticks in any interleaving, "
                  "any count/size thresholds, resume on or off): wire ++ cache = received stream minus source MULTI/EXEC "
                  "(nothing lost, duplicated, reordered), markers never sent, a tick on an empty queue empties the cache, "
                  "select/multi/exec force a batch boundary, nested MULTI counter-example; over ALL source streams of the parser model: "
                  "forwarded = surviving commands with the key filter's arguments, filtered never sent, and — composed with MiniRedis — every "
                  "data command executes in the source-selected database or in target.db (db_routing; _partial + counter-example for D8 on "
                  "the pinned tree). Models are tied to the real parseSourceCommand/sendTargetCommand by an exact differential run (parser) "
                  "and by acceptance of recorded Send/Flush traces (sender with its real 500 ms ticker).",
    "level_note": "Trusted: Lean kernel; factgen (barrierMap, status constants, ticker period, checkpoint names); the hand-written models are tied "
                  "to the Go code only by the sampled runs below; MiniRedis as a description of a real server; Go channel FIFO and ticker delivery.",
    "rule": "parse: random mostly-valid streams (0..60 commands: select incl. filtered/target dbs and odd spellings, single/multi-key writes, ping, "
            "MULTI/EXEC blocks, sentinel hello, lua, opinfo, keep-alive newlines, mixed case) x db/key/lua filters x target.db x start db, 1 in 7 with "
            "aborting commands; compared exactly + routing oracle. long pipe cases (3300-3800 commands, metric on, 2-slot delay channel); pipe cases with one command argument of 64 KiB / 1 MiB (thorough up to 3 MB); a quarter of the send/pipe streams end, after a long pause, in argument-less commands only. send/pipe: real sender (and parser) with the real ticker, delays {0,50,700 ms}, three "
            "threshold settings, resume on/off; verdict = acceptance of the recorded trace by the automaton + exactly-once/routing oracle on MiniRedis. "
            "non-trivial = parse cases with >= 3 commands and a non-empty result, every trace; distinct by case text",
    "nontrivial": _nontrivial,
    "equal": make_equal("C03"),
    "signature": make_signature("C03"),
    "extra": make_extra("C03"),
    "trusted": ["Go runtime: unbuffered/buffered channel FIFO, time.Ticker delivery, goroutine scheduling (only sampled through traces)",
                "MiniRedis (Spec/MiniRedis.lean) as a description of SELECT/MULTI/EXEC/HSET of a real server; queue-time EXECABORT not modelled",
                "RESP decoding and its offset (C10), key rewriting (C13), filter predicates (C06) are parameters of the parser model; "
                "the differential run instantiates them for RESP arrays, single-key commands and the db/lua filters"],
    "assumptions": ["WF: in the stream handed to the sender no MULTI and no SELECT occurs inside a source transaction (counterexample_nested_multi)",
                    "command names are ASCII (strings.ToLower/EqualFold modelled on ASCII)",
                    "db_routing under target.db: the stream begins with a SELECT or the run was resumed in target.db; pinned tree: D8 excluded (finding)",
                    "bounded delay = first tick that finds the queue empty; the 500 ms ticker itself is trusted"],
}
