from props import PROPS


def _flags(case):
    f = case.split(" ")
    return set(f[2].split("+")) if f[0] == "dec" and len(f) > 2 else set()


def _signature(case, impl, model):
    """D19. A finding suppresses only its own symptom:
    chunked-hash:    the loader split a hash above the chunk limit (flag computed by the generator from the limit
                     of the binary that runs the case) — DecodeDump then fails (abort) or mis-reads the piece."""
    kind = case.split(" ", 1)[0]
    fl = _flags(case)
    if kind == "dec" and "chunk" in fl and (impl in ("abort", "crash") or impl.startswith("ok")):
        return "chunked-hash"      # crash: the mis-read piece can also make the decoder index out of range (LZF)
    if kind == "decbig" and impl in ("abort", "crash"):
        return "chunked-hash"
    return None


def _nontrivial(case, impl):
    f = case.split(" ")
    if f[0] in ("dec", "decbig"):
        return len(f) > 3 and f[3] != "-"      # at least one key / script in the file
    return len(f[1]) > 1                        # base64 of a non-empty string


PROPS["C17"] = {
    "level_text": "Kernel-checked theorems over a Lean model of redis-shake/decode.go from the decoded objects onward: base64 "
                  "round trip for all byte strings; every line of a key reads back (bytes only from the *64 fields) as exactly the "
                  "record the property demands; the loader/N-worker/writer goroutine pipeline as a transition system — for every N, "
                  "channel capacity and interleaving the written blocks are a permutation of the entries' blocks, decode returns only "
                  "after all workers finished and both channels drained, no deadlock, bounded length of every schedule. JSON tags, "
                  "toText bounds and channel size are re-read from the source on every run. The model is tied to the Go code by running "
                  "the real CmdDecode pipeline on generated RDB files with parallel 1..8.",
    "level_note": "Trusted: Lean kernel; encoding/json and strconv (rendering/parsing of the lines, float text), Go's base64 (compared with "
                  "the proved codec on every run); the harness's RDB serializer; rdb.DecodeDump is taken as the input of the model "
                  "(C12 models it); real schedules are whatever the Go scheduler produces (the theorems cover all of them).",
    "rule": "dec: RDB files with known logical content from a serializer written in the harness — strings (raw/int/LZF), lists "
            "(linked, ziplist, quicklist), sets (plain, intset 16/32/64), hashes (plain, zipmap, ziplist), sorted sets (text, binary, "
            "ziplist scores), Lua scripts, skipped aux/resizedb records, select-db, expiries in s/ms incl. > 2^63, binary non-UTF-8 keys and "
            "values, scores incl. -0/denormals/max, ±Inf/NaN (printed as the strings inf / -inf / nan since fix 8575c18), stream keys; each run with parallel in 1..8, some files with "
            "150-2600 keys under every parallel 1..8; files with 5 000..140 000-element collections and list/hash/zset ziplists forced to "
            "32 767..70 001 elements (16-bit entry count saturated); scaled: hashes straddling a 64-byte chunk limit; thorough: one 20 MiB hash. "
            "b64/b64d: Go's base64 encoder/decoder against the proved codec on random and mutated strings. "
            "non-trivial = file with at least one key/script, or non-empty base64 input; distinct by case text",
    "nontrivial": _nontrivial,
    "signature": _signature,
    "scaled": 64,
    "trusted": ["encoding/json Marshal/Unmarshal round trip for ASCII strings and uint64/float64 numbers (json.Number); strconv.FormatFloat('g',17)/ParseFloat round trip",
                "encoding/base64.StdEncoding is compared with b64enc/b64dec on every run, not proved",
                "goroutine/channel semantics of Go (buffered FIFO channels, close, range) as transcribed in DecodeMode.Pipe.Move",
                "the outcome of rdb.DecodeDump per entry is an input of the model (decoded value, or failure); the byte-level chunk witness "
                "composes C01's loader model and C12's DecodeDump model (Model/RdbDecode.lean, copy of C12's file)"],
    "assumptions": ["parallel >= 1 (with 0 workers the tool prints nothing: theorem zero_workers_prints_nothing)",
                    "Lua script text is valid UTF-8 (the aux line carries it as a raw JSON string, not base64)",
                    "no hash above the 16 MiB chunk limit (D19 finding chunked-hash; the score-nonfinite half of D19 is repaired: fix 8575c18)",
                    "stream/module values are outside the property (DecodeDump rejects them and the tool aborts)"],
}
