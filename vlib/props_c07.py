from props import PROPS
import os, re, subprocess

_verdicts = {}


def _verdict(case, impl):
    """Trace validation: ask the Lean driver whether the recorded run is a behaviour of the proved model."""
    k = (case, impl)
    if k not in _verdicts:
        import core
        exe = os.path.join(core.LEAN, ".lake", "build", "bin", "rsdriver")
        p = subprocess.run([exe, "C07"], input=(case + " @@ " + impl + "\n").encode(), stdout=subprocess.PIPE,
                           stderr=subprocess.PIPE, timeout=600)
        _verdicts[k] = p.stdout.decode("utf-8", "replace").strip() or "reject:driver:" + p.stderr.decode("utf-8", "replace")[-200:]
    return _verdicts[k]


def _equal(case, impl, model):
    if case.startswith("mfile ") or case.startswith("selfail "):
        return impl == model    # multi-file driver / refused SELECT: exact outcome (abort|fail | what was written where)
    v = _verdict(case, impl)
    if v != "accept":
        return False
    # the result must also be the one the case calls for (the fake target fails exactly the chosen key)
    m = re.search(r"res=(\w+)", model)
    i = re.search(r"res=(\w+)", impl)
    if not m or not i:
        return False
    got = "ok" if i.group(1) == "nores" else i.group(1)
    return got == m.group(1)


def _signature(case, impl, model):
    if case.startswith("mfile ") or case.startswith("selfail "):
        return case.split(" ")[0] + ":" + impl.split(" ")[0]
    v = _verdict(case, impl)
    m = re.search(r" P=(\d+) ", case)
    if v.startswith("reject:value:") and case.startswith("chunk ") and m and int(m.group(1)) > 1:
        return "chunked-hash-parallel"
    return v.split(":key=")[0]


def _nontrivial(case, impl):
    if case.startswith("selfail "):
        return True
    if case.startswith("mfile "):
        return "|" in case      # at least two input files
    # at least two connections carried data commands
    conns = set(re.findall(r"[ ,=](\d+):(?!select)[a-z]+:", impl))
    return len(conns) >= 2


def _extra(ctx, spec, broken):
    ctx.traces = ctx.evaluations
    rej = {}
    for (c, i), v in _verdicts.items():
        key = v.split(":key=")[0]
        rej[key] = rej.get(key, 0) + 1
    ctx.stats.update({"verdict " + k: n for k, n in rej.items()})


PROPS["C07"] = {
    "level_text": "Kernel-checked theorems over a small-step model of the worker pools of syncRDBFile/restoreRDBFile (N workers with private "
                  "lastdb/connection, one FIFO queue, MiniRedis target with a selected db per connection, command-granular interleaving, "
                  "arbitrary schedules incl. error replies): conn_db_invariant, lands_in_route, each_once (multiset of executed commands = "
                  "filtered entries, schedule independent, scripts once), terminates_after_all, error_reported, value equality for "
                  "parallel=1 or unchunked keys; counter-examples for D11 (pinned restore mode drops the error) and D12 (chunked hash). "
                  "Tie to the Go code: trace validation — the real functions run with Parallel 1..8 against a loopback RESP target with "
                  "seeded reply delays; the Lean driver replays each recorded global command log through MiniRedisC07 and decides the "
                  "theorems' statements on it.",
    "level_note": "Trusted: Lean kernel; which steps are atomic (one redigo command, one channel receive); Go channel FIFO; the fake target; "
                  "restoreCmds (C02) and the filter predicates (C06) are parameters, instantiated for the generated entry kinds; real "
                  "goroutine schedules are sampled, the unbounded claim is the theorem over all schedules of the model.",
    "rule": "trace: random RDBs (0..60 entries: strings, Lua aux records, big hashes incl. 99..103 fields around the 100-command pipeline "
            "batch, lists in the quicklist encoding with 12-16 / 99-103 / 137-206 elements restored element by element; 1..5 databases in any order; same key name in several dbs; a fifth of the string keys are brace arrangements of the hash-tag rule) x mode sync|restore x Parallel 1..8 x target.db -1|0|3|7 x "
            "key_exists x filter.lua x db/key/slot filter lists x optional failing RESTORE x seeded per-connection reply delays; "
            "chunk (scaled build, chunk limit 64 bytes): one hash delivered as 2..4 chunk entries, Parallel 1..4, rewrite|none, DEL held "
            "back 25 ms. mfile: the real CmdRestore.Main (child process) over 1..4 input files, source.rdb.parallel 1..#files, an optional refused RESTORE in any file. selfail: sync/restore worker pools against a target that refuses SELECT of one database (child process). non-trivial = at least two connections carried data commands; distinct by case text",
    "nontrivial": _nontrivial,
    "equal": _equal,
    "signature": _signature,
    "scaled": 64,
    "extra": _extra,
    "trusted": ["fake loopback RESP target (go/harness/c07.go): replies OK/1/0, logs commands in one global order",
                "Go: channel FIFO, sync.WaitGroup, redigo Do/Send/Flush/Receive semantics",
                "restoreCmds instantiated by Model.concreteCmds for the generated entry kinds (string, lua, big hash, hash chunk)"],
    "assumptions": ["connections open successfully; a refused SELECT ends the run as a failure (selfail cases) and is outside the small-step model",
                    "Parallel >= 1 (with 0 workers the function returns success at once; counter-example in Properties/C07.lean)",
                    "value equality only for parallel = 1 or keys not split over several entries (finding chunked-hash-parallel, D12)"],
}
