from props import PROPS
import re


def _split(model):
    """model line = '<model part> SPEC=<R>:<KS>|n/a FIND=<sig|->'"""
    m = re.match(r"^(.*) SPEC=(\S+) FIND=(\S+)$", model)
    if not m:
        return model, "n/a", "-"
    return m.group(1), m.group(2), m.group(3)


def _impl_outcome(impl):
    """(overall result, keyspace) of an implementation line"""
    m = re.match(r"^R=(\S+) T=\S+ F=\S+ KS=(\S+) S=\S+$", impl)
    if not m:
        return None
    rs = m.group(1).split(",")
    return (rs[-1] if rs[-1] != "ok" else "ok"), m.group(2)


def _equal(case, impl, model):
    if case.startswith("cmpver"):
        # where the pinned CompareVersion crashes (malformed version text: the tool ends) the property asks nothing of a
        # replacement that answers instead
        return impl == model or model == "panic"
    mp, spec, _ = _split(model)
    if impl != mp:
        return False            # the code no longer behaves as the proved model
    if spec == "n/a":
        return True
    out = _impl_outcome(impl)
    if out is None:
        return False
    return "%s:%s" % out == spec  # the code's outcome is what the one-command specification predicts


def _signature(case, impl, model):
    """A known finding is recognised only when the code still behaves exactly as the model of the defect
    (model part equal) and the case meets the condition the `_partial` theorems exclude (computed by the driver
    from `RestoreEntry.bigPolicyCond` / `RestoreEntry.chunkExpiredCond`)."""
    if case.startswith("cmpver"):
        return None
    mp, spec, find = _split(model)
    if impl == mp and spec != "n/a" and find != "-":
        return find
    return None


def _nontrivial(case, impl):
    return case.startswith("cmpver") or " T=- " not in impl or not impl.startswith("R=ok ")


PROPS["C02"] = {
    "level_text": "Kernel-checked theorems over a Lean model of RestoreRdbEntry / restoreBigRdbEntry / restoreQuicklistEntry / "
                  "CompareVersion against a MiniRedis specification: every route (RESTORE incl. BUSYKEY retry and Bad-data-format "
                  "fallback, element-wise big-key route with its 100-command batching, quicklist route, chunked hashes) reaches the "
                  "keyspace of the one-command specification (value, TTL, key_exists policy), for all configurations, entries, clocks "
                  "and pre-states. The model is tied to the Go code by running the real RestoreRdbEntry against a fake redigo.Conn and "
                  "comparing command trace, result class and final keyspace.",
    "level_note": "Trusted: Lean kernel; MiniRedis as a description of Redis' replies; float text codec (hypothesis RoundTrips); "
                  "decoding of compact encodings is a parameter (C12); the model-code tie is sampled.",
    "rule": "(strings are stored raw, as int8/16/32, or LZF-compressed: literal runs, or a greedy compressor with back references incl. overlapping ones.) r: entries of every type but module (string, list, set, zset text/binary, hash, zipmap, list/hash/zset ziplist, intset, quicklist, stream, lua) built by an own DUMP "
            "serializer x threshold {0, len-1, len, 1, huge} x key_exists x TargetReplace x 19 version strings x target rejecting types x "
            "shift x hash-tag replacement x ucloud x pre-existing key of each type; collection sizes 0,1,2..7,99,100,101,200,201; "
            "expired/unexpired; chunked hashes as entry sequences with server-clock gaps; malformed payloads (truncated bodies, damaged "
            "trailers, type mismatches). cmpver: CompareVersion on version strings x levels. zl: the element-wise route's ziplist reader alone "
            "(ReadZiplistLength + ReadZiplistEntry) on lists of 0..11 and 65534..131072 entries (count field saturated at 65535), intact and damaged. "
            "non-trivial = at least one command sent or a non-ok result; distinct by case text",
    "nontrivial": _nontrivial,
    "equal": _equal,
    "signature": _signature,
    "trusted": ["MiniRedis (Spec/MiniRedisC02.lean) as the behaviour of a Redis target; a second MiniRedis in the harness answers the real code, "
                "both are compared on every case through the final keyspace",
                "redigo argument rendering and Send/Flush/Receive/Do semantics as implemented by the fake connection",
                "strconv.ParseFloat/FormatFloat: parameter `Params.ft`; the driver uses integers below 2^53 plus a table checked against strconv on every run",
                "wall clock: the harness derives ExpireAt from time.Now() and canonicalises the ttl argument within the elapsed milliseconds"],
    "assumptions": ["entries are those the RDB parser produces (payload type = entry type, valid trailer, RealMemberCount only on chunks)",
                    "Send never fails (live connection); key_exists in {none, rewrite, ignore}",
                    "empty collections and NaN scores do not occur in a source RDB",
                    "compact encodings: theorems take the expansion as a parameter (Params.expand, hypothesis Params.WF); the driver instantiates "
                    "ziplists (types 10, 12, 13, quicklist nodes) from C12's RdbDecode model and the intset walk of utils.go; zipmap (type 9) through the repaired readers (D22): count byte, CountZipmapItems, ReadZipmapItem"],
}
