// logflow: the C19 fact extractor (run by go/factgen/c19.go on every check).
//
// It type-checks the CURRENT sources of github.com/alibaba/RedisShake/redis-shake/... (with the
// N1 normalisation of common/common.go supplied as an in-memory overlay) and writes
// RSVerif/Generated/LogFlow.lean:
//
//	typeDefs     every struct / named type reachable from an emitted type, with per-field location ids
//	edges        value-flow edges  src-location -> dst-location
//	typeEdges    "a value of static type S is converted/handed over into location d"
//	sites        every output call site (log.*, fmt.Print*, panic, REST handler results, HTTP writes,
//	             prometheus labels, HTTP posts) with, per argument, static type, read locations, source text
//	secretFields the six configured-password fields; nameSources: every location whose name says password
//	maskedFields the fields GetSafeOptions overwrites with a literal, and the derived masked struct row
//	tainted / taintedTypes   the candidate closed sets (bitmasks) which the Lean kernel re-checks
//
// The rules are documented in design_notes/C19.md. Their soundness is TRUSTED (this file is the
// model); the Lean side only certifies the fixpoint and the absence of tainted sinks.
package main

import (
	"bytes"
	"crypto/sha256"
	"flag"
	"fmt"
	"go/ast"
	"go/printer"
	"go/token"
	"go/types"
	"math/big"
	"os"
	"path/filepath"
	"regexp"
	"sort"
	"strconv"
	"strings"

	"golang.org/x/tools/go/packages"
)

const modPath = "github.com/alibaba/RedisShake"
const logPkg = modPath + "/pkg/libs/log"

var (
	repo, outFile string
	debug         bool
	why           string
)

// ---------------------------------------------------------------- N1

func n1(text string) string {
	pat := regexp.MustCompile(`(?s)const \(\n\tKB = 1024\n.*?\n\)\n`)
	ms := pat.FindAllStringIndex(text, -1)
	if len(ms) >= 2 && text[ms[0][0]:ms[0][1]] == text[ms[1][0]:ms[1][1]] {
		text = text[:ms[1][0]] + text[ms[1][1]:]
	}
	return text
}

// ---------------------------------------------------------------- extractor state

type retKey struct {
	fn interface{} // *types.Func or *ast.FuncLit
	i  int
}
type tmpKey struct{ pos token.Pos }

type typeEdge struct {
	ty   string // Lean GoType term
	dst  int
	note string
	// for the Go-side fixpoint
	named []int
}

type arg struct {
	ty    string
	named []int
	locs  []int
	src   string
}

type site struct {
	loc, kind, callee string
	args              []arg
}

type field struct {
	loc   int
	name  string
	ty    string
	named []int
}

type typeDef struct {
	id     int
	name   string
	fields []field // struct
	under  string  // non-struct named type ("" for structs)
	unamed []int
}

type masker struct {
	fn     *types.Func
	named  *types.Named
	fields []*types.Var
	rowID  int
}

type ex struct {
	fset     *token.FileSet
	pkgs     []*packages.Package
	inA      map[*types.Package]bool
	info     *types.Info // of the package being walked
	pkg      *packages.Package
	locOf    map[interface{}]int
	locName  []string
	edges    map[[2]int]bool
	tedges   []typeEdge
	tedgeSet map[string]bool
	sites    []site
	decls    map[*types.Func]*ast.FuncDecl
	declInfo map[*types.Func]*types.Info
	allNamed []*types.Named
	escaping []escFn
	rest     map[interface{}]string // fnKey -> path
	maskers  map[*types.Func]*masker
	typeIDs  map[string]int
	typeDefs []*typeDef
	typeQ    []types.Type
	fieldNm  map[*types.Var]string
	curFn    interface{}
	curSig   *types.Signature
	curName  string
	implC    map[string][]*types.Func
	extNotes []string
	untyped  int
	warnings []string
}

type escFn struct {
	key interface{}
	sig *types.Signature
}

func (x *ex) warn(format string, a ...interface{}) {
	x.warnings = append(x.warnings, fmt.Sprintf(format, a...))
}

func (x *ex) pos(p token.Pos) string {
	ps := x.fset.Position(p)
	rel, err := filepath.Rel(repo, ps.Filename)
	if err != nil || strings.HasPrefix(rel, "..") {
		rel = ps.Filename
		if i := strings.Index(rel, "/pkg/mod/"); i >= 0 {
			rel = rel[i+len("/pkg/mod/"):]
		} else if i := strings.Index(rel, "/src/"); i >= 0 {
			rel = "go" + rel[i:]
		}
	}
	return fmt.Sprintf("%s:%d", rel, ps.Line)
}

func (x *ex) newLoc(key interface{}, name string) int {
	if id, ok := x.locOf[key]; ok {
		return id
	}
	id := len(x.locName)
	x.locOf[key] = id
	x.locName = append(x.locName, name)
	return id
}

func (x *ex) loc(obj types.Object) int {
	v, ok := obj.(*types.Var)
	if !ok {
		return -1
	}
	if id, ok := x.locOf[v]; ok {
		return id
	}
	var name string
	switch {
	case v.IsField():
		if n, ok := x.fieldNm[v]; ok {
			name = n
		} else {
			name = "field " + v.Name() + "@" + x.pos(v.Pos())
		}
	case v.Pkg() != nil && v.Parent() == v.Pkg().Scope():
		name = v.Pkg().Name() + "." + v.Name()
	default:
		name = "var " + v.Name() + "@" + x.pos(v.Pos())
	}
	return x.newLoc(v, name)
}

func (x *ex) retLoc(key interface{}, sig *types.Signature, i int, name string) int {
	if sig != nil && i < sig.Results().Len() {
		r := sig.Results().At(i)
		if r.Name() != "" && r.Name() != "_" {
			return x.loc(r)
		}
	}
	return x.newLoc(retKey{key, i}, fmt.Sprintf("result#%d of %s", i, name))
}

func (x *ex) edge(src []int, dst int) {
	if dst < 0 {
		return
	}
	for _, s := range src {
		if s >= 0 && s != dst {
			x.edges[[2]int{s, dst}] = true
		}
	}
}

func (x *ex) edges2(src []int, dsts []int) {
	for _, d := range dsts {
		x.edge(src, d)
	}
}

// ---------------------------------------------------------------- types

// handle types: connection / file / synchronisation handles. A handle is not text: what is later read
// through it comes from the peer or the file system, not from the credentials it was opened with
// (assumption "peers do not echo secrets", design_notes/C19.md). Buffers and builders are NOT handles.
var handlePkgs = map[string]bool{
	"net": true, "crypto/tls": true, "os": true, "sync": true, "time": true, "context": true, "net/http": true,
	"github.com/garyburd/redigo/redis": true, "github.com/vinllen/redis-go-cluster": true,
	"github.com/FZambia/go-sentinel": true, "golang.org/x/sync/semaphore": true,
	modPath + "/redis-shake/dbSync/redisConnWrapper": true,
	"github.com/prometheus/client_golang/prometheus": true,
}

func isHandle(t types.Type) bool {
	if p, ok := t.(*types.Pointer); ok {
		t = p.Elem()
	}
	if n, ok := t.(*types.Named); ok && n.Obj().Pkg() != nil {
		if handlePkgs[n.Obj().Pkg().Path()] {
			if n.Obj().Pkg().Path() == "net/http" {
				switch n.Obj().Name() {
				case "Client", "Response", "Server", "Transport", "ResponseWriter":
					return true
				}
				return false
			}
			if n.Obj().Pkg().Path() == "sync" {
				switch n.Obj().Name() {
				case "Mutex", "RWMutex", "WaitGroup", "Once", "Cond":
					return true
				}
				return false // sync.Map, sync.Pool hold values
			}
			if n.Obj().Pkg().Path() == "time" && n.Obj().Name() != "Ticker" && n.Obj().Name() != "Timer" {
				return false
			}
			if n.Obj().Pkg().Path() == "github.com/garyburd/redigo/redis" && n.Obj().Name() != "Conn" && n.Obj().Name() != "Pool" {
				return false
			}
			return true
		}
	}
	return false
}

func carries(t types.Type) bool {
	if t == nil {
		return true
	}
	if isHandle(t) {
		return false
	}
	switch u := t.Underlying().(type) {
	case *types.Basic:
		if u.Info()&(types.IsNumeric|types.IsBoolean) != 0 {
			return false
		}
		if u.Kind() == types.UntypedNil {
			return false
		}
		return true
	case *types.Tuple:
		return u.Len() > 0
	}
	return true
}

func isIface(t types.Type) bool {
	if t == nil {
		return false
	}
	_, ok := t.Underlying().(*types.Interface)
	return ok
}

func qual(p *types.Package) string { return p.Path() }

func (x *ex) typeKey(t types.Type) string { return types.TypeString(t, qual) }

func shortName(t types.Type) string {
	return types.TypeString(t, func(p *types.Package) string { return p.Name() })
}

// goType renders t as a Lean GoType term and returns the ids of the table rows it mentions at the top
// level (below pointer/slice/map/chan/array constructors).
func (x *ex) goType(t types.Type) (string, []int) {
	if t == nil {
		x.untyped++
		return "(.basic \"invalid\")", nil
	}
	switch u := t.(type) {
	case *types.Basic:
		if u.Kind() == types.Invalid {
			x.untyped++
		}
		return fmt.Sprintf("(.basic %q)", u.Name()), nil
	case *types.Pointer:
		s, n := x.goType(u.Elem())
		return "(.ptr " + s + ")", n
	case *types.Slice:
		s, n := x.goType(u.Elem())
		return "(.slice " + s + ")", n
	case *types.Array:
		s, n := x.goType(u.Elem())
		return "(.array " + s + ")", n
	case *types.Chan:
		s, n := x.goType(u.Elem())
		return "(.chan " + s + ")", n
	case *types.Map:
		k, nk := x.goType(u.Key())
		v, nv := x.goType(u.Elem())
		return "(.map " + k + " " + v + ")", append(nk, nv...)
	case *types.Signature:
		return ".func", nil
	case *types.Interface:
		return ".iface", nil
	case *types.Tuple:
		return ".func", nil
	case *types.Struct:
		id := x.typeRow(t)
		return fmt.Sprintf("(.named %d)", id), []int{id}
	case *types.Named:
		if _, ok := u.Underlying().(*types.Interface); ok {
			return ".iface", nil
		}
		if b, ok := u.Underlying().(*types.Basic); ok {
			return fmt.Sprintf("(.basic %q)", b.Name()), nil
		}
		if _, ok := u.Underlying().(*types.Signature); ok {
			return ".func", nil
		}
		id := x.typeRow(t)
		return fmt.Sprintf("(.named %d)", id), []int{id}
	case *types.Alias:
		return x.goType(types.Unalias(t))
	case *types.TypeParam:
		return ".iface", nil
	}
	return ".iface", nil
}

func (x *ex) typeRow(t types.Type) int {
	k := x.typeKey(t)
	if id, ok := x.typeIDs[k]; ok {
		return id
	}
	id := len(x.typeDefs)
	x.typeIDs[k] = id
	x.typeDefs = append(x.typeDefs, &typeDef{id: id, name: shortName(t)})
	x.typeQ = append(x.typeQ, t)
	return id
}

// fillTypeRows expands queued rows (fields of structs; underlying of other named types).
func (x *ex) fillTypeRows() {
	for len(x.typeQ) > 0 {
		t := x.typeQ[0]
		x.typeQ = x.typeQ[1:]
		d := x.typeDefs[x.typeIDs[x.typeKey(t)]]
		external := false
		if n, ok := t.(*types.Named); ok && n.Obj().Pkg() != nil && !x.inA[n.Obj().Pkg()] {
			external = true
		}
		switch u := t.Underlying().(type) {
		case *types.Struct:
			for i := 0; i < u.NumFields(); i++ {
				f := u.Field(i)
				// fields of types declared outside the analysed packages that the analysed code cannot
				// name can never be written by it; they are listed only if exported.
				if external && !f.Exported() {
					continue
				}
				s, n := x.goType(f.Type())
				d.fields = append(d.fields, field{loc: x.loc(f), name: f.Name(), ty: s, named: n})
			}
		default:
			d.under, d.unamed = x.goType(u)
		}
	}
}

// ---------------------------------------------------------------- expressions

func unparen(e ast.Expr) ast.Expr {
	for {
		p, ok := e.(*ast.ParenExpr)
		if !ok {
			return e
		}
		e = p.X
	}
}

func (x *ex) typeOf(e ast.Expr) types.Type {
	if tv, ok := x.info.Types[e]; ok {
		return tv.Type
	}
	if id, ok := e.(*ast.Ident); ok {
		if o := x.info.ObjectOf(id); o != nil {
			return o.Type()
		}
	}
	return nil
}

func (x *ex) src(n ast.Node) string {
	var b bytes.Buffer
	printer.Fprint(&b, x.fset, n)
	s := strings.Join(strings.Fields(b.String()), " ")
	if len(s) > 90 {
		s = s[:87] + "..."
	}
	return s
}

// argType: static type of an argument expression as a GoType; calls of a masking function get the
// derived masked row.
func (x *ex) argType(e ast.Expr) (string, []int) {
	if c, ok := unparen(e).(*ast.CallExpr); ok {
		if fn, _, _ := x.staticCallee(c); fn != nil {
			if m, ok := x.maskers[fn]; ok {
				return fmt.Sprintf("(.named %d)", m.rowID), []int{m.rowID}
			}
		}
	}
	t := x.typeOf(e)
	if tu, ok := t.(*types.Tuple); ok && tu.Len() > 0 {
		t = tu.At(0).Type()
	}
	return x.goType(t)
}

func union(a []int, b ...int) []int {
	for _, v := range b {
		if v < 0 {
			continue
		}
		dup := false
		for _, w := range a {
			if w == v {
				dup = true
				break
			}
		}
		if !dup {
			a = append(a, v)
		}
	}
	return a
}

// locs: the locations an expression's value is read from (nil if the static type cannot carry text).
func (x *ex) locs(e ast.Expr) []int {
	if e == nil {
		return nil
	}
	v := x.locs0(e)
	if t := x.typeOf(e); t != nil && !carries(t) {
		return nil
	}
	return v
}

func (x *ex) locs0(e ast.Expr) []int {
	switch n := e.(type) {
	case *ast.ParenExpr:
		return x.locs(n.X)
	case *ast.Ident:
		if o := x.info.ObjectOf(n); o != nil {
			if l := x.loc(o); l >= 0 {
				return []int{l}
			}
		}
		return nil
	case *ast.BasicLit:
		return nil
	case *ast.FuncLit:
		x.funcLit(n)
		return nil
	case *ast.SelectorExpr:
		if sel, ok := x.info.Selections[n]; ok {
			base := x.locs(n.X)
			if sel.Kind() == types.FieldVal {
				// field-based: all instances of a struct type declared in the analysed packages share one
				// location per field, and every write to such a field is an edge into that location
				// (writes by unanalysed callees through a pointer are out-flows into all fields, see dest).
				if x.structInA(x.typeOf(n.X)) {
					return []int{x.loc(sel.Obj())}
				}
				return union(append([]int{}, base...), x.loc(sel.Obj()))
			}
			return base // method value
		}
		if o := x.info.Uses[n.Sel]; o != nil { // qualified identifier
			if l := x.loc(o); l >= 0 {
				return []int{l}
			}
		}
		return nil
	case *ast.IndexExpr:
		x.locs(n.Index)
		return x.locs(n.X)
	case *ast.SliceExpr:
		x.locs(n.Low)
		x.locs(n.High)
		x.locs(n.Max)
		return x.locs(n.X)
	case *ast.StarExpr:
		return x.locs(n.X)
	case *ast.UnaryExpr:
		return x.locs(n.X)
	case *ast.TypeAssertExpr:
		return x.locs(n.X)
	case *ast.BinaryExpr:
		return union(append([]int{}, x.locs(n.X)...), x.locs(n.Y)...)
	case *ast.KeyValueExpr:
		return union(append([]int{}, x.locs(n.Key)...), x.locs(n.Value)...)
	case *ast.CompositeLit:
		return x.compositeLit(n)
	case *ast.CallExpr:
		rs := x.call(n)
		var out []int
		for _, r := range rs {
			out = union(out, r...)
		}
		return out
	}
	return nil
}

// structInA: t is (a pointer to) a struct type declared in the analysed packages
func (x *ex) structInA(t types.Type) bool {
	if t == nil {
		return false
	}
	if p, ok := t.Underlying().(*types.Pointer); ok {
		t = p.Elem()
	}
	n, ok := t.(*types.Named)
	if !ok || n.Obj().Pkg() == nil || !x.inA[n.Obj().Pkg()] {
		return false
	}
	_, ok = n.Underlying().(*types.Struct)
	return ok
}

// allFields: the (text-carrying) field locations of an analysed struct type, nested struct values included
func (x *ex) allFields(t types.Type, depth int) []int {
	if p, ok := t.Underlying().(*types.Pointer); ok {
		t = p.Elem()
	}
	st, ok := t.Underlying().(*types.Struct)
	if !ok || depth > 4 {
		return nil
	}
	var out []int
	for i := 0; i < st.NumFields(); i++ {
		f := st.Field(i)
		if !carries(f.Type()) {
			continue
		}
		out = append(out, x.loc(f))
		if _, ok := f.Type().Underlying().(*types.Struct); ok {
			out = append(out, x.allFields(f.Type(), depth+1)...)
		}
	}
	return out
}

// convEdge: value of expression e (static type S) is stored into an interface-typed location dst.
func (x *ex) handOver(e ast.Expr, dst int, note string) {
	if dst < 0 {
		return
	}
	s, named := x.argType(e)
	if len(named) == 0 {
		return
	}
	k := fmt.Sprintf("%s>%d", s, dst)
	if x.tedgeSet[k] {
		return
	}
	x.tedgeSet[k] = true
	x.tedges = append(x.tedges, typeEdge{ty: s, dst: dst, note: note, named: named})
}

// store: e flows into the locations dsts whose declared type is dt.
func (x *ex) store(e ast.Expr, dsts []int, dt types.Type) {
	src := x.locs(e)
	x.edges2(src, dsts)
	// address-taken non-struct variables alias their pointer holder
	if u, ok := unparen(e).(*ast.UnaryExpr); ok && u.Op == token.AND {
		if t := x.typeOf(u.X); t != nil {
			if _, isStruct := t.Underlying().(*types.Struct); !isStruct {
				for _, d := range dsts {
					x.edges2([]int{d}, x.dest(u.X))
				}
			}
		}
	}
	if dt == nil || isIface(dt) {
		if et := x.typeOf(e); et != nil && !isIface(et) {
			for _, d := range dsts {
				x.handOver(e, d, "to-interface "+x.pos(e.Pos()))
			}
		}
	}
}

func (x *ex) dest(e ast.Expr) []int {
	switch n := unparen(e).(type) {
	case *ast.Ident:
		if n.Name == "_" {
			return nil
		}
		if o := x.info.ObjectOf(n); o != nil {
			if l := x.loc(o); l >= 0 {
				return []int{l}
			}
		}
	case *ast.SelectorExpr:
		if sel, ok := x.info.Selections[n]; ok && sel.Kind() == types.FieldVal {
			x.locs(n.X)
			return []int{x.loc(sel.Obj())}
		}
		if o := x.info.Uses[n.Sel]; o != nil {
			if l := x.loc(o); l >= 0 {
				return []int{l}
			}
		}
	case *ast.IndexExpr:
		x.locs(n.Index)
		return x.dest(n.X)
	case *ast.StarExpr:
		return x.dest(n.X)
	case *ast.SliceExpr:
		return x.dest(n.X)
	case *ast.UnaryExpr:
		return x.dest(n.X)
	case *ast.CallExpr, *ast.TypeAssertExpr:
		return x.locs(e)
	}
	return nil
}

func (x *ex) compositeLit(n *ast.CompositeLit) []int {
	t := x.typeOf(n)
	if t == nil {
		for _, el := range n.Elts {
			x.locs(el)
		}
		return nil
	}
	under := t.Underlying()
	if p, ok := under.(*types.Pointer); ok {
		under = p.Elem().Underlying()
	}
	switch u := under.(type) {
	case *types.Struct:
		for i, el := range n.Elts {
			var f *types.Var
			val := el
			if kv, ok := el.(*ast.KeyValueExpr); ok {
				val = kv.Value
				if id, ok := kv.Key.(*ast.Ident); ok {
					for j := 0; j < u.NumFields(); j++ {
						if u.Field(j).Name() == id.Name {
							f = u.Field(j)
						}
					}
				}
			} else if i < u.NumFields() {
				f = u.Field(i)
			}
			if f == nil {
				x.locs(val)
				continue
			}
			x.store(val, []int{x.loc(f)}, f.Type())
		}
		return nil
	default:
		tmp := x.newLoc(tmpKey{n.Pos()}, "literal@"+x.pos(n.Pos()))
		var et types.Type
		switch c := under.(type) {
		case *types.Slice:
			et = c.Elem()
		case *types.Array:
			et = c.Elem()
		case *types.Map:
			et = c.Elem()
		}
		for _, el := range n.Elts {
			if kv, ok := el.(*ast.KeyValueExpr); ok {
				x.edge(x.locs(kv.Key), tmp)
				x.store(kv.Value, []int{tmp}, et)
			} else {
				x.store(el, []int{tmp}, et)
			}
		}
		return []int{tmp}
	}
}

// ---------------------------------------------------------------- calls

// staticCallee: (function, receiver expression, isInterfaceDispatch)
func (x *ex) staticCallee(c *ast.CallExpr) (*types.Func, ast.Expr, bool) {
	switch f := unparen(c.Fun).(type) {
	case *ast.Ident:
		if fn, ok := x.info.Uses[f].(*types.Func); ok {
			return fn, nil, false
		}
	case *ast.SelectorExpr:
		if sel, ok := x.info.Selections[f]; ok {
			if sel.Kind() == types.MethodVal {
				if fn, ok := sel.Obj().(*types.Func); ok {
					return fn, f.X, isIface(sel.Recv())
				}
			}
			return nil, nil, false
		}
		if fn, ok := x.info.Uses[f.Sel].(*types.Func); ok {
			return fn, nil, false
		}
	}
	return nil, nil, false
}

func fnName(fn *types.Func) string {
	sig, _ := fn.Type().(*types.Signature)
	if sig != nil && sig.Recv() != nil {
		return "(" + shortName(sig.Recv().Type()) + ")." + fn.Name()
	}
	if fn.Pkg() != nil {
		return fn.Pkg().Name() + "." + fn.Name()
	}
	return fn.Name()
}

func fullName(fn *types.Func) string {
	sig, _ := fn.Type().(*types.Signature)
	if sig != nil && sig.Recv() != nil {
		return "(" + types.TypeString(sig.Recv().Type(), qual) + ")." + fn.Name()
	}
	if fn.Pkg() != nil {
		return fn.Pkg().Path() + "." + fn.Name()
	}
	return fn.Name()
}

// Output functions: (kind, true) if a call of fn is an output site.
func (x *ex) sinkKind(fn *types.Func, recv ast.Expr, c *ast.CallExpr) (string, int, bool) {
	if fn.Pkg() == nil {
		return "", 0, false
	}
	p := fn.Pkg().Path()
	name := fn.Name()
	switch {
	case p == logPkg && fn.Exported():
		switch name {
		case "New", "OpenFile", "MustOpenFile", "FileLog", "MustFileLog", "NopCloser", "Flags", "Prefix", "SetFlags",
			"SetPrefix", "SetLevel", "SetTrace", "Close", "Set", "Test", "String":
			return "", 0, false
		}
		return "log", 0, true
	case p == "fmt" && (name == "Print" || name == "Printf" || name == "Println"):
		return "stdout", 0, true
	case p == "fmt" && strings.HasPrefix(name, "Fprint") && len(c.Args) > 0:
		if x.isStdStream(c.Args[0]) {
			return "stdstream", 1, true
		}
		if x.isRespWriter(x.typeOf(c.Args[0])) {
			return "http-response", 1, true
		}
	case p == "io" && name == "WriteString" && len(c.Args) == 2:
		if x.isStdStream(c.Args[0]) {
			return "stdstream", 1, true
		}
		if x.isRespWriter(x.typeOf(c.Args[0])) {
			return "http-response", 1, true
		}
	case p == "log" && (strings.HasPrefix(name, "Print") || strings.HasPrefix(name, "Fatal") || strings.HasPrefix(name, "Panic")):
		return "stdlog", 0, true
	case name == "WithLabelValues" && strings.Contains(p, "prometheus"):
		return "prometheus-label", 0, true
	case p == "net/http" && recv != nil && (name == "Post" || name == "PostForm" || name == "Get" || name == "Do" || name == "Head"):
		return "http-request", 0, true
	case p == "net/http" && recv == nil && (name == "Post" || name == "PostForm" || name == "Get" || name == "Head" || name == "Error"):
		return "http-request", 0, true
	case p == "encoding/json" && name == "Encode" && recv != nil:
		return "json-encoder", 0, true
	}
	if recv != nil && (name == "Write" || name == "WriteString") {
		if x.isStdStream(recv) {
			return "stdstream", 0, true
		}
		if x.isRespWriter(x.typeOf(recv)) {
			return "http-response", 0, true
		}
	}
	return "", 0, false
}

func (x *ex) isStdStream(e ast.Expr) bool {
	if s, ok := unparen(e).(*ast.SelectorExpr); ok {
		if o, ok := x.info.Uses[s.Sel].(*types.Var); ok && o.Pkg() != nil && o.Pkg().Path() == "os" {
			return o.Name() == "Stdout" || o.Name() == "Stderr"
		}
	}
	return false
}

func (x *ex) isRespWriter(t types.Type) bool {
	return t != nil && types.TypeString(t, qual) == "net/http.ResponseWriter"
}

// transmit: sending bytes to a network peer / data file. The property is about logs and status
// documents; what is sent to the Redis peers (AUTH included) is not an output in its sense, and what a
// peer answers is not derived from the secrets. Trusted, listed in the notes.
func isTransmit(fn *types.Func, recvT types.Type) bool {
	if recvT == nil {
		return false
	}
	rt := types.TypeString(recvT, qual)
	switch rt {
	case "*bytes.Buffer", "bytes.Buffer", "*strings.Builder", "strings.Builder":
		return false // accumulators: content can be read back
	}
	switch fn.Name() {
	case "Write", "WriteString", "WriteByte", "WriteRune", "Flush", "ReadFrom":
		switch rt {
		case "net.Conn", "*net.TCPConn", "*crypto/tls.Conn", "*bufio.Writer", "*bufio.ReadWriter", "io.Writer",
			"io.WriteCloser", "*os.File", modPath + "/pkg/libs/io/pipe.Writer":
			return true
		}
	case "Do", "Send", "Receive":
		if strings.Contains(rt, "redigo/redis.Conn") || strings.Contains(rt, "redis-go-cluster") || strings.HasSuffix(rt, "ClusterI") {
			return true
		}
	}
	return false
}

// Summaries of functions whose body is not analysed, where the default ("every result and every writable
// argument may depend on every argument") is needlessly coarse. TRUSTED; listed in design_notes/C19.md.
//   "pure": results depend on the arguments; nothing is stored into the receiver or the arguments
//   "none": no flow at all
func summary(fn *types.Func, recv ast.Expr) string {
	if fn.Pkg() == nil {
		return ""
	}
	p := fn.Pkg().Path()
	full := fullName(fn)
	switch full {
	case "(*github.com/gugemichael/nimo4go.ConfigLoader).Load":
		// fills the configuration struct from the file: its password fields are sources already
		return "none"
	case "reflect.TypeOf":
		return "none" // a type descriptor, not the value
	case "github.com/vinllen/redis-go-cluster.NewCluster":
		// opens the cluster connection with the credentials in Options; its error names the start
		// nodes, not the credentials (library source read; trusted)
		return "connect"
	}
	if recv == nil {
		switch p {
		case "strings", "strconv", "path/filepath", "path", "unicode", "unicode/utf8", "math", "errors", "time", "os", "net", "net/url",
			"encoding/base64", "encoding/hex", "regexp", "sort", "reflect", "runtime", "sync/atomic",
			modPath + "/pkg/libs/errors", "github.com/pkg/errors":
			return "pure"
		case "fmt":
			if strings.HasPrefix(fn.Name(), "Sprint") || fn.Name() == "Errorf" {
				return "pure"
			}
		case "encoding/json":
			if strings.HasPrefix(fn.Name(), "Marshal") {
				return "pure"
			}
		case "bytes":
			return "pure"
		}
	}
	return ""
}

// fmtVerbs: the verb applied to each operand of a constant format string ("" = cannot tell).
func fmtVerbs(format string, n int) []string {
	out := make([]string, n)
	k := 0
	for i := 0; i < len(format); i++ {
		if format[i] != '%' {
			continue
		}
		i++
		flags := ""
		for i < len(format) && strings.IndexByte("+-# 0", format[i]) >= 0 {
			flags += string(format[i])
			i++
		}
		for i < len(format) && (format[i] >= '0' && format[i] <= '9' || format[i] == '.') {
			i++
		}
		if i >= len(format) {
			break
		}
		c := format[i]
		if c == '%' {
			continue
		}
		if c == '*' || c == '[' {
			return make([]string, n) // indexed / starred operands: give up
		}
		if k < n {
			v := string(c)
			if strings.Contains(flags, "+") {
				v = "+" + v
			}
			if strings.Contains(flags, "#") {
				v = "#" + v
			}
			out[k] = v
		}
		k++
	}
	return out
}

// stringerOf: if fmt would render an operand of static type t through its own String() method (declared in
// the analysed packages), that method.
func (x *ex) stringerOf(t types.Type) *types.Func {
	if t == nil || isIface(t) {
		return nil
	}
	ms := types.NewMethodSet(t)
	sel := ms.Lookup(nil, "String")
	if sel == nil {
		return nil
	}
	fn, ok := sel.Obj().(*types.Func)
	if !ok {
		return nil
	}
	sig := fn.Type().(*types.Signature)
	if sig.Params().Len() != 0 || sig.Results().Len() != 1 {
		return nil
	}
	if b, ok := sig.Results().At(0).Type().(*types.Basic); !ok || b.Kind() != types.String {
		return nil
	}
	if _, ok := x.decls[fn]; !ok {
		return nil
	}
	return fn
}

func (x *ex) addSite(kind, callee string, at token.Pos, args []ast.Expr) {
	s := site{loc: x.pos(at), kind: kind, callee: callee}
	// which operands are rendered with %v / %s (where fmt consults String())
	verbs := make([]string, len(args))
	fmtStyle := kind == "log" || kind == "stdout" || kind == "stdstream" || kind == "stdlog"
	if fmtStyle {
		isF := strings.HasSuffix(callee, "f")
		fi := -1
		if isF {
			for i, a := range args {
				if t := x.typeOf(a); t != nil {
					if b, ok := t.Underlying().(*types.Basic); ok && b.Info()&types.IsString != 0 {
						fi = i
						break
					}
				}
			}
		}
		switch {
		case !isF:
			for i := range verbs {
				verbs[i] = "v"
			}
		case fi >= 0:
			if tv, ok := x.info.Types[args[fi]]; ok && tv.Value != nil {
				if f, err := strconv.Unquote(tv.Value.ExactString()); err == nil {
					vs := fmtVerbs(f, len(args)-fi-1)
					copy(verbs[fi+1:], vs)
				}
			}
		}
	}
	for i, a := range args {
		u0 := x.untyped
		ty, named := x.argType(a)
		if x.untyped != u0 {
			x.warn("untyped argument %s at %s", x.src(a), x.pos(a.Pos()))
		}
		l := append([]int{}, x.locs(a)...)
		src := x.src(a)
		if v := verbs[i]; v == "v" || v == "+v" || v == "s" || v == "q" {
			if fn := x.stringerOf(x.typeOf(a)); fn != nil {
				// fmt prints what String() returns: the operand is that result
				sig := fn.Type().(*types.Signature)
				x.edge(l, x.loc(sig.Recv()))
				ty, named = "(.basic \"string\")", nil
				l = []int{x.retLoc(fn, sig, 0, fnName(fn))}
				src += " (rendered by its String method)"
			}
		}
		s.args = append(s.args, arg{ty: ty, named: named, locs: l, src: src})
	}
	x.sites = append(x.sites, s)
}

func (x *ex) variadicParam(sig *types.Signature, i int) *types.Var {
	n := sig.Params().Len()
	if n == 0 {
		return nil
	}
	if i < n-1 || (i == n-1 && !sig.Variadic()) {
		return sig.Params().At(i)
	}
	if sig.Variadic() {
		return sig.Params().At(n - 1)
	}
	return nil
}

// internalCall links a call to a function whose body is analysed.
func (x *ex) internalCall(key interface{}, sig *types.Signature, name string, recv ast.Expr, recvLocs []int, c *ast.CallExpr, argLocs [][]int) [][]int {
	if recv != nil && sig.Recv() != nil {
		x.edge(recvLocs, x.loc(sig.Recv()))
	}
	for i, a := range c.Args {
		p := x.variadicParam(sig, i)
		if p == nil {
			continue
		}
		pl := x.loc(p)
		x.edge(argLocs[i], pl)
		pt := p.Type()
		if sig.Variadic() && i >= sig.Params().Len()-1 && !c.Ellipsis.IsValid() {
			if s, ok := pt.(*types.Slice); ok {
				pt = s.Elem()
			}
		}
		if isIface(pt) {
			if at := x.typeOf(a); at != nil && !isIface(at) {
				x.handOver(a, pl, "arg-to-interface "+x.pos(a.Pos()))
			}
		}
		if u, ok := unparen(a).(*ast.UnaryExpr); ok && u.Op == token.AND {
			if t := x.typeOf(u.X); t != nil {
				if _, isStruct := t.Underlying().(*types.Struct); !isStruct {
					x.edges2([]int{pl}, x.dest(u.X))
				}
			}
		}
	}
	var out [][]int
	for i := 0; i < sig.Results().Len(); i++ {
		if carries(sig.Results().At(i).Type()) {
			out = append(out, []int{x.retLoc(key, sig, i, name)})
		} else {
			out = append(out, nil)
		}
	}
	return out
}

// externalCall: callee body unknown. Every result and every writable argument may depend on every
// argument (by location and by static type).
func (x *ex) externalCall(c *ast.CallExpr, name string, recv ast.Expr, recvLocs []int, argLocs [][]int, resT types.Type) [][]int {
	return x.externalCallP(c, name, recv, recvLocs, argLocs, resT, false)
}

func (x *ex) externalCallP(c *ast.CallExpr, name string, recv ast.Expr, recvLocs []int, argLocs [][]int, resT types.Type, pure bool) [][]int {
	tmp := x.newLoc(tmpKey{c.Pos()}, "call "+name+"@"+x.pos(c.Pos()))
	x.edge(recvLocs, tmp)
	if recv != nil {
		x.handOver(recv, tmp, "recv-of "+name+" "+x.pos(c.Pos()))
	}
	for i, a := range c.Args {
		x.edge(argLocs[i], tmp)
		x.handOver(a, tmp, "arg-of "+name+" "+x.pos(c.Pos()))
	}
	writable := func(e ast.Expr) bool {
		if u, ok := unparen(e).(*ast.UnaryExpr); ok && u.Op == token.AND {
			return true
		}
		t := x.typeOf(e)
		if t == nil {
			return false
		}
		switch t.Underlying().(type) {
		case *types.Pointer, *types.Slice, *types.Map, *types.Interface, *types.Chan:
			return true
		}
		return false
	}
	// what the callee may store into a writable argument (or an addressable receiver) comes from the
	// OTHER arguments; an argument does not taint itself.
	outFlow := func(self int, e ast.Expr) {
		d := x.dest(e)
		if t := x.typeOf(e); x.structInA(t) {
			d = x.allFields(t, 0)
		}
		if len(d) == 0 {
			return
		}
		any := false
		t2 := -1
		mk := func() int {
			if t2 < 0 {
				t2 = x.newLoc(retKey{tmpKey{c.Pos()}, self}, fmt.Sprintf("into arg#%d of %s@%s", self, name, x.pos(c.Pos())))
			}
			return t2
		}
		if self != -1 && recv != nil {
			if len(recvLocs) > 0 {
				x.edge(recvLocs, mk())
				any = true
			}
			n0 := len(x.tedges)
			x.handOver(recv, mk(), "recv-of "+name+" "+x.pos(c.Pos()))
			any = any || len(x.tedges) > n0
		}
		for j, a := range c.Args {
			if j == self {
				continue
			}
			if len(argLocs[j]) > 0 {
				x.edge(argLocs[j], mk())
				any = true
			}
			if _, named := x.argType(a); len(named) > 0 {
				x.handOver(a, mk(), "arg-of "+name+" "+x.pos(c.Pos()))
				any = true
			}
		}
		if any {
			x.edges2([]int{t2}, d)
		}
	}
	if recv != nil && !pure {
		// a method on an addressable value may have a pointer receiver
		outFlow(-1, recv)
	}
	for i, a := range c.Args {
		if writable(a) && !pure {
			outFlow(i, a)
		}
	}
	var out [][]int
	if tu, ok := resT.(*types.Tuple); ok {
		for i := 0; i < tu.Len(); i++ {
			if carries(tu.At(i).Type()) {
				out = append(out, []int{tmp})
			} else {
				out = append(out, nil)
			}
		}
	} else if resT != nil && carries(resT) {
		out = append(out, []int{tmp})
	}
	return out
}

func (x *ex) impls(iface types.Type, method string) []*types.Func {
	k := x.typeKey(iface) + "#" + method
	if r, ok := x.implC[k]; ok {
		return r
	}
	var out []*types.Func
	it, _ := iface.Underlying().(*types.Interface)
	if it != nil {
		for _, n := range x.allNamed {
			for _, t := range []types.Type{n, types.NewPointer(n)} {
				if isIface(n) || !types.Implements(t, it) {
					continue
				}
				obj, _, _ := types.LookupFieldOrMethod(t, true, n.Obj().Pkg(), method)
				if fn, ok := obj.(*types.Func); ok {
					if _, ok := x.decls[fn]; ok {
						dup := false
						for _, o := range out {
							if o == fn {
								dup = true
							}
						}
						if !dup {
							out = append(out, fn)
						}
					}
				}
			}
		}
	}
	x.implC[k] = out
	return out
}

func mergeRes(a, b [][]int) [][]int {
	for len(a) < len(b) {
		a = append(a, nil)
	}
	for i := range b {
		a[i] = union(a[i], b[i]...)
	}
	return a
}

func (x *ex) call(c *ast.CallExpr) [][]int {
	fun := unparen(c.Fun)
	// conversion
	if tv, ok := x.info.Types[c.Fun]; ok && tv.IsType() {
		if len(c.Args) != 1 {
			return nil
		}
		l := x.locs(c.Args[0])
		if at := x.typeOf(c.Args[0]); at != nil {
			sa, ok1 := at.Underlying().(*types.Struct)
			sb, ok2 := tv.Type.Underlying().(*types.Struct)
			if ok1 && ok2 && sa != sb && sa.NumFields() == sb.NumFields() {
				for i := 0; i < sa.NumFields(); i++ {
					x.edge([]int{x.loc(sa.Field(i))}, x.loc(sb.Field(i)))
				}
			}
		}
		if isIface(tv.Type) {
			if at := x.typeOf(c.Args[0]); at != nil && !isIface(at) {
				tmp := x.newLoc(tmpKey{c.Pos()}, "conversion@"+x.pos(c.Pos()))
				x.edge(l, tmp)
				x.handOver(c.Args[0], tmp, "conversion "+x.pos(c.Pos()))
				return [][]int{{tmp}}
			}
		}
		return [][]int{l}
	}
	// builtins
	if id, ok := fun.(*ast.Ident); ok {
		if b, ok := x.info.Uses[id].(*types.Builtin); ok {
			switch b.Name() {
			case "append":
				var out []int
				for i, a := range c.Args {
					l := x.locs(a)
					out = union(out, l...)
					if i > 0 {
						if t0 := x.typeOf(c.Args[0]); t0 != nil {
							if st, ok := t0.Underlying().(*types.Slice); ok && isIface(st.Elem()) && !c.Ellipsis.IsValid() {
								if at := x.typeOf(a); at != nil && !isIface(at) {
									tmp := x.newLoc(tmpKey{c.Pos()}, "append@"+x.pos(c.Pos()))
									x.handOver(a, tmp, "append-to-interface-slice "+x.pos(a.Pos()))
									out = union(out, tmp)
								}
							}
						}
					}
				}
				return [][]int{out}
			case "copy":
				if len(c.Args) == 2 {
					x.edges2(x.locs(c.Args[1]), x.dest(c.Args[0]))
				}
				return nil
			case "panic", "print", "println":
				x.addSite("panic/print", b.Name(), c.Pos(), c.Args)
				return nil
			case "recover":
				return nil
			default:
				for _, a := range c.Args {
					x.locs(a)
				}
				return nil
			}
		}
	}
	// immediate function literal
	if lit, ok := fun.(*ast.FuncLit); ok {
		sig, _ := x.typeOf(lit).(*types.Signature)
		argLocs := make([][]int, len(c.Args))
		for i, a := range c.Args {
			argLocs[i] = x.locs(a)
		}
		x.funcLit(lit)
		if sig == nil {
			return nil
		}
		return x.internalCall(lit, sig, "func@"+x.pos(lit.Pos()), nil, nil, c, argLocs)
	}

	fn, recv, dyn := x.staticCallee(c)
	var recvLocs []int
	if recv != nil {
		recvLocs = x.locs(recv)
	}
	if fn != nil {
		if kind, skip, ok := x.sinkKind(fn, recv, c); ok {
			x.addSite(kind, fnName(fn), c.Pos(), c.Args[skip:])
			return nil
		}
		if fn.Name() == "RegisterAPI" && len(c.Args) == 3 {
			// handler registered in pass 1; its results are sites. Evaluate the arguments normally.
			for _, a := range c.Args {
				x.locs(a)
			}
			return nil
		}
	}
	argLocs := make([][]int, len(c.Args))
	for i, a := range c.Args {
		argLocs[i] = x.locs(a)
	}
	resT := x.typeOf(c)

	if fn != nil && !dyn {
		sig := fn.Type().(*types.Signature)
		if _, ok := x.decls[fn]; ok {
			return x.internalCall(fn, sig, fnName(fn), recv, recvLocs, c, argLocs)
		}
		if recv != nil && isTransmit(fn, x.typeOf(recv)) {
			return x.transmit(c, recvLocs, resT)
		}
		switch summary(fn, recv) {
		case "none":
			return x.transmit(c, nil, resT)
		case "pure":
			return x.externalCallP(c, fnName(fn), recv, recvLocs, argLocs, resT, true)
		case "connect":
			var l []int
			for _, al := range argLocs {
				l = union(l, al...)
			}
			return x.transmit(c, l, resT)
		}
		return x.externalCall(c, fnName(fn), recv, recvLocs, argLocs, resT)
	}
	if fn != nil && dyn {
		sig := fn.Type().(*types.Signature)
		rt := x.typeOf(recv)
		var out [][]int
		for _, m := range x.impls(rt, fn.Name()) {
			msig := m.Type().(*types.Signature)
			out = mergeRes(out, x.internalCall(m, msig, fnName(m), recv, recvLocs, c, argLocs))
		}
		declaredInA := false
		if n, ok := rt.(*types.Named); ok && n.Obj().Pkg() != nil && x.inA[n.Obj().Pkg()] {
			declaredInA = true
		}
		_ = sig
		if !declaredInA || len(out) == 0 {
			if isTransmit(fn, rt) {
				out = mergeRes(out, x.transmit(c, recvLocs, resT))
			} else {
				out = mergeRes(out, x.externalCall(c, fnName(fn), recv, recvLocs, argLocs, resT))
			}
		}
		return out
	}
	// call through a function value
	fl := x.locs(fun)
	csig, _ := x.typeOf(fun).(*types.Signature)
	if csig == nil {
		if t := x.typeOf(fun); t != nil {
			csig, _ = t.Underlying().(*types.Signature)
		}
	}
	var out [][]int
	matched := false
	if csig != nil {
		for _, e := range x.escaping {
			if sameSig(e.sig, csig) {
				matched = true
				nm := "func value"
				if f, ok := e.key.(*types.Func); ok {
					nm = fnName(f)
				} else if l, ok := e.key.(*ast.FuncLit); ok {
					nm = "func@" + x.pos(l.Pos())
				}
				out = mergeRes(out, x.internalCall(e.key, e.sig, nm, nil, nil, c, argLocs))
			}
		}
	}
	if len(out) > 0 || matched {
		// function values with a candidate in the analysed packages are assumed to be one of the candidates
		return out
	}
	ext := x.externalCall(c, "func-value "+x.src(fun), nil, fl, argLocs, resT)
	return mergeRes(out, ext)
}

func (x *ex) transmit(c *ast.CallExpr, recvLocs []int, resT types.Type) [][]int {
	var out [][]int
	if tu, ok := resT.(*types.Tuple); ok {
		for i := 0; i < tu.Len(); i++ {
			if carries(tu.At(i).Type()) {
				out = append(out, recvLocs)
			} else {
				out = append(out, nil)
			}
		}
	} else if resT != nil && carries(resT) {
		out = append(out, recvLocs)
	}
	return out
}

func sameSig(a, b *types.Signature) bool {
	if a.Params().Len() != b.Params().Len() || a.Results().Len() != b.Results().Len() || a.Variadic() != b.Variadic() {
		return false
	}
	for i := 0; i < a.Params().Len(); i++ {
		if !types.Identical(a.Params().At(i).Type(), b.Params().At(i).Type()) {
			return false
		}
	}
	for i := 0; i < a.Results().Len(); i++ {
		if !types.Identical(a.Results().At(i).Type(), b.Results().At(i).Type()) {
			return false
		}
	}
	return true
}

// ---------------------------------------------------------------- statements

func (x *ex) funcLit(lit *ast.FuncLit) {
	sig, _ := x.typeOf(lit).(*types.Signature)
	saveFn, saveSig, saveName := x.curFn, x.curSig, x.curName
	x.curFn, x.curSig, x.curName = lit, sig, "func@"+x.pos(lit.Pos())
	x.block(lit.Body)
	x.curFn, x.curSig, x.curName = saveFn, saveSig, saveName
}

func (x *ex) block(b *ast.BlockStmt) {
	if b == nil {
		return
	}
	for _, s := range b.List {
		x.stmt(s)
	}
}

func (x *ex) assign(lhs []ast.Expr, rhs []ast.Expr) {
	if len(rhs) == 1 && len(lhs) > 1 {
		var rs [][]int
		switch r := unparen(rhs[0]).(type) {
		case *ast.CallExpr:
			rs = x.call(r)
		default:
			rs = [][]int{x.locs(r)}
		}
		for i, l := range lhs {
			d := x.dest(l)
			if i < len(rs) {
				if t := x.typeOf(l); t == nil || carries(t) {
					x.edges2(rs[i], d)
				}
			}
		}
		// hand-over of a concrete result into an interface-typed lhs: covered by type of the call's temp
		return
	}
	for i, l := range lhs {
		if i >= len(rhs) {
			break
		}
		d := x.dest(l)
		x.store(rhs[i], d, x.typeOf(l))
	}
}

func (x *ex) stmt(s ast.Stmt) {
	switch n := s.(type) {
	case nil:
	case *ast.BlockStmt:
		x.block(n)
	case *ast.ExprStmt:
		x.locs(n.X)
	case *ast.AssignStmt:
		if n.Tok != token.ASSIGN && n.Tok != token.DEFINE {
			// op-assign: lhs op= rhs
			x.assign(n.Lhs, n.Rhs)
			return
		}
		x.assign(n.Lhs, n.Rhs)
	case *ast.DeclStmt:
		if gd, ok := n.Decl.(*ast.GenDecl); ok {
			x.genDecl(gd)
		}
	case *ast.IncDecStmt:
	case *ast.GoStmt:
		x.locs(n.Call)
	case *ast.DeferStmt:
		x.locs(n.Call)
	case *ast.SendStmt:
		d := x.dest(n.Chan)
		var et types.Type
		if ct, ok := x.typeOf(n.Chan).Underlying().(*types.Chan); ok {
			et = ct.Elem()
		}
		x.store(n.Value, d, et)
	case *ast.ReturnStmt:
		x.ret(n)
	case *ast.IfStmt:
		x.stmt(n.Init)
		x.locs(n.Cond)
		x.block(n.Body)
		x.stmt(n.Else)
	case *ast.ForStmt:
		x.stmt(n.Init)
		x.locs(n.Cond)
		x.stmt(n.Post)
		x.block(n.Body)
	case *ast.RangeStmt:
		src := x.locs(n.X)
		if n.Key != nil {
			if t := x.typeOf(n.Key); t == nil || carries(t) {
				x.edges2(src, x.dest(n.Key))
			}
		}
		if n.Value != nil {
			if t := x.typeOf(n.Value); t == nil || carries(t) {
				x.edges2(src, x.dest(n.Value))
			}
		}
		x.block(n.Body)
	case *ast.SwitchStmt:
		x.stmt(n.Init)
		x.locs(n.Tag)
		x.block(n.Body)
	case *ast.TypeSwitchStmt:
		x.stmt(n.Init)
		var src []int
		switch a := n.Assign.(type) {
		case *ast.AssignStmt:
			if len(a.Rhs) == 1 {
				src = x.locs(a.Rhs[0])
			}
		case *ast.ExprStmt:
			x.locs(a.X)
		}
		for _, cc := range n.Body.List {
			if c, ok := cc.(*ast.CaseClause); ok {
				if o := x.info.Implicits[c]; o != nil {
					x.edge(src, x.loc(o))
				}
				for _, st := range c.Body {
					x.stmt(st)
				}
			}
		}
	case *ast.CaseClause:
		for _, e := range n.List {
			x.locs(e)
		}
		for _, st := range n.Body {
			x.stmt(st)
		}
	case *ast.SelectStmt:
		x.block(n.Body)
	case *ast.CommClause:
		x.stmt(n.Comm)
		for _, st := range n.Body {
			x.stmt(st)
		}
	case *ast.LabeledStmt:
		x.stmt(n.Stmt)
	case *ast.BranchStmt, *ast.EmptyStmt:
	}
}

func (x *ex) ret(n *ast.ReturnStmt) {
	if path, ok := x.rest[x.curFn]; ok {
		x.addSite("rest:"+path, "RegisterAPI handler result", n.Pos(), n.Results)
	}
	sig := x.curSig
	if sig == nil {
		for _, r := range n.Results {
			x.locs(r)
		}
		return
	}
	if len(n.Results) == 1 && sig.Results().Len() > 1 {
		if c, ok := unparen(n.Results[0]).(*ast.CallExpr); ok {
			rs := x.call(c)
			for i := 0; i < sig.Results().Len() && i < len(rs); i++ {
				if carries(sig.Results().At(i).Type()) {
					x.edge(rs[i], x.retLoc(x.curFn, sig, i, x.curName))
				}
			}
		}
		return
	}
	for i, r := range n.Results {
		if i >= sig.Results().Len() {
			x.locs(r)
			continue
		}
		rt := sig.Results().At(i).Type()
		if !carries(rt) {
			x.locs(r)
			continue
		}
		x.store(r, []int{x.retLoc(x.curFn, sig, i, x.curName)}, rt)
	}
}

func (x *ex) genDecl(gd *ast.GenDecl) {
	if gd.Tok != token.VAR {
		return
	}
	for _, sp := range gd.Specs {
		vs, ok := sp.(*ast.ValueSpec)
		if !ok {
			continue
		}
		var lhs []ast.Expr
		for _, nm := range vs.Names {
			lhs = append(lhs, nm)
		}
		if len(vs.Values) > 0 {
			x.assign(lhs, vs.Values)
		}
	}
}

// ---------------------------------------------------------------- pass 1: declarations, escaping functions, REST handlers, maskers

func (x *ex) pass1() {
	for _, p := range x.pkgs {
		// named types and field names
		sc := p.Types.Scope()
		for _, nm := range sc.Names() {
			tn, ok := sc.Lookup(nm).(*types.TypeName)
			if !ok {
				continue
			}
			n, ok := tn.Type().(*types.Named)
			if !ok {
				continue
			}
			x.allNamed = append(x.allNamed, n)
			if st, ok := n.Underlying().(*types.Struct); ok {
				for i := 0; i < st.NumFields(); i++ {
					x.fieldNm[st.Field(i)] = p.Types.Name() + "." + tn.Name() + "." + st.Field(i).Name()
				}
			}
		}
		for _, f := range p.Syntax {
			for _, d := range f.Decls {
				if fd, ok := d.(*ast.FuncDecl); ok && fd.Body != nil {
					if fn, ok := p.TypesInfo.Defs[fd.Name].(*types.Func); ok {
						if _, dup := x.decls[fn]; !dup {
							x.decls[fn] = fd
							x.declInfo[fn] = p.TypesInfo
						}
					}
				}
			}
		}
	}
	callFunIdents := map[*ast.Ident]bool{}
	callFunLits := map[*ast.FuncLit]bool{}
	for _, p := range x.pkgs {
		info := p.TypesInfo
		x.info = info
		for _, f := range p.Syntax {
			ast.Inspect(f, func(n ast.Node) bool {
				c, ok := n.(*ast.CallExpr)
				if !ok {
					return true
				}
				switch fe := unparen(c.Fun).(type) {
				case *ast.Ident:
					callFunIdents[fe] = true
				case *ast.SelectorExpr:
					callFunIdents[fe.Sel] = true
				case *ast.FuncLit:
					callFunLits[fe] = true
				}
				if sel, ok := unparen(c.Fun).(*ast.SelectorExpr); ok && sel.Sel.Name == "RegisterAPI" && len(c.Args) == 3 {
					path := strings.Trim(x.src(c.Args[0]), "\"")
					switch h := unparen(c.Args[2]).(type) {
					case *ast.FuncLit:
						x.rest[h] = path
					case *ast.Ident:
						if fn, ok := info.Uses[h].(*types.Func); ok {
							x.rest[fn] = path
						}
					case *ast.SelectorExpr:
						if fn, ok := info.Uses[h.Sel].(*types.Func); ok {
							x.rest[fn] = path
						}
					}
				}
				return true
			})
		}
	}
	seen := map[*types.Func]bool{}
	for _, p := range x.pkgs {
		info := p.TypesInfo
		for _, f := range p.Syntax {
			ast.Inspect(f, func(n ast.Node) bool {
				switch e := n.(type) {
				case *ast.FuncLit:
					if !callFunLits[e] {
						if sig, ok := info.TypeOf(e).(*types.Signature); ok {
							x.escaping = append(x.escaping, escFn{e, sig})
						}
					}
				case *ast.Ident:
					if callFunIdents[e] {
						return true
					}
					if fn, ok := info.Uses[e].(*types.Func); ok && !seen[fn] {
						if _, has := x.decls[fn]; has {
							seen[fn] = true
							x.escaping = append(x.escaping, escFn{fn, fn.Type().(*types.Signature)})
						}
					}
				}
				return true
			})
		}
	}
	x.findMaskers()
}

// isConstString: a string literal or a named string constant
func isConstString(info *types.Info, e ast.Expr) bool {
	tv, ok := info.Types[e]
	if !ok || tv.Value == nil {
		return false
	}
	b, ok := tv.Type.Underlying().(*types.Basic)
	return ok && b.Info()&types.IsString != 0
}

// pureMaskHelper: `func h(p *N) { p.f1 = "lit"; p.f2 = "lit" }` — one parameter of type *N, no results, and a body
// that consists of nothing but plain assignments of constant strings to direct fields of *p. Returns those fields
// (nil if the function has any other shape: then `&x` escapes and the caller is no masker).
func (x *ex) pureMaskHelper(fn *types.Func, named *types.Named) []*types.Var {
	fd, info := x.decls[fn], x.declInfo[fn]
	if fd == nil || info == nil || fd.Body == nil || len(fd.Body.List) == 0 {
		return nil
	}
	sig := fn.Type().(*types.Signature)
	if sig.Recv() != nil || sig.Params().Len() != 1 || sig.Results().Len() != 0 {
		return nil
	}
	pt, ok := sig.Params().At(0).Type().(*types.Pointer)
	if !ok || !types.Identical(pt.Elem(), named) {
		return nil
	}
	param := sig.Params().At(0)
	var out []*types.Var
	for _, s := range fd.Body.List {
		as, ok := s.(*ast.AssignStmt)
		if !ok || as.Tok != token.ASSIGN || len(as.Lhs) != len(as.Rhs) {
			return nil
		}
		for i, l := range as.Lhs {
			sel, ok := unparen(l).(*ast.SelectorExpr)
			if !ok {
				return nil
			}
			bid, ok := unparen(sel.X).(*ast.Ident)
			if !ok || info.Uses[bid] != param {
				return nil
			}
			s2, ok := info.Selections[sel]
			if !ok || s2.Kind() != types.FieldVal || len(s2.Index()) != 1 || !isConstString(info, as.Rhs[i]) {
				return nil
			}
			out = append(out, s2.Obj().(*types.Var))
		}
	}
	return out
}

// findMaskers: a function `func F() N { x := <N value>; x.f1 = "lit"; …; return x }` whose local x is
// only ever field-assigned with literals at the top level of the body and never has its address taken
// returns "N with f1… overwritten by literals".
func (x *ex) findMaskers() {
	var fns []*types.Func
	for fn := range x.decls {
		fns = append(fns, fn)
	}
	sort.Slice(fns, func(i, j int) bool { return fullName(fns[i]) < fullName(fns[j]) })
	for _, fn := range fns {
		fd := x.decls[fn]
		info := x.declInfo[fn]
		sig := fn.Type().(*types.Signature)
		if sig.Results().Len() != 1 || fd.Body == nil || len(fd.Body.List) < 2 {
			continue
		}
		named, ok := sig.Results().At(0).Type().(*types.Named)
		if !ok {
			continue
		}
		st, ok := named.Underlying().(*types.Struct)
		if !ok {
			continue
		}
		last, ok := fd.Body.List[len(fd.Body.List)-1].(*ast.ReturnStmt)
		if !ok || len(last.Results) != 1 {
			continue
		}
		rid, ok := unparen(last.Results[0]).(*ast.Ident)
		if !ok {
			continue
		}
		obj, ok := info.Uses[rid].(*types.Var)
		if !ok || obj.Parent() == nil || obj.Parent() == fn.Pkg().Scope() {
			continue
		}
		var masked []*types.Var
		bad := false
		helperAddr := map[*ast.UnaryExpr]bool{} // `&x` handed to a pure masking helper
		for _, s := range fd.Body.List[:len(fd.Body.List)-1] {
			if es, ok := s.(*ast.ExprStmt); ok {
				// `helper(&x)` where helper does nothing but `p.f = "lit"` on direct fields of its pointer parameter
				if ce, ok := es.X.(*ast.CallExpr); ok && len(ce.Args) == 1 {
					if ue, ok := unparen(ce.Args[0]).(*ast.UnaryExpr); ok && ue.Op == token.AND {
						if id, ok := unparen(ue.X).(*ast.Ident); ok && info.Uses[id] == obj {
							if cid, ok := unparen(ce.Fun).(*ast.Ident); ok {
								if callee, ok := info.Uses[cid].(*types.Func); ok {
									if flds := x.pureMaskHelper(callee, named); flds != nil {
										masked = append(masked, flds...)
										helperAddr[ue] = true
									}
								}
							}
						}
					}
				}
				continue
			}
			as, ok := s.(*ast.AssignStmt)
			if !ok {
				continue
			}
			for i, l := range as.Lhs {
				sel, ok := unparen(l).(*ast.SelectorExpr)
				if !ok {
					continue
				}
				bid, ok := unparen(sel.X).(*ast.Ident)
				if !ok || info.Uses[bid] != obj {
					continue
				}
				s2, ok := info.Selections[sel]
				if !ok || s2.Kind() != types.FieldVal || i >= len(as.Rhs) {
					continue
				}
				if isConstString(info, as.Rhs[i]) && as.Tok == token.ASSIGN {
					masked = append(masked, s2.Obj().(*types.Var))
				}
			}
		}
		// any other write to a field of x (non-literal, nested, or after) or &x disqualifies that field / the function
		nonLit := map[*types.Var]bool{}
		ast.Inspect(fd.Body, func(n ast.Node) bool {
			switch e := n.(type) {
			case *ast.UnaryExpr:
				if e.Op == token.AND && !helperAddr[e] {
					if id, ok := unparen(e.X).(*ast.Ident); ok && info.Uses[id] == obj {
						bad = true
					}
				}
			case *ast.AssignStmt:
				for i, l := range e.Lhs {
					sel, ok := unparen(l).(*ast.SelectorExpr)
					if !ok {
						continue
					}
					bid, ok := unparen(sel.X).(*ast.Ident)
					if !ok || info.Uses[bid] != obj {
						continue
					}
					s2, ok := info.Selections[sel]
					if !ok {
						continue
					}
					isLit := i < len(e.Rhs) && e.Tok == token.ASSIGN && isConstString(info, e.Rhs[i])
					if !isLit {
						nonLit[s2.Obj().(*types.Var)] = true
					}
				}
			}
			return true
		})
		if bad || len(masked) == 0 {
			continue
		}
		var keep []*types.Var
		for _, m := range masked {
			direct := false
			for i := 0; i < st.NumFields(); i++ {
				if st.Field(i) == m {
					direct = true
				}
			}
			if direct && !nonLit[m] {
				keep = append(keep, m)
			}
		}
		if len(keep) == 0 {
			continue
		}
		x.maskers[fn] = &masker{fn: fn, named: named, fields: keep}
	}
}

// ---------------------------------------------------------------- pass 2

func (x *ex) pass2() {
	for _, p := range x.pkgs {
		x.info = p.TypesInfo
		x.pkg = p
		for _, f := range p.Syntax {
			for _, d := range f.Decls {
				switch n := d.(type) {
				case *ast.GenDecl:
					x.curFn, x.curSig, x.curName = nil, nil, "package "+p.Types.Name()
					x.genDecl(n)
				case *ast.FuncDecl:
					if n.Body == nil {
						continue
					}
					fn, ok := p.TypesInfo.Defs[n.Name].(*types.Func)
					if !ok {
						continue
					}
					if x.decls[fn] != n {
						// redeclared (broken merge in main/): analyse the body against its own signature objects
						x.curFn = n
					} else {
						x.curFn = fn
					}
					x.curSig = fn.Type().(*types.Signature)
					x.curName = fnName(fn)
					if x.decls[fn] != n {
						x.curSig = nil
					}
					x.block(n.Body)
				}
			}
		}
	}
}

// ---------------------------------------------------------------- main

func leanStr(s string) string {
	var b strings.Builder
	b.WriteByte('"')
	for _, c := range []byte(s) {
		switch {
		case c == '"':
			b.WriteString("\\\"")
		case c == '\\':
			b.WriteString("\\\\")
		case c == '\n':
			b.WriteString("\\n")
		case c == '\t':
			b.WriteString("\\t")
		case c < 32 || c > 126:
			fmt.Fprintf(&b, "\\x%02x", c)
		default:
			b.WriteByte(c)
		}
	}
	b.WriteByte('"')
	return b.String()
}

func natList(v []int) string {
	s := make([]string, len(v))
	for i, n := range v {
		s[i] = fmt.Sprint(n)
	}
	return "[" + strings.Join(s, ", ") + "]"
}

func sourceHash(dirs []string) string {
	h := sha256.New()
	for _, d := range dirs {
		filepath.Walk(d, func(p string, fi os.FileInfo, err error) error {
			if err != nil || fi.IsDir() || !strings.HasSuffix(p, ".go") {
				return nil
			}
			b, _ := os.ReadFile(p)
			fmt.Fprintf(h, "%s %d\n", p, len(b))
			h.Write(b)
			return nil
		})
	}
	return fmt.Sprintf("%x", h.Sum(nil)[:16])
}

func main() {
	flag.StringVar(&repo, "repo", "/repo/src", "module root")
	flag.StringVar(&outFile, "out", "", "output .lean file")
	flag.BoolVar(&debug, "debug", false, "print the tainted locations and offending sites")
	flag.StringVar(&why, "why", "", "with -debug: explain why locations whose name contains this string are tainted")
	flag.Parse()
	self, _ := os.Executable()
	selfB, _ := os.ReadFile(self)
	stamp := sourceHash([]string{filepath.Join(repo, "redis-shake"), filepath.Join(repo, "pkg")}) + fmt.Sprintf("-%x", sha256.Sum256(selfB))[:20]
	stampFile := outFile + ".stamp"
	if !debug && outFile != "" {
		if old, err := os.ReadFile(stampFile); err == nil && string(old) == stamp {
			if _, err := os.Stat(outFile); err == nil {
				return
			}
		}
	}

	cp := filepath.Join(repo, "redis-shake/common/common.go")
	overlay := map[string][]byte{}
	if b, err := os.ReadFile(cp); err == nil {
		overlay[cp] = []byte(n1(string(b)))
	}
	cfg := &packages.Config{
		Mode: packages.NeedName | packages.NeedFiles | packages.NeedSyntax | packages.NeedTypes | packages.NeedTypesInfo |
			packages.NeedImports | packages.NeedDeps | packages.NeedCompiledGoFiles,
		Dir:     repo,
		Env:     append(os.Environ(), "GOFLAGS=-mod=mod", "GOPROXY=off", "GOSUMDB=off", "GOTOOLCHAIN=local", "CGO_ENABLED=0"),
		Overlay: overlay,
	}
	pkgs, err := packages.Load(cfg, "./redis-shake/...")
	if err != nil {
		fmt.Fprintln(os.Stderr, "logflow: load:", err)
		os.Exit(3)
	}
	sort.Slice(pkgs, func(i, j int) bool { return pkgs[i].PkgPath < pkgs[j].PkgPath })
	x := &ex{
		inA: map[*types.Package]bool{}, locOf: map[interface{}]int{}, edges: map[[2]int]bool{}, tedgeSet: map[string]bool{},
		decls: map[*types.Func]*ast.FuncDecl{}, declInfo: map[*types.Func]*types.Info{}, rest: map[interface{}]string{},
		maskers: map[*types.Func]*masker{}, typeIDs: map[string]int{}, fieldNm: map[*types.Var]string{}, implC: map[string][]*types.Func{},
	}
	var illTyped []string
	for _, p := range pkgs {
		if p.Types == nil || p.TypesInfo == nil || len(p.Syntax) == 0 {
			fmt.Fprintf(os.Stderr, "logflow: package %s could not be loaded: %v\n", p.PkgPath, p.Errors)
			os.Exit(3)
		}
		if strings.HasSuffix(p.PkgPath, "/unit_test_common") {
			continue
		}
		if len(p.Errors) > 0 {
			if !strings.HasSuffix(p.PkgPath, "/redis-shake/main") {
				fmt.Fprintf(os.Stderr, "logflow: package %s does not type-check: %v\n", p.PkgPath, p.Errors[0])
				os.Exit(3)
			}
			illTyped = append(illTyped, fmt.Sprintf("%s (%d type errors; analysed with partial type information)", p.PkgPath, len(p.Errors)))
		}
		x.fset = p.Fset
		x.pkgs = append(x.pkgs, p)
		x.inA[p.Types] = true
	}
	for _, p := range x.pkgs {
		sort.Slice(p.Syntax, func(i, j int) bool {
			return x.fset.Position(p.Syntax[i].Pos()).Filename < x.fset.Position(p.Syntax[j].Pos()).Filename
		})
	}
	x.pass1()

	// masked rows first (stable ids), then the secret fields
	findField := func(pkgSuffix, typ, fld string) *types.Var {
		for _, p := range x.pkgs {
			if !strings.HasSuffix(p.PkgPath, pkgSuffix) {
				continue
			}
			if tn, ok := p.Types.Scope().Lookup(typ).(*types.TypeName); ok {
				if st, ok := tn.Type().Underlying().(*types.Struct); ok {
					for i := 0; i < st.NumFields(); i++ {
						if st.Field(i).Name() == fld {
							return st.Field(i)
						}
					}
				}
			}
		}
		return nil
	}
	type secretSpec struct{ pkg, typ, fld string }
	specs := []secretSpec{
		{"/redis-shake/configure", "Configuration", "SourcePasswordRaw"},
		{"/redis-shake/configure", "Configuration", "SourcePasswordEncoding"},
		{"/redis-shake/configure", "Configuration", "TargetPasswordRaw"},
		{"/redis-shake/configure", "Configuration", "TargetPasswordEncoding"},
		{"/redis-shake/dbSync/slot", "SyncNode", "SourcePassword"},
		{"/redis-shake/dbSync/slot", "SyncNode", "TargetPassword"},
	}
	var secretLocs []int
	for _, s := range specs {
		f := findField(s.pkg, s.typ, s.fld)
		if f == nil {
			fmt.Fprintf(os.Stderr, "logflow: secret field %s.%s.%s not found in the current source\n", s.pkg, s.typ, s.fld)
			os.Exit(3)
		}
		secretLocs = append(secretLocs, x.loc(f))
	}
	// configuration type row and the masked row of GetSafeOptions
	var confNamed *types.Named
	for _, p := range x.pkgs {
		if strings.HasSuffix(p.PkgPath, "/redis-shake/configure") {
			if tn, ok := p.Types.Scope().Lookup("Configuration").(*types.TypeName); ok {
				confNamed, _ = tn.Type().(*types.Named)
			}
		}
	}
	if confNamed == nil {
		fmt.Fprintln(os.Stderr, "logflow: conf.Configuration not found")
		os.Exit(3)
	}
	confRow := x.typeRow(confNamed)
	syncNodeRow := -1
	for _, p := range x.pkgs {
		if strings.HasSuffix(p.PkgPath, "/redis-shake/dbSync/slot") {
			if tn, ok := p.Types.Scope().Lookup("SyncNode").(*types.TypeName); ok {
				syncNodeRow = x.typeRow(tn.Type())
			}
		}
	}
	var safeMasker *masker
	var maskerFns []*types.Func
	for fn := range x.maskers {
		maskerFns = append(maskerFns, fn)
	}
	sort.Slice(maskerFns, func(i, j int) bool { return fullName(maskerFns[i]) < fullName(maskerFns[j]) })
	type maskRow struct {
		fn           string
		orig, masked int
		fields       []int
	}
	var maskRows []maskRow
	for _, fn := range maskerFns {
		m := x.maskers[fn]
		orig := x.typeRow(m.named)
		id := len(x.typeDefs)
		x.typeDefs = append(x.typeDefs, &typeDef{id: id, name: shortName(m.named) + " as returned by " + fnName(fn)})
		m.rowID = id
		var fl []int
		for _, f := range m.fields {
			fl = append(fl, x.loc(f))
		}
		maskRows = append(maskRows, maskRow{fnName(fn), orig, id, fl})
		if fn.Name() == "GetSafeOptions" && fn.Pkg() == confNamed.Obj().Pkg() {
			safeMasker = m
		}
	}
	x.fillTypeRows()
	// fill masked rows = original fields minus the masked ones
	for _, mr := range maskRows {
		o := x.typeDefs[mr.orig]
		d := x.typeDefs[mr.masked]
		for _, f := range o.fields {
			skip := false
			for _, m := range mr.fields {
				if m == f.loc {
					skip = true
				}
			}
			if !skip {
				d.fields = append(d.fields, f)
			}
		}
	}

	x.pass2()
	x.fillTypeRows()

	// name sources
	nameRe := regexp.MustCompile(`(?i)passw|^pwd$`)
	var nameSources []int
	{
		type kv struct {
			v  *types.Var
			id int
		}
		var all []kv
		for k, id := range x.locOf {
			if v, ok := k.(*types.Var); ok {
				all = append(all, kv{v, id})
			}
		}
		sort.Slice(all, func(i, j int) bool { return all[i].id < all[j].id })
		for _, e := range all {
			if nameRe.MatchString(e.v.Name()) && carries(e.v.Type()) {
				nameSources = append(nameSources, e.id)
			}
		}
	}

	// ---------------- candidate fixpoint
	nloc := len(x.locName)
	T := make([]bool, nloc)
	TT := make([]bool, len(x.typeDefs))
	for _, s := range secretLocs {
		T[s] = true
	}
	for _, s := range nameSources {
		T[s] = true
	}
	adj := map[int][]int{}
	for e := range x.edges {
		adj[e[0]] = append(adj[e[0]], e[1])
	}
	// taint from the six configured fields alone (for the note)
	parent := map[int]string{}
	reachFrom := func(init []int) []bool {
		R := make([]bool, nloc)
		RT := make([]bool, len(x.typeDefs))
		for _, s := range init {
			R[s] = true
		}
		for changed := true; changed; {
			changed = false
			var work []int
			for i, b := range R {
				if b {
					work = append(work, i)
				}
			}
			for len(work) > 0 {
				a := work[len(work)-1]
				work = work[:len(work)-1]
				for _, b := range adj[a] {
					if !R[b] {
						R[b] = true
						changed = true
						work = append(work, b)
						parent[b] = fmt.Sprintf("%d", a)
					}
				}
			}
			for again := true; again; {
				again = false
				for _, d := range x.typeDefs {
					if RT[d.id] {
						continue
					}
					hit := false
					for _, f := range d.fields {
						if R[f.loc] {
							hit = true
						}
						for _, n := range f.named {
							if RT[n] {
								hit = true
							}
						}
					}
					for _, n := range d.unamed {
						if RT[n] {
							hit = true
						}
					}
					if hit {
						RT[d.id] = true
						again = true
						changed = true
					}
				}
			}
			for _, te := range x.tedges {
				if R[te.dst] {
					continue
				}
				for _, n := range te.named {
					if RT[n] && !R[te.dst] {
						R[te.dst] = true
						changed = true
						parent[te.dst] = "type " + te.ty + " (" + x.typeDefs[n].name + ") " + te.note
					}
				}
			}
		}
		copy(TT, RT)
		return R
	}
	fromSix := reachFrom(secretLocs)
	var init []int
	init = append(init, secretLocs...)
	init = append(init, nameSources...)
	T = reachFrom(init)

	// offending sites (Go-side view, for -debug and the header comment)
	var offending []string
	for _, s := range x.sites {
		for _, a := range s.args {
			bad := false
			for _, n := range a.named {
				if TT[n] {
					bad = true
				}
			}
			for _, l := range a.locs {
				if T[l] {
					bad = true
				}
			}
			if bad {
				offending = append(offending, fmt.Sprintf("%s %s(%s)", s.loc, s.callee, a.src))
			}
		}
	}
	nameReached := 0
	for _, s := range nameSources {
		if fromSix[s] {
			nameReached++
		}
	}

	if debug {
		fmt.Printf("locations %d, edges %d, typeEdges %d, typeDefs %d, sites %d\n", nloc, len(x.edges), len(x.tedges), len(x.typeDefs), len(x.sites))
		fmt.Printf("name sources %d of which reached from the six fields: %d\n", len(nameSources), nameReached)
		for _, s := range nameSources {
			if !fromSix[s] {
				fmt.Println("   not reached:", x.locName[s])
			}
		}
		fmt.Println("tainted locations:")
		for i, b := range T {
			if b {
				fmt.Printf("   %d %s\n", i, x.locName[i])
			}
		}
		fmt.Println("tainted types:")
		for i, b := range TT {
			if b {
				fmt.Printf("   %d %s\n", i, x.typeDefs[i].name)
			}
		}
		fmt.Println("maskers:")
		for _, mr := range maskRows {
			fmt.Println("  ", mr.fn, mr.fields)
		}
		fmt.Println("offending sites:")
		for _, o := range offending {
			fmt.Println("  ", o)
		}
		if why != "" {
			for i, nm := range x.locName {
				if T[i] && strings.Contains(nm, why) {
					fmt.Println("WHY", i, nm)
					cur := i
					for k := 0; k < 40; k++ {
						p, ok := parent[cur]
						if !ok {
							fmt.Println("      <- source")
							break
						}
						var pi int
						if _, err := fmt.Sscanf(p, "%d", &pi); err != nil || strings.HasPrefix(p, "type") {
							fmt.Println("      <-", p)
							break
						}
						fmt.Println("      <-", pi, x.locName[pi])
						cur = pi
					}
				}
			}
		}
		fmt.Println("warnings:", x.warnings, "untyped:", x.untyped, illTyped)
		kinds := map[string]int{}
		for _, s := range x.sites {
			kinds[s.kind]++
		}
		fmt.Println("site kinds:", kinds)
	}
	if outFile == "" {
		return
	}

	// ---------------- emit
	var b strings.Builder
	b.WriteString("-- GENERATED by /verif/go/logflow (via go/factgen/c19.go) from the current /repo/src. DO NOT EDIT.\n")
	b.WriteString("import RSVerif.Model.LogFlow\n")
	b.WriteString("namespace RSVerif.Generated.LogFlow\nopen RSVerif.LogFlow\n\n")
	fmt.Fprintf(&b, "/-- number of storage locations (package vars, struct fields, params, results, locals, call temporaries) -/\ndef numLocs : Nat := %d\n", nloc)
	fmt.Fprintf(&b, "def numEdges : Nat := %d\ndef numTypeEdges : Nat := %d\ndef numSites : Nat := %d\n", len(x.edges), len(x.tedges), len(x.sites))
	fmt.Fprintf(&b, "/-- expressions (all in the ill-typed package main) whose static type the error-tolerant type checker could not determine -/\ndef untypedExprs : Nat := %d\n", x.untyped)
	fmt.Fprintf(&b, "def illTypedPackages : List String := [%s]\n", joinStr(illTyped))
	fmt.Fprintf(&b, "/-- password-named locations reached by flow from the six configured fields alone / all -/\ndef nameSourcesReached : Nat × Nat := (%d, %d)\n\n", nameReached, len(nameSources))

	// type table
	const chunk = 40
	var tnames []string
	for i := 0; i < len(x.typeDefs); i += chunk {
		nm := fmt.Sprintf("typeDefs_%d", i/chunk)
		tnames = append(tnames, nm)
		fmt.Fprintf(&b, "def %s : List TypeDef := [\n", nm)
		for j := i; j < i+chunk && j < len(x.typeDefs); j++ {
			d := x.typeDefs[j]
			var fs []string
			for _, f := range d.fields {
				fs = append(fs, fmt.Sprintf("⟨%d, %s, %s⟩", f.loc, leanStr(f.name), f.ty))
			}
			under := "none"
			if d.under != "" {
				under = "(some " + d.under + ")"
			}
			sep := ","
			if j == i+chunk-1 || j == len(x.typeDefs)-1 {
				sep = ""
			}
			fmt.Fprintf(&b, "  ⟨%d, %s, [%s], %s⟩%s\n", d.id, leanStr(d.name), strings.Join(fs, ", "), under, sep)
		}
		b.WriteString("]\n")
	}
	fmt.Fprintf(&b, "def typeDefChunks : List (List TypeDef) := [%s]\n\n", strings.Join(tnames, ", "))

	fmt.Fprintf(&b, "/-- Configuration.{Source,Target}Password{Raw,Encoding}, SyncNode.{Source,Target}Password -/\ndef secretFields : List Nat := %s\n", natList(secretLocs))
	var sn []string
	for _, s := range secretLocs {
		sn = append(sn, x.locName[s])
	}
	fmt.Fprintf(&b, "def secretFieldNames : List String := [%s]\n", joinStr(sn))
	fmt.Fprintf(&b, "/-- every location (field, parameter, local, package variable) whose name matches (?i)passw|^pwd$ -/\ndef nameSources : List Nat := %s\n", natList(nameSources))
	fmt.Fprintf(&b, "def configurationType : Nat := %d\ndef syncNodeType : Nat := %d\n", confRow, syncNodeRow)
	if safeMasker != nil {
		var fl []int
		for _, f := range safeMasker.fields {
			fl = append(fl, x.loc(f))
		}
		fmt.Fprintf(&b, "/-- fields GetSafeOptions overwrites with a string literal; row of the value it returns -/\ndef maskedFields : List Nat := %s\ndef safeOptionsType : Nat := %d\n", natList(fl), safeMasker.rowID)
	} else {
		fmt.Fprintf(&b, "/-- GetSafeOptions no longer has the shape `copy; field = literal …; return copy` -/\ndef maskedFields : List Nat := []\ndef safeOptionsType : Nat := %d\n", confRow)
	}
	var mrs []string
	for _, mr := range maskRows {
		mrs = append(mrs, fmt.Sprintf("(%d, %d, %s)", mr.orig, mr.masked, natList(mr.fields)))
	}
	fmt.Fprintf(&b, "/-- (original row, derived row, masked field locations) for every masking function found -/\ndef maskRows : List (Nat × Nat × List Nat) := [%s]\n\n", strings.Join(mrs, ", "))

	// edges
	var es [][2]int
	for e := range x.edges {
		es = append(es, e)
	}
	sort.Slice(es, func(i, j int) bool {
		if es[i][0] != es[j][0] {
			return es[i][0] < es[j][0]
		}
		return es[i][1] < es[j][1]
	})
	const echunk = 250
	var enames []string
	for i := 0; i < len(es); i += echunk {
		nm := fmt.Sprintf("edges_%d", i/echunk)
		enames = append(enames, nm)
		fmt.Fprintf(&b, "def %s : List (Nat × Nat) := [", nm)
		for j := i; j < i+echunk && j < len(es); j++ {
			if j > i {
				b.WriteString(", ")
			}
			if (j-i)%12 == 0 {
				b.WriteString("\n  ")
			}
			fmt.Fprintf(&b, "(%d, %d)", es[j][0], es[j][1])
		}
		b.WriteString("]\n")
	}
	fmt.Fprintf(&b, "def edgeChunks : List (List (Nat × Nat)) := [%s]\n\n", strings.Join(enames, ", "))

	sort.SliceStable(x.tedges, func(i, j int) bool { return x.tedges[i].dst < x.tedges[j].dst })
	var tenames []string
	for i := 0; i < len(x.tedges); i += 100 {
		nm := fmt.Sprintf("typeEdges_%d", i/100)
		tenames = append(tenames, nm)
		fmt.Fprintf(&b, "def %s : List (GoType × Nat) := [\n", nm)
		for j := i; j < i+100 && j < len(x.tedges); j++ {
			sep := ","
			if j == i+99 || j == len(x.tedges)-1 {
				sep = ""
			}
			fmt.Fprintf(&b, "  (%s, %d)%s -- %s\n", x.tedges[j].ty, x.tedges[j].dst, sep, x.tedges[j].note)
		}
		b.WriteString("]\n")
	}
	fmt.Fprintf(&b, "def typeEdgeChunks : List (List (GoType × Nat)) := [%s]\n\n", strings.Join(tenames, ", "))

	// sites
	var snames []string
	for i := 0; i < len(x.sites); i += 25 {
		nm := fmt.Sprintf("sites_%d", i/25)
		snames = append(snames, nm)
		fmt.Fprintf(&b, "def %s : List Site := [\n", nm)
		for j := i; j < i+25 && j < len(x.sites); j++ {
			s := x.sites[j]
			var as []string
			for _, a := range s.args {
				as = append(as, fmt.Sprintf("⟨%s, %s, %s⟩", a.ty, natList(a.locs), leanStr(a.src)))
			}
			sep := ","
			if j == i+24 || j == len(x.sites)-1 {
				sep = ""
			}
			fmt.Fprintf(&b, "  ⟨%s, %s, %s, [%s]⟩%s\n", leanStr(s.loc), leanStr(s.kind), leanStr(s.callee), strings.Join(as, ", "), sep)
		}
		b.WriteString("]\n")
	}
	fmt.Fprintf(&b, "def siteChunks : List (List Site) := [%s]\n\n", strings.Join(snames, ", "))

	// candidate sets as bit masks
	mask := func(bs []bool) string {
		v := new(big.Int)
		for i, bb := range bs {
			if bb {
				v.SetBit(v, i, 1)
			}
		}
		return "0x" + v.Text(16)
	}
	fmt.Fprintf(&b, "/-- candidate set of tainted locations (bit i = location i); re-checked by `closure_cert` -/\ndef tainted : Nat := %s\n", mask(T))
	fmt.Fprintf(&b, "/-- candidate set of type rows that may hold a tainted location (bit i = row i) -/\ndef taintedTypes : Nat := %s\n\n", mask(TT))

	// names (display only) of the tainted locations
	b.WriteString("/-- display names of the tainted locations (not used by any theorem) -/\ndef taintedNames : List (Nat × String) := [")
	first := true
	for i, bb := range T {
		if bb {
			if !first {
				b.WriteString(", ")
			}
			first = false
			fmt.Fprintf(&b, "(%d, %s)", i, leanStr(x.locName[i]))
		}
	}
	b.WriteString("]\n\n")
	b.WriteString("def typeDefs : List TypeDef := typeDefChunks.flatten\n")
	b.WriteString("def edges : List (Nat × Nat) := edgeChunks.flatten\n")
	b.WriteString("def typeEdges : List (GoType × Nat) := typeEdgeChunks.flatten\n")
	b.WriteString("def sites : List Site := siteChunks.flatten\n")
	b.WriteString("/-- the extracted flow graph; sources = the six configured fields and every password-named location -/\n")
	b.WriteString("def graph : Graph := ⟨typeDefs, edges, typeEdges, secretFields ++ nameSources⟩\n\n")
	b.WriteString("/- extractor's own view (informational):\n")
	for _, o := range offending {
		fmt.Fprintf(&b, "   offending: %s\n", strings.ReplaceAll(o, "-/", "- /"))
	}
	b.WriteString("-/\n")
	b.WriteString("end RSVerif.Generated.LogFlow\n")
	old, err := os.ReadFile(outFile)
	if err != nil || string(old) != b.String() {
		if err := os.WriteFile(outFile, []byte(b.String()), 0644); err != nil {
			fmt.Fprintln(os.Stderr, "logflow: write:", err)
			os.Exit(3)
		}
	}
	os.WriteFile(stampFile, []byte(stamp), 0644)
}

func joinStr(v []string) string {
	s := make([]string, len(v))
	for i, n := range v {
		s[i] = leanStr(n)
	}
	return strings.Join(s, ", ")
}
