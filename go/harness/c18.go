package main

// C18 — backlog ring: serialised schedules on the REAL pkg/libs/io/backlog (memory and file backends),
// plus direct cases for the ring arithmetic. See lean/RSVerif/Drive/C18.lean for the line protocol.

import (
	"fmt"
	"hash/fnv"
	"math/rand"
	"sync/atomic"
	"os"
	"path/filepath"
	"runtime"
	"strconv"
	"strings"
	"time"

	"github.com/alibaba/RedisShake/pkg/libs/errors"
	"github.com/alibaba/RedisShake/pkg/libs/io/backlog"
)

func init() {
	props["C18"] = &prop{gen: genC18, run: runC18}
}

// ------------------------------------------------------------------ generator

// c18sim steers the generator (which offsets are interesting, which readers are busy). It never
// produces expected results: both sides recompute everything from the case text.
type c18simReader struct {
	seek   uint64
	parked bool
	k      int
	upd    bool
}
type c18sim struct {
	size, w uint64
	closed  bool
	rds     []*c18simReader
}

func c18align(size, unit int) int {
	if size < unit {
		return unit
	}
	return (size + unit - 1) / unit * unit
}

func (s *c18sim) count(k int, o uint64) uint64 {
	n := uint64(k)
	if s.w-o < n {
		n = s.w - o
	}
	if m := s.size - o%s.size; m < n {
		n = m
	}
	return n
}

func (s *c18sim) write(n int) {
	if s.closed || n == 0 {
		return
	}
	rem := uint64(n)
	for rem > 0 {
		c := s.size - s.w%s.size
		if rem < c {
			c = rem
		}
		s.w += c
		rem -= c
		for _, r := range s.rds {
			if r.parked {
				r.parked = false
				if r.upd && r.seek+s.size >= s.w {
					r.seek += s.count(r.k, r.seek)
				}
			}
		}
	}
}

func (s *c18sim) read(r *c18simReader, k int, o uint64, upd bool) {
	if s.closed || k == 0 || o > s.w || o+s.size < s.w {
		return
	}
	if o == s.w {
		r.parked, r.k, r.upd = true, k, upd
		return
	}
	if upd {
		r.seek += s.count(k, o)
	}
}

// interesting absolute offsets around the valid window [w-min(w,size), w]
func (s *c18sim) offset(g *gen) uint64 {
	lo := uint64(0)
	if s.w > s.size {
		lo = s.w - s.size
	}
	switch g.r.Intn(14) {
	case 0:
		return lo
	case 1:
		return lo + 1
	case 2:
		if lo > 0 {
			return lo - 1
		}
		return 0
	case 3:
		return s.w
	case 4:
		return s.w + 1
	case 5:
		if s.w > 0 {
			return s.w - 1
		}
		return 0
	case 6:
		return 0
	case 7:
		return ^uint64(0) - uint64(g.r.Intn(3))
	case 8: // just before the ring seam of the current lap
		if o := s.w - s.w%s.size; o > lo {
			return o - 1
		}
		return lo
	case 9:
		if lo > 2 {
			return lo - 2 - uint64(g.r.Intn(int(c18minU(lo-2, 5000)+1)))
		}
		return 0
	case 10:
		return s.w + 2 + uint64(g.r.Intn(5000))
	default:
		if s.w > lo {
			return lo + uint64(g.r.Int63n(int64(s.w-lo)))
		}
		return lo
	}
}

func c18minU(a, b uint64) uint64 {
	if a < b {
		return a
	}
	return b
}

// length of the next write. budget = bytes this schedule may still write in large pieces (file
// backend: the Lean model handles ~4 MB/s, so the volume is bounded per case).
func (s *c18sim) wlen(g *gen, budget int) int {
	toSeam := int(s.size - s.w%s.size)
	sz := int(s.size)
	small := 1 + g.r.Intn(64)
	pick := func(n int) int {
		if n > budget {
			return small
		}
		return n
	}
	switch g.r.Intn(12) {
	case 0:
		return 0
	case 1:
		return pick(toSeam)
	case 2:
		return pick(toSeam + 1 + g.r.Intn(3))
	case 3:
		if toSeam > 1 {
			return pick(toSeam - 1)
		}
		return 1
	case 4:
		return pick(sz - 1 + g.r.Intn(3))
	case 5:
		return pick(2*sz + g.r.Intn(2*sz))
	case 6:
		return pick(3*sz + 1 + g.r.Intn(5))
	case 7, 8:
		return pick(1 + g.r.Intn(sz))
	default:
		return small
	}
}

func (s *c18sim) klen(g *gen) int {
	sz := int(s.size)
	switch g.r.Intn(10) {
	case 0:
		return 0
	case 1:
		return 1
	case 2:
		return sz
	case 3:
		return sz + 1 + g.r.Intn(100)
	case 4:
		return 2 * sz
	case 5, 6:
		return 1 + g.r.Intn(sz)
	default:
		return 1 + g.r.Intn(48)
	}
}

func genC18Sched(g *gen, backend string, req, unit, nops int, budget int) {
	s := &c18sim{size: uint64(c18align(req, unit))}
	var ops []string
	idle := func() []int {
		var ix []int
		for i, r := range s.rds {
			if !r.parked {
				ix = append(ix, i)
			}
		}
		return ix
	}
	addWrite := func(n int) {
		if n <= 24 && g.r.Intn(2) == 0 {
			ops = append(ops, "w:"+hx(g.bytes(n)))
		} else {
			ops = append(ops, fmt.Sprintf("g:%d:%d:%d", n, g.r.Intn(251), []int{1, 1, 3, 7, 250}[g.r.Intn(5)]))
		}
		s.write(n)
		// the write position sits on (or next to) the seam: probe range and validity at both edges
		if m := s.w % s.size; !s.closed && s.w >= s.size && (m <= 1 || m == s.size-1) && g.r.Intn(4) != 0 {
			ops = append(ops, "d")
			for id, r := range s.rds {
				if !r.parked && g.r.Intn(2) == 0 {
					o := s.w - s.size + uint64(g.r.Intn(3)) - 1
					if g.r.Intn(3) == 0 {
						o = s.w + uint64(g.r.Intn(2))
					}
					ops = append(ops, fmt.Sprintf("s:%d:%d", id, o))
					r.seek = o
					k := 1 + g.r.Intn(8)
					if o != s.w {
						ops = append(ops, fmt.Sprintf("r:%d:%d", id, k))
						s.read(r, k, o, true)
					}
					break
				}
			}
		}
	}
	// a reader from the start, so that something can wait at offset 0
	if g.r.Intn(4) != 0 {
		ops = append(ops, "n")
		s.rds = append(s.rds, &c18simReader{})
	}
	closeAt := -1
	if g.r.Intn(3) == 0 {
		closeAt = nops/2 + g.r.Intn(nops/2+1)
	}
	for i := 0; i < nops; i++ {
		if i == closeAt {
			switch g.r.Intn(6) {
			case 0, 1:
				ops = append(ops, "c")
			case 2, 3:
				ops = append(ops, "cx")
			default:
				ops = append(ops, fmt.Sprintf("e:%d", g.r.Intn(9)))
			}
			s.closed = true
			for _, r := range s.rds {
				r.parked = false
			}
			continue
		}
		c := g.r.Intn(100)
		switch {
		case c < 30:
			n := s.wlen(g, budget)
			budget -= n
			addWrite(n)
		case c < 36 && len(s.rds) < 5 && !s.closed: // (what NewReader answers after Close is outside the property)
			ops = append(ops, "n")
			s.rds = append(s.rds, &c18simReader{seek: s.w})
		case c < 62 && len(idle()) > 0:
			ix := idle()
			id := ix[g.r.Intn(len(ix))]
			r := s.rds[id]
			if g.r.Intn(3) != 0 { // position the reader somewhere interesting first
				o := s.offset(g)
				ops = append(ops, fmt.Sprintf("s:%d:%d", id, o))
				r.seek = o
			}
			k := s.klen(g)
			ops = append(ops, fmt.Sprintf("r:%d:%d", id, k))
			s.read(r, k, r.seek, true)
		case c < 70 && len(idle()) > 0:
			ix := idle()
			id := ix[g.r.Intn(len(ix))]
			k, o := s.klen(g), s.offset(g)
			ops = append(ops, fmt.Sprintf("a:%d:%d:%d", id, k, o))
			s.read(s.rds[id], k, o, false)
		case c < 78 && len(idle()) > 0: // drain: sequential reads the way a replica would
			ix := idle()
			id := ix[g.r.Intn(len(ix))]
			r := s.rds[id]
			for j := 0; j < 1+g.r.Intn(4) && !r.parked; j++ {
				k := s.klen(g)
				ops = append(ops, fmt.Sprintf("r:%d:%d", id, k))
				s.read(r, k, r.seek, true)
			}
		case c < 86 && len(s.rds) > 0:
			ops = append(ops, fmt.Sprintf("v:%d", g.r.Intn(len(s.rds))))
		case c < 90 && len(s.rds) > 0:
			ops = append(ops, fmt.Sprintf("o:%d", g.r.Intn(len(s.rds))))
		case c < 97:
			ops = append(ops, "d")
		case c < 98 && len(s.rds) > 0: // an op on a busy or unknown reader: refused by both sides
			id, k := g.r.Intn(len(s.rds)+1), 1+g.r.Intn(8)
			ops = append(ops, fmt.Sprintf("r:%d:%d", id, k))
			if id < len(s.rds) && !s.rds[id].parked { // happened to be idle: an ordinary read
				s.read(s.rds[id], k, s.rds[id].seek, true)
			}
		default:
			addWrite(1 + g.r.Intn(16))
		}
	}
	g.emit("sched %s %d %s", backend, req, strings.Join(ops, " "))
}

// genC18Walk: the write position walks over every lap boundary (size-1, size, size+1, 2size-1, …); at
// each stop the data range is queried and a reader is placed on and next to both edges of the window.
func genC18Walk(g *gen, backend string, req, unit, laps int) {
	size := uint64(c18align(req, unit))
	ops := []string{"n", "n"}
	w := uint64(0)
	for lap := uint64(1); lap <= uint64(laps); lap++ {
		for _, t := range []uint64{lap*size - 1, lap * size, lap*size + 1} {
			ops = append(ops, fmt.Sprintf("g:%d:%d:%d", t-w, g.r.Intn(251), []int{1, 3, 7}[g.r.Intn(3)]))
			w = t
			ops = append(ops, "d")
			lo := uint64(0)
			if w > size {
				lo = w - size
			}
			for _, o := range []uint64{lo - 1, lo, lo + 1, w - 1, w, w + 1} {
				if o == ^uint64(0) {
					continue
				}
				ops = append(ops, fmt.Sprintf("s:0:%d", o))
				if o != w {
					ops = append(ops, fmt.Sprintf("r:0:%d", []int{1, 5, int(size), int(size) + 3}[g.r.Intn(4)]), "o:0")
				}
			}
			// reader 1 waits at the write position across the boundary and is woken by the next write
			ops = append(ops, fmt.Sprintf("s:1:%d", w), fmt.Sprintf("r:1:%d", 1+g.r.Intn(9)))
		}
	}
	ops = append(ops, "c", "d", "v:0", "v:1")
	g.emit("sched %s %d %s", backend, req, strings.Join(ops, " "))
}

func genC18(g *gen) {
	// ---- ring arithmetic, systematically around every boundary
	sizes := []uint64{1, 2, 3, 7, 4096, 8192, 12288, 4194304}
	for _, size := range sizes {
		var ws []uint64
		for _, m := range []uint64{0, 1, 2, 5} {
			for _, d := range []int64{-2, -1, 0, 1, 2} {
				w := int64(m*size) + d
				if w >= 0 {
					ws = append(ws, uint64(w))
				}
			}
		}
		ws = append(ws, uint64(g.r.Int63n(int64(size)*9+1)))
		blens := []int{0, 1, 2, int(size) - 1, int(size), int(size) + 1, 2 * int(size), 1 + g.r.Intn(int(size)+3)}
		for _, w := range ws {
			for _, bl := range blens {
				if bl < 0 {
					continue
				}
				g.emit("woff %d %d %d", bl, size, w)
				for _, d := range []uint64{0, 1, 2, size - 1, size, size + 1, uint64(g.r.Int63n(int64(size) + 2))} {
					if d <= w {
						g.emit("roff %d %d %d %d", bl, size, w-d, w)
					}
				}
			}
		}
	}
	for _, unit := range []int{1, 2, 4096, 4194304} {
		for _, s := range []int{0, 1, unit - 1, unit, unit + 1, 2*unit - 1, 2 * unit, 2*unit + 1, 3*unit + g.r.Intn(unit)} {
			if s >= 0 {
				g.emit("align %d %d", s, unit)
			}
		}
	}
	// ---- boundary walks, both backends
	for _, req := range []int{0, 4097, 12288} {
		genC18Walk(g, "mem", req, 4096, 4)
	}
	genC18Walk(g, "file", 0, 4194304, g.pick(2, 3))
	if g.thorough() {
		genC18Walk(g, "file", 4194305, 4194304, 2)
	}
	// ---- schedules, memory backend: capacities from one alignment unit
	reqs := []int{0, 1, 4095, 4096, 4097, 8192, 9000}
	nm := g.pick(260, 6000)
	for i := 0; i < nm; i++ {
		genC18Sched(g, "mem", reqs[g.r.Intn(len(reqs))], 4096, 20+g.r.Intn(g.pick(90, 160)), 1<<30)
	}
	// a few long ones: totals many times the capacity
	for i := 0; i < g.pick(6, 60); i++ {
		genC18Sched(g, "mem", reqs[g.r.Intn(4)], 4096, g.pick(500, 1500), 1<<30)
	}
	// ---- schedules, file backend (one alignment unit = 4 MiB; a second unit in the thorough tier)
	nf := g.pick(2, 10)
	for i := 0; i < nf; i++ {
		req := []int{0, 4194304, 1000}[g.r.Intn(3)]
		if g.thorough() && i%5 == 4 {
			req = 4194305
		}
		// total written: about 2.5 capacities (quick) up to 6 capacities (thorough)
		genC18Sched(g, "file", req, 4194304, g.pick(60, 90), g.pick(10, 16+g.r.Intn(9))<<20)
	}
	// closing the file backend, in every way (plain, with an error, with the OS refusing the truncate) with 0-4 readers waiting
	// at the write position and some not waiting; afterwards every kind of access
	for i := 0; i < g.pick(36, 200); i++ {
		ops := []string{}
		nr := 1 + g.r.Intn(4)
		for k := 0; k < nr; k++ {
			ops = append(ops, "n")
		}
		n := g.r.Intn(40)
		if n > 0 {
			ops = append(ops, fmt.Sprintf("g:%d:%d:1", n, g.r.Intn(251)))
		}
		for k := 0; k < nr; k++ {
			if g.r.Intn(4) != 0 {
				ops = append(ops, fmt.Sprintf("s:%d:%d", k, n), fmt.Sprintf("r:%d:%d", k, 1+g.r.Intn(9))) // parks
			}
		}
		ops = append(ops, []string{"c", "cx", "cx", fmt.Sprintf("e:%d", 1+g.r.Intn(8))}[i%4])
		for k := 0; k < 2+g.r.Intn(5); k++ {
			id := g.r.Intn(nr)
			ops = append(ops, []string{"d", fmt.Sprintf("v:%d", id), fmt.Sprintf("r:%d:3", id), "w:0102", fmt.Sprintf("s:%d:0", id), "c", "cx"}[g.r.Intn(7)])
		}
		g.emit("sched file %d %s", []int{0, 1000, 4194304}[g.r.Intn(3)], strings.Join(ops, " "))
	}
	// accessors called while a writer and a reader are at work (every call must come back; the range only moves forward)
	for i := 0; i < g.pick(8, 60); i++ {
		req := []int{0, 4096, 8192, 9000}[g.r.Intn(4)]
		g.emit("stress mem %d %d %d %d", req, 200000+g.r.Intn(800000), []int{7, 100, 3000, 9000}[g.r.Intn(4)], g.r.Intn(1<<30))
	}
	for i := 0; i < g.pick(2, 8); i++ {
		g.emit("stress file %d %d %d %d", []int{0, 1000}[g.r.Intn(2)], 6000000+g.r.Intn(6000000), []int{4096, 100000, 1 << 20}[g.r.Intn(3)], g.r.Intn(1<<30))
	}
	// small-write traffic on the file backend (no wrap: exercises the growing file)
	for i := 0; i < g.pick(3, 12); i++ {
		genC18Sched(g, "file", 0, 4194304, 60, 0)
	}
}

// ------------------------------------------------------------------ runner

var c18errCustom = map[int]error{}

func c18errName(err error) string {
	switch {
	case err == nil:
		return "ok"
	case errors.Equal(err, backlog.ErrClosedBacklog):
		return "closed"
	case errors.Equal(err, backlog.ErrInvalidOffset):
		return "invalid"
	case errors.Cause(err).Error() == "EOF":
		return "eof"
	}
	for c, e := range c18errCustom {
		if errors.Cause(err) == e {
			return fmt.Sprintf("custom%d", c)
		}
	}
	return "other"
}

func (x *c18run) showErr(err error) string {
	if x.closed && err != nil {
		return "err~" + c18errName(err)
	}
	return c18errName(err)
}

func (x *c18run) showDone(tag string, id, k int, res c18res) string {
	if x.closed && k == 0 {
		return fmt.Sprintf("%s%d=~%d:%s:%s", tag, id, res.n, c18showBytes(res.buf[:res.n]), c18errName(res.err))
	}
	return fmt.Sprintf("%s%d=%d:%s:%s", tag, id, res.n, c18showBytes(res.buf[:res.n]), x.showErr(res.err))
}

func c18showBytes(b []byte) string {
	if len(b) <= 16 {
		return hx(b)
	}
	h := fnv.New64a()
	h.Write(b)
	return fmt.Sprintf("#%016x", h.Sum64())
}

func c18pattern(n, add, mul int) []byte {
	b := make([]byte, n)
	for i := range b {
		b[i] = byte((add + mul*i) % 251)
	}
	return b
}

type c18res struct {
	n   int
	buf []byte
	err error
}

type c18reader struct {
	r    *backlog.Reader
	busy bool // a goroutine of ours is inside Read/ReadAt (parked)
	done chan c18res
}

type c18run struct {
	bl     *backlog.Backlog
	rds    []*c18reader
	parked int // readers we know to be inside rwait.Wait()
	exact  bool
	dead   bool // a Write never returned: the rest of the schedule cannot be run
	fh     *os.File
	closed bool // the schedule has closed the backlog: only "some error, no bytes" is compared from here on;
	// what else the pinned code answers is printed after a '~' (stripped by ./check before comparing)
}

const c18timeout = 10 * time.Second

func c18pause(i int) {
	if i < 200 {
		runtime.Gosched()
	} else {
		time.Sleep(50 * time.Microsecond)
	}
}

// settleOne waits until the read just started either completed or is parked in rwait.Wait().
func (x *c18run) settleOne(rd *c18reader, tag string, id int) string {
	deadline := time.Now().Add(c18timeout)
	grace := time.Now().Add(60 * time.Millisecond)
	for i := 0; ; i++ {
		select {
		case res := <-rd.done:
			rd.busy = false
			return x.showDone(tag, id, len(res.buf), res)
		default:
		}
		if x.exact {
			if backlog.VerifC18Waiters(x.bl) == x.parked+1 {
				x.parked++
				return fmt.Sprintf("%s%d=park", tag, id)
			}
		} else if time.Now().After(grace) {
			x.parked++
			return fmt.Sprintf("%s%d=park", tag, id)
		}
		if time.Now().After(deadline) {
			x.parked++
			return fmt.Sprintf("%s%d=stuck", tag, id)
		}
		c18pause(i)
	}
}

func (x *c18run) parkedIds() []int {
	var ids []int
	for i, rd := range x.rds {
		if rd.busy {
			ids = append(ids, i)
		}
	}
	return ids
}

// settleWoken: after an op that may have woken readers, wait until every reader in ids has either
// completed or is (again / still) inside rwait.Wait(); one token per reader.
func (x *c18run) settleWoken(ids []int) []string {
	if len(ids) == 0 {
		return nil
	}
	got := map[int]string{}
	deadline := time.Now().Add(c18timeout)
	grace := time.Now().Add(60 * time.Millisecond)
	for i := 0; ; i++ {
		for _, id := range ids {
			if _, ok := got[id]; ok {
				continue
			}
			rd := x.rds[id]
			select {
			case res := <-rd.done:
				rd.busy = false
				got[id] = x.showDone("k", id, len(res.buf), res)
			default:
			}
		}
		if len(got) == len(ids) {
			break
		}
		if x.exact {
			if len(got)+backlog.VerifC18Waiters(x.bl) == len(ids) {
				break
			}
		} else if time.Now().After(grace) {
			break
		}
		if time.Now().After(deadline) {
			break
		}
		c18pause(i)
	}
	var out []string
	for _, id := range ids {
		if t, ok := got[id]; ok {
			out = append(out, t)
		} else {
			out = append(out, fmt.Sprintf("z%d", id))
		}
	}
	x.parked = len(ids) - len(got)
	return out
}

func (x *c18run) write(data []byte) []string {
	if x.parked == 0 {
		// nobody waits: the real Write. It must not block; bounded in case a defect makes it spin.
		type wr struct {
			n   int
			err error
		}
		ch := make(chan wr, 1)
		go func() {
			n, err := x.bl.Write(data)
			ch <- wr{n, err}
		}()
		select {
		case r := <-ch:
			if x.closed && len(data) == 0 {
				return []string{fmt.Sprintf("w=~%d:%s", r.n, c18errName(r.err))}
			}
			return []string{fmt.Sprintf("w=%d:%s", r.n, x.showErr(r.err))}
		case <-time.After(c18timeout):
			x.dead = true
			return []string{"w=blocked"}
		}
	}
	// readers are waiting: perform Write's loop one writeSome at a time and let the woken readers
	// finish after every chunk (one of the interleavings of the real Write; deterministic)
	var wake []string
	nn, b := 0, data
	for it := 0; it < len(data)+2; it++ {
		ids := x.parkedIds()
		n, err := backlog.VerifC18WriteSome(x.bl, b)
		wake = append(wake, x.settleWoken(ids)...)
		if err != nil {
			return append([]string{fmt.Sprintf("w=%d:%s", nn+n, x.showErr(err))}, wake...)
		}
		nn, b = nn+n, b[n:]
		if len(b) == 0 {
			return append([]string{fmt.Sprintf("w=%d:ok", nn)}, wake...)
		}
	}
	return append([]string{"w=spin"}, wake...)
}

func (x *c18run) startRead(tag string, id, k int, at bool, o uint64) string {
	if id >= len(x.rds) || x.rds[id].busy {
		return "x"
	}
	rd := x.rds[id]
	rd.busy = true
	buf := make([]byte, k)
	go func() {
		var n int
		var err error
		if at {
			n, err = x.bl.ReadAt(buf, o)
		} else {
			n, err = rd.r.Read(buf)
		}
		rd.done <- c18res{n, buf, err}
	}()
	return x.settleOne(rd, tag, id)
}

func c18tmpDir() string {
	exe, err := os.Executable()
	if err != nil {
		panic(err)
	}
	d := filepath.Join(filepath.Dir(exe), "tmp")
	os.MkdirAll(d, 0755)
	return d
}

func c18tf(b bool) string {
	if b {
		return "T"
	}
	return "F"
}

func c18parseU64(s string) uint64 {
	v, err := strconv.ParseUint(s, 10, 64)
	if err != nil {
		panic("bad uint64 " + s)
	}
	return v
}

func runC18(f []string) string {
	switch f[0] {
	case "roff":
		m, o := backlog.VerifC18Roffset(atoi(f[1]), c18parseU64(f[2]), c18parseU64(f[3]), c18parseU64(f[4]))
		return fmt.Sprintf("%d %d", m, o)
	case "woff":
		m, o := backlog.VerifC18Woffset(atoi(f[1]), c18parseU64(f[2]), c18parseU64(f[3]))
		return fmt.Sprintf("%d %d", m, o)
	case "align":
		return fmt.Sprint(backlog.VerifC18Align(atoi(f[1]), atoi(f[2])))
	case "sched":
		return runC18Sched(f)
	case "stress":
		return runC18Stress(f)
	}
	return "badcase"
}

// stress <mem|file> <req> <total> <chunk> <seed>: one goroutine writes <total> bytes in chunks of about <chunk>, a reader follows
// it, and two goroutines keep asking DataRange / IsValid / Offset / SeekTo all the while. Every call must come back (the accessors
// take the lock the writer holds, they must not wait for anything else), the reported range must be the most recent
// min(written, capacity) bytes at every moment (low and high end never go back, width never above the capacity), and at the end
// it is exactly that. Result: ok d=<lo>:<hi> | hang:<who> | bad:<what>
func runC18Stress(f []string) string {
	req, total, chunk := atoi(f[2]), atoi(f[3]), atoi(f[4])
	seed, _ := strconv.ParseInt(f[5], 10, 64)
	var bl *backlog.Backlog
	switch f[1] {
	case "mem":
		bl = backlog.NewSize(req)
	case "file":
		path := filepath.Join(c18tmpDir(), fmt.Sprintf("c18-stress-%d.backlog", os.Getpid()))
		fh, err := os.OpenFile(path, os.O_CREATE|os.O_RDWR|os.O_TRUNC, 0600)
		if err != nil {
			return "tmpfile-error"
		}
		defer os.Remove(path)
		defer fh.Close()
		bl = backlog.NewFileBacklog(req, fh)
	default:
		return "badcase"
	}
	defer bl.Close()
	stop := make(chan struct{})
	type rep struct{ who, what string }
	res := make(chan rep, 8)
	writerDone := make(chan struct{})
	go func() {
		defer close(writerDone)
		r := rand.New(rand.NewSource(seed))
		buf := make([]byte, 2*chunk+1)
		for w := 0; w < total; {
			n := 1 + r.Intn(2*chunk)
			if n > total-w {
				n = total - w
			}
			for i := 0; i < n; i++ {
				buf[i] = byte(w + i)
			}
			if m, err := bl.Write(buf[:n]); err != nil || m != n {
				res <- rep{"writer", fmt.Sprintf("bad:write=%d,%v", m, err)}
				return
			}
			w += n
		}
	}()
	var lastCall [3]int64 // unix nanos at which each poller entered its current call (0 = between calls)
	poll := func(id int, useReader bool) {
		var rd *backlog.Reader
		if useReader {
			rd, _ = bl.NewReader()
		}
		var plo, phi uint64
		for {
			select {
			case <-stop:
				res <- rep{fmt.Sprint("poller", id), "ok"}
				return
			default:
			}
			atomic.StoreInt64(&lastCall[id], time.Now().UnixNano())
			lo, hi, err := bl.DataRange()
			if rd != nil {
				rd.IsValid()
				rd.Offset()
				rd.SeekTo(hi)
			}
			atomic.StoreInt64(&lastCall[id], 0)
			if err != nil || lo > hi || lo < plo || hi < phi {
				res <- rep{fmt.Sprint("poller", id), fmt.Sprintf("bad:range=%d:%d:after=%d:%d:%v", lo, hi, plo, phi, err)}
				return
			}
			plo, phi = lo, hi
			runtime.Gosched()
		}
	}
	go poll(0, false)
	go poll(1, true)
	// a reader that follows the writer, as the consumers of the backlog do
	go func() {
		rd, err := bl.NewReader()
		if err != nil {
			return
		}
		b := make([]byte, chunk+3)
		for {
			if _, err := rd.Read(b); err != nil {
				return
			}
		}
	}()
	select {
	case <-writerDone:
	case r := <-res:
		close(stop)
		return r.what
	case <-time.After(60 * time.Second):
		close(stop)
		return "hang:writer"
	}
	close(stop)
	for k := 0; k < 2; k++ {
		select {
		case r := <-res:
			if r.what != "ok" {
				return r.what
			}
		case <-time.After(5 * time.Second):
			for id := 0; id < 2; id++ {
				if t := atomic.LoadInt64(&lastCall[id]); t != 0 {
					return fmt.Sprintf("hang:poller%d", id)
				}
			}
			return "hang:poller"
		}
	}
	lo, hi, err := bl.DataRange()
	if err != nil {
		return "bad:final"
	}
	return fmt.Sprintf("ok d=%d:%d", lo, hi)
}

func runC18Sched(f []string) string {
	x := &c18run{}
	req := atoi(f[2])
	switch f[1] {
	case "mem":
		x.bl = backlog.NewSize(req)
	case "file":
		path := filepath.Join(c18tmpDir(), fmt.Sprintf("c18-%d.backlog", os.Getpid()))
		fh, err := os.OpenFile(path, os.O_CREATE|os.O_RDWR|os.O_TRUNC, 0600)
		if err != nil {
			return "tmpfile-error"
		}
		defer os.Remove(path)
		defer fh.Close()
		x.bl = backlog.NewFileBacklog(req, fh)
		x.fh = fh
	default:
		return "badcase"
	}
	x.exact = backlog.VerifC18Waiters(x.bl) == 0
	defer x.bl.Close() // releases whoever is still parked when the schedule ends
	var out []string
	for _, tok := range f[3:] {
		if x.dead {
			break
		}
		q := ""
		if x.closed {
			q = "~"
		}
		p := strings.Split(tok, ":")
		switch {
		case p[0] == "n" && len(p) == 1:
			r, err := x.bl.NewReader()
			if err == nil {
				x.rds = append(x.rds, &c18reader{r: r, done: make(chan c18res, 1)})
				out = append(out, fmt.Sprintf("n=%s%d:ok", q, len(x.rds)-1))
			} else {
				out = append(out, fmt.Sprintf("n=%s%d:%s", q, len(x.rds), c18errName(err)))
			}
		case p[0] == "w" && len(p) == 2:
			out = append(out, x.write(unhx(p[1]))...)
		case p[0] == "g" && len(p) == 4:
			out = append(out, x.write(c18pattern(atoi(p[1]), atoi(p[2]), atoi(p[3])))...)
		case p[0] == "r" && len(p) == 3:
			out = append(out, x.startRead("r", atoi(p[1]), atoi(p[2]), false, 0))
		case p[0] == "a" && len(p) == 4:
			out = append(out, x.startRead("a", atoi(p[1]), atoi(p[2]), true, c18parseU64(p[3])))
		case p[0] == "s" && len(p) == 3:
			id := atoi(p[1])
			if id >= len(x.rds) || x.rds[id].busy {
				out = append(out, "x")
			} else {
				out = append(out, fmt.Sprintf("s%d=%s%s", id, q, c18tf(x.rds[id].r.SeekTo(c18parseU64(p[2])))))
			}
		case p[0] == "v" && len(p) == 2:
			id := atoi(p[1])
			if id >= len(x.rds) {
				out = append(out, "x")
			} else {
				out = append(out, fmt.Sprintf("v%d=%s%s", id, q, c18tf(x.rds[id].r.IsValid())))
			}
		case p[0] == "o" && len(p) == 2:
			id := atoi(p[1])
			if id >= len(x.rds) {
				out = append(out, "x")
			} else {
				out = append(out, fmt.Sprintf("o%d=%d", id, x.rds[id].r.Offset()))
			}
		case p[0] == "d" && len(p) == 1:
			lo, hi, err := x.bl.DataRange()
			out = append(out, fmt.Sprintf("d=%s%d:%d:%s", q, lo, hi, c18errName(err)))
		case (p[0] == "c" && len(p) == 1) || (p[0] == "cx" && len(p) == 1) || (p[0] == "e" && len(p) == 2):
			ids := x.parkedIds()
			if p[0] == "cx" {
				// the operating system refuses what close() does to the ring file (here: the descriptor is gone, so the
				// truncate fails): Close may report that, but the backlog is closed all the same and every waiting reader wakes
				if x.fh != nil {
					x.fh.Close()
				}
				p[0] = "c"
			}
			if len(ids) > 0 {
				// readers are parked: let store.close() take a few milliseconds, as closing a large backlog file does — a reader
				// that is woken must find the backlog closed, however long the close takes
				backlog.VerifC18SlowClose(x.bl, 4*time.Millisecond)
			}
			var err error
			if p[0] == "c" {
				err = x.bl.Close()
			} else {
				c := atoi(p[1])
				if c18errCustom[c] == nil {
					c18errCustom[c] = fmt.Errorf("custom close error %d", c)
				}
				err = x.bl.CloseWithError(c18errCustom[c])
			}
			x.closed = true
			out = append(out, "c=~"+c18errName(err))
			out = append(out, x.settleWoken(ids)...)
		default:
			out = append(out, "badop")
		}
	}
	return strings.Join(out, " ")
}
