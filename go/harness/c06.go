package main

// C06 — filters honoured identically in every mode and phase.
//   unit level: the real filter.FilterDB / FilterKey / FilterSlot / FilterCommands under conf.Options set directly;
//   path level: the real loop bodies of full sync (syncRDBFile), restore (restoreRDBFile, restoreCommand),
//               rump (getSourceDbList/fetcher/doFetch, and a complete executor) and incremental sync
//               (parseSourceCommand) against fake peers; reported: which (db,key)/commands arrived.

import (
	"bufio"
	"bytes"
	"encoding/binary"
	"fmt"
	"io"
	"io/ioutil"
	"net"
	"sort"
	"strconv"
	"strings"
	"sync"
	"time"

	"github.com/alibaba/RedisShake/pkg/libs/log"
	run "github.com/alibaba/RedisShake/redis-shake"
	utils "github.com/alibaba/RedisShake/redis-shake/common"
	conf "github.com/alibaba/RedisShake/redis-shake/configure"
	"github.com/alibaba/RedisShake/redis-shake/dbSync"
	"github.com/alibaba/RedisShake/redis-shake/filter"
)

func init() {
	props["C06"] = &prop{gen: genC06, run: runC06, init: initC06}
}

// ---------------------------------------------------------------- configuration

type c06cfg struct {
	kb, kw, db, dw, sl []string
	lua                bool
}

func c06list(l []string) string {
	if len(l) == 0 {
		return "_"
	}
	p := make([]string, len(l))
	for i, s := range l {
		p[i] = hx([]byte(s))
	}
	return strings.Join(p, ",")
}

func c06unlist(s string) []string {
	if s == "_" {
		return nil
	}
	var out []string
	for _, e := range strings.Split(s, ",") {
		out = append(out, string(unhx(e)))
	}
	return out
}

func (c c06cfg) String() string {
	l := 0
	if c.lua {
		l = 1
	}
	return fmt.Sprintf("kb=%s kw=%s db=%s dw=%s sl=%s lua=%d", c06list(c.kb), c06list(c.kw), c06list(c.db),
		c06list(c.dw), c06list(c.sl), l)
}

func c06field(f, pre string) string {
	if !strings.HasPrefix(f, pre) {
		panic("bad field " + f)
	}
	return f[len(pre):]
}

// c06apply parses the six configuration fields and writes them into conf.Options, the way the
// configuration loader would.
func c06apply(f []string) {
	conf.Options.FilterKeyBlacklist = c06unlist(c06field(f[0], "kb="))
	conf.Options.FilterKeyWhitelist = c06unlist(c06field(f[1], "kw="))
	conf.Options.FilterDBBlacklist = c06unlist(c06field(f[2], "db="))
	conf.Options.FilterDBWhitelist = c06unlist(c06field(f[3], "dw="))
	conf.Options.FilterSlot = c06unlist(c06field(f[4], "sl="))
	conf.Options.FilterLua = c06field(f[5], "lua=") == "1"
}

// ---------------------------------------------------------------- fake target (loopback RESP server)

type c06event struct {
	conn int
	db   int
	cmd  string
	args [][]byte
}

type c06server struct {
	ln     net.Listener
	mu     sync.Mutex
	events []c06event
	nconn  int
	ping   chan struct{}
}

var c06srv *c06server

func c06readCommand(r *bufio.Reader) ([][]byte, error) {
	line, err := r.ReadString('\n')
	if err != nil {
		return nil, err
	}
	line = strings.TrimRight(line, "\r\n")
	if len(line) == 0 || line[0] != '*' {
		return nil, fmt.Errorf("not an array: %q", line)
	}
	n, err := strconv.Atoi(line[1:])
	if err != nil {
		return nil, err
	}
	out := make([][]byte, 0, n)
	for i := 0; i < n; i++ {
		h, err := r.ReadString('\n')
		if err != nil {
			return nil, err
		}
		h = strings.TrimRight(h, "\r\n")
		if len(h) == 0 || h[0] != '$' {
			return nil, fmt.Errorf("not a bulk: %q", h)
		}
		l, err := strconv.Atoi(h[1:])
		if err != nil {
			return nil, err
		}
		b := make([]byte, l+2)
		if _, err := io.ReadFull(r, b); err != nil {
			return nil, err
		}
		out = append(out, b[:l])
	}
	return out, nil
}

func (s *c06server) serve(c net.Conn, id int) {
	defer c.Close()
	r := bufio.NewReader(c)
	db := 0
	for {
		argv, err := c06readCommand(r)
		if err != nil {
			return
		}
		if len(argv) == 0 {
			continue
		}
		cmd := strings.ToLower(string(argv[0]))
		reply := "+OK\r\n"
		switch cmd {
		case "select":
			if len(argv) == 2 {
				if n, err := strconv.Atoi(string(argv[1])); err == nil {
					db = n
				}
			}
		case "exists", "del", "pexpire", "expire":
			reply = ":0\r\n"
		case "script":
			reply = "$4\r\nsha1\r\n"
		case "ping":
			reply = "+PONG\r\n"
		}
		s.mu.Lock()
		s.events = append(s.events, c06event{conn: id, db: db, cmd: cmd, args: argv[1:]})
		s.mu.Unlock()
		if cmd == "ping" {
			select {
			case s.ping <- struct{}{}:
			default:
			}
		}
		if _, err := c.Write([]byte(reply)); err != nil {
			return
		}
	}
}

func (s *c06server) reset() {
	s.mu.Lock()
	s.events = nil
	s.mu.Unlock()
	for {
		select {
		case <-s.ping:
		default:
			return
		}
	}
}

func (s *c06server) take() []c06event {
	s.mu.Lock()
	defer s.mu.Unlock()
	ev := s.events
	s.events = nil
	return ev
}

func (s *c06server) addr() string { return s.ln.Addr().String() }

func initC06() {
	log.StdLog = log.New(ioutil.Discard, "")
	o := &conf.Options
	o.Id = "verif"
	o.Parallel = 2
	o.TargetDB = -1
	o.TargetVersion = "5.0"
	o.TargetType = conf.RedisTypeStandalone
	o.SourceType = conf.RedisTypeStandalone
	o.KeyExists = "none"
	o.BigKeyThreshold = 1 << 40
	o.Metric = true
	o.ScanKeyNumber = 50
	o.Qps = 200000
	o.HttpProfile = -1
	ln, err := net.Listen("tcp", "127.0.0.1:0")
	if err != nil {
		panic(err)
	}
	c06srv = &c06server{ln: ln, ping: make(chan struct{}, 16)}
	go func() {
		for {
			c, err := ln.Accept()
			if err != nil {
				return
			}
			c06srv.mu.Lock()
			c06srv.nconn++
			id := c06srv.nconn
			c06srv.mu.Unlock()
			go c06srv.serve(c, id)
		}
	}()
}

// ---------------------------------------------------------------- RDB image and command stream builders

func c06len(n int) []byte {
	switch {
	case n < 64:
		return []byte{byte(n)}
	case n < 16384:
		return []byte{0x40 | byte(n>>8), byte(n)}
	default:
		b := []byte{0x80, 0, 0, 0, 0}
		binary.BigEndian.PutUint32(b[1:], uint32(n))
		return b
	}
}

func c06str(s []byte) []byte { return append(c06len(len(s)), s...) }

type c06ent struct {
	gone bool // (rump) the key is in the SCAN reply but answers DUMP with nil: it vanished in between
	lua  bool
	db   int
	key  []byte
	slot int
}

// c06rdb renders the entries as an RDB (version 9) image: SELECTDB when the database changes, string
// values, `lua` aux fields where they occur, EOF and the CRC-64 trailer.
func c06rdb(es []c06ent) []byte {
	var b bytes.Buffer
	b.WriteString("REDIS0009")
	b.Write([]byte{0xfa})
	b.Write(c06str([]byte("redis-ver")))
	b.Write(c06str([]byte("5.0.7")))
	cur := 0
	for i, e := range es {
		if e.db != cur {
			b.WriteByte(0xfe)
			b.Write(c06len(e.db))
			cur = e.db
		}
		if e.lua {
			b.WriteByte(0xfa)
			b.Write(c06str([]byte("lua")))
			b.Write(c06str([]byte(fmt.Sprintf("return %d", i))))
			continue
		}
		b.WriteByte(0) // string
		b.Write(c06str(e.key))
		b.Write(c06str([]byte("v")))
	}
	b.WriteByte(0xff)
	b.Write(crc64Trailer(b.Bytes()))
	return b.Bytes()
}

type c06item struct {
	kind string // s, c, x
	db   int
	cmd  []byte
	arg  []byte
}

func c06resp(args ...[]byte) []byte {
	var b bytes.Buffer
	fmt.Fprintf(&b, "*%d\r\n", len(args))
	for _, a := range args {
		fmt.Fprintf(&b, "$%d\r\n", len(a))
		b.Write(a)
		b.WriteString("\r\n")
	}
	return b.Bytes()
}

func c06stream(items []c06item) []byte {
	var b bytes.Buffer
	for _, it := range items {
		switch it.kind {
		case "s":
			b.Write(c06resp([]byte("select"), []byte(strconv.Itoa(it.db))))
		case "c":
			b.Write(c06resp(it.cmd, it.arg, []byte("1")))
		case "k": // a command whose ONLY argument is its key
			b.Write(c06resp(it.cmd, it.arg))
		case "x":
			b.Write(c06resp(it.cmd, it.arg))
		}
	}
	return b.Bytes()
}

func c06parseEnts(s string) []c06ent {
	var out []c06ent
	if s == "_" {
		return out
	}
	for _, e := range strings.Split(s, ",") {
		p := strings.Split(e, ":")
		switch p[0] {
		case "k":
			out = append(out, c06ent{db: atoi(p[1]), key: unhx(p[2]), slot: atoi(p[3])})
		case "g":
			out = append(out, c06ent{db: atoi(p[1]), key: unhx(p[2]), slot: atoi(p[3]), gone: true})
		case "l":
			out = append(out, c06ent{lua: true, db: atoi(p[1])})
		default:
			panic("bad entry")
		}
	}
	return out
}

func c06parseItems(s string) []c06item {
	var out []c06item
	if s == "_" {
		return out
	}
	for _, e := range strings.Split(s, ",") {
		p := strings.Split(e, ":")
		switch p[0] {
		case "s":
			out = append(out, c06item{kind: "s", db: atoi(p[1])})
		case "c", "x", "k":
			out = append(out, c06item{kind: p[0], cmd: unhx(p[1]), arg: unhx(p[2])})
		default:
			panic("bad item")
		}
	}
	return out
}

func c06join(l []string) string {
	if len(l) == 0 {
		return "-"
	}
	return strings.Join(l, ",")
}

// ---------------------------------------------------------------- fake redigo connections for rump

type c06source struct {
	gone    map[string]bool  // "<db>:<key>" of the keys that answer DUMP with nil
	keys    map[int][]string // db -> keys
	cur     int
	pending []interface{}
}

func (s *c06source) Close() error { return nil }
func (s *c06source) Err() error   { return nil }
func (s *c06source) Flush() error { return nil }
func (s *c06source) Receive() (interface{}, error) {
	return nil, fmt.Errorf("unexpected Receive on the fake source")
}

func (s *c06source) reply(cmd string, args []interface{}) interface{} {
	switch strings.ToLower(cmd) {
	case "dump":
		if k, ok := args[0].(string); ok && s.gone[fmt.Sprintf("%d:%s", s.cur, k)] {
			return nil
		}
		return []byte("v")
	case "pttl":
		return int64(-1)
	}
	return []byte("?")
}

func (s *c06source) Send(cmd string, args ...interface{}) error {
	s.pending = append(s.pending, s.reply(cmd, args))
	return nil
}

func (s *c06source) Do(cmd string, args ...interface{}) (interface{}, error) {
	switch strings.ToLower(cmd) {
	case "":
		r := s.pending
		s.pending = nil
		if r == nil {
			r = []interface{}{}
		}
		return r, nil
	case "info":
		var b bytes.Buffer
		b.WriteString("# Keyspace\r\n")
		var dbs []int
		for d := range s.keys {
			dbs = append(dbs, d)
		}
		sort.Ints(dbs)
		for _, d := range dbs {
			fmt.Fprintf(&b, "db%d:keys=%d,expires=0,avg_ttl=0\r\n", d, len(s.keys[d]))
		}
		return b.Bytes(), nil
	case "select":
		switch v := args[0].(type) {
		case int:
			s.cur = v
		default:
			return nil, fmt.Errorf("select with %T", v)
		}
		return "OK", nil
	case "scan", "iscan":
		ks := make([]interface{}, 0)
		for _, k := range s.keys[s.cur] {
			ks = append(ks, []byte(k))
		}
		return []interface{}{[]byte("0"), ks}, nil
	}
	return nil, fmt.Errorf("fake source: unexpected command %q", cmd)
}

type c06target struct {
	mu      sync.Mutex
	db      int
	arrived []string
}

func (t *c06target) Close() error { return nil }
func (t *c06target) Err() error   { return nil }
func (t *c06target) Flush() error { return nil }
func (t *c06target) Receive() (interface{}, error) {
	return "OK", nil
}
func (t *c06target) Do(cmd string, args ...interface{}) (interface{}, error) {
	t.Send(cmd, args...)
	return "OK", nil
}
func (t *c06target) Send(cmd string, args ...interface{}) error {
	t.mu.Lock()
	defer t.mu.Unlock()
	switch strings.ToLower(cmd) {
	case "select":
		if v, ok := args[0].(int); ok {
			t.db = v
		}
	case "restore":
		if k, ok := args[0].(string); ok {
			t.arrived = append(t.arrived, fmt.Sprintf("%d:%s", t.db, hx([]byte(k))))
		}
	}
	return nil
}

func c06keyspace(es []c06ent) map[int][]string {
	m := map[int][]string{}
	for _, e := range es {
		if !e.lua {
			m[e.db] = append(m[e.db], string(e.key))
		}
	}
	return m
}

// ---------------------------------------------------------------- runner

func c06bit(b bool) string {
	if b {
		return "1"
	}
	return "0"
}

// arrivals of a snapshot path: sorted "db:key" of RESTORE commands, and the number of SCRIPT LOADs
func c06arrivals(ev []c06event) (string, int) {
	var keys []string
	lua := 0
	for _, e := range ev {
		switch e.cmd {
		case "restore":
			if len(e.args) > 0 {
				keys = append(keys, fmt.Sprintf("%d:%s", e.db, hx(e.args[0])))
			}
		case "script":
			lua++
		}
	}
	sort.Strings(keys)
	return c06join(keys), lua
}

func runC06(f []string) string {
	switch f[0] {
	case "unit":
		c06apply(f[1:7])
		db := atoi(f[7])
		key := string(unhx(f[8]))
		cmd := string(unhx(f[10]))
		slot := int(utils.KeyToSlot(key))
		return fmt.Sprintf("db=%s key=%s slot=%s cmd=%s", c06bit(filter.FilterDB(db)), c06bit(filter.FilterKey(key)),
			c06bit(filter.FilterSlot(slot)), c06bit(filter.FilterCommands(cmd)))
	case "rawslot":
		c06apply([]string{"kb=_", "kw=_", "db=_", "dw=_", f[1], "lua=0"})
		return c06bit(filter.FilterSlot(atoi(f[2])))
	case "rawcmd":
		c06apply([]string{"kb=_", "kw=_", "db=_", "dw=_", "sl=_", f[1]})
		return c06bit(filter.FilterCommands(string(unhx(f[2]))))
	case "path":
		c06apply(f[1:7])
		tdb := atoi(c06field(f[7], "tdb="))
		conf.Options.TargetDB = tdb
		defer func() { conf.Options.TargetDB = -1 }()
		es := c06parseEnts(c06field(f[9], "E="))
		items := c06parseItems(c06field(f[10], "S="))
		image := c06rdb(es)
		// rump (fetch side) runs on fake connections, concurrently with the TCP paths
		src := &c06source{keys: c06keyspace(es)}
		rumpDone := make(chan string, 1)
		go func() {
			defer func() {
				if e := recover(); e != nil {
					rumpDone <- "panic"
				}
			}()
			var got []string
			for _, kn := range run.VerifC06RumpFetch(src) {
				got = append(got, fmt.Sprintf("%d:%s", kn.Db, hx([]byte(kn.Key))))
			}
			sort.Strings(got)
			rumpDone <- c06join(got)
		}()
		c06srv.reset()
		fullErr := dbSync.VerifC06FullSync(image, c06srv.addr())
		full, fullLua := c06arrivals(c06srv.take())
		if fullErr != nil {
			full = "error"
		}
		run.VerifC06Restore(image, c06srv.addr())
		rest, restLua := c06arrivals(c06srv.take())
		out, _ := dbSync.VerifC06Incr(c06stream(items), len(items))
		var incr []string
		for _, c := range out {
			if strings.EqualFold(c.Cmd, "select") {
				continue
			}
			var a []byte
			if len(c.Args) > 0 {
				a = c.Args[0]
			}
			db := strconv.Itoa(c.Db)
			if tdb != -1 {
				db = "*" // which database the sender selects under target.db is C03's subject
			}
			incr = append(incr, fmt.Sprintf("%s:%s:%s", db, hx([]byte(strings.ToLower(c.Cmd))), hx(a)))
		}
		var rump string
		select {
		case rump = <-rumpDone:
		case <-time.After(20 * time.Second):
			rump = "timeout"
		}
		return fmt.Sprintf("full=%s fulllua=%d restore=%s restorelua=%d rump=%s incr=%s", full, fullLua, rest, restLua,
			rump, c06join(incr))
	case "rump":
		c06apply(f[1:7])
		conf.Options.TargetDB = atoi(c06field(f[7], "tdb="))
		defer func() { conf.Options.TargetDB = -1 }()
		if len(f) > 9 {
			// sc=tencent|aliyun: the source is one of the special clouds (their own SCAN dialects; a Tencent cluster has the one
			// logical database 0 and is not asked for its keyspace)
			switch c06field(f[9], "sc=") {
			case "tencent":
				conf.Options.ScanSpecialCloud = utils.TencentCluster
			case "aliyun":
				conf.Options.ScanSpecialCloud = utils.AliyunCluster
			}
			defer func() { conf.Options.ScanSpecialCloud = "" }()
		}
		es := c06parseEnts(c06field(f[8], "E="))
		src := &c06source{keys: c06keyspace(es), gone: map[string]bool{}}
		goneName := map[string]bool{} // whether a vanished key is copied (empty) or skipped is C16's; its name is left out here
		for _, e := range es {
			if e.gone {
				src.gone[fmt.Sprintf("%d:%s", e.db, e.key)] = true
				for d := -1; d < 64; d++ {
					goneName[fmt.Sprintf("%d:%s", d, hx(e.key))] = true
				}
			}
		}
		tgt := &c06target{}
		done := make(chan struct{})
		go func() {
			defer close(done)
			defer func() { recover() }()
			run.VerifC06Rump(src, tgt)
		}()
		select {
		case <-done:
		case <-time.After(20 * time.Second):
			return "rump=timeout"
		}
		tgt.mu.Lock()
		var got []string
		for _, a := range tgt.arrived {
			if !goneName[a] {
				got = append(got, a)
			}
		}
		tgt.mu.Unlock()
		sort.Strings(got)
		return "rump=" + c06join(got)
	case "tail":
		c06apply(f[1:7])
		items := c06parseItems(c06field(f[7], "S="))
		stream := append(c06stream(items), c06resp([]byte("PING"))...)
		c06srv.reset()
		pr, pw := io.Pipe() // never closed: restoreCommand aborts the process on EOF
		run.VerifC06RestoreTail(pr, c06srv.addr())
		go pw.Write(stream)
		select {
		case <-c06srv.ping:
		case <-time.After(10 * time.Second):
			return "tail=timeout"
		}
		var got []string
		for _, e := range c06srv.take() {
			if e.cmd == "select" || e.cmd == "ping" {
				continue
			}
			var a []byte
			if len(e.args) > 0 {
				a = e.args[0]
			}
			got = append(got, fmt.Sprintf("%d:%s:%s", e.db, hx([]byte(e.cmd)), hx(a)))
		}
		return "tail=" + c06join(got)
	}
	return "badcase"
}

// ---------------------------------------------------------------- generator

var c06alphabet = []byte("abcuser:{}-_ l")

func (g *gen) c06word(max int) string {
	n := g.r.Intn(max + 1)
	b := make([]byte, n)
	for i := range b {
		if g.r.Intn(12) == 0 {
			b[i] = byte(g.r.Intn(256))
		} else {
			b[i] = c06alphabet[g.r.Intn(len(c06alphabet))]
		}
	}
	return string(b)
}

// c06validSlotEntry: what sanitize.go's start-up check accepts (strconv.Atoi succeeds): the generator's own
// syntactic rule, not the code's.
// c06Slot: the slot of a key as the GENERATOR and the case lines state it — the external redis-go-cluster implementation
// (C15 compares it with the specification on every run), never the tool's own KeyToSlot, which is what the slot filter
// under test calls.
func c06Slot(k string) int { return c15RedisSlotForGen([]byte(k)) }

func (g *gen) c06slotEntry(n int) string {
	switch g.r.Intn(8) {
	case 0:
		return "+" + strconv.Itoa(n)
	case 1:
		return strings.Repeat("0", 1+g.r.Intn(3)) + strconv.Itoa(n)
	case 2:
		return "-" + strconv.Itoa(n)
	default:
		return strconv.Itoa(n)
	}
}

func (g *gen) c06prefixes() []string {
	n := 1 + g.r.Intn(3)
	var out []string
	for i := 0; i < n; i++ {
		switch g.r.Intn(10) {
		case 0:
			out = append(out, "") // the empty prefix matches every key
		case 1:
			out = append(out, "lu"[:1+g.r.Intn(2)])
		case 2:
			out = append(out, utils.CheckpointKey[:g.r.Intn(len(utils.CheckpointKey)+1)])
		default:
			w := g.c06word(5)
			if w == "" {
				w = "k"
			}
			out = append(out, w)
		}
	}
	return out
}

func (g *gen) c06dblist() []string {
	n := 1 + g.r.Intn(3)
	var out []string
	for i := 0; i < n; i++ {
		d := g.r.Intn(16)
		switch g.r.Intn(12) {
		case 0:
			out = append(out, "0"+strconv.Itoa(d))
		case 1:
			out = append(out, "+"+strconv.Itoa(d))
		case 2:
			out = append(out, " "+strconv.Itoa(d))
		case 3:
			out = append(out, strconv.Itoa(d)+" ")
		case 4:
			out = append(out, []string{"", "-1", "a", "1.0", "-0", "0x1", "\xef\xbc\x91"}[g.r.Intn(7)])
		default:
			out = append(out, strconv.Itoa(d))
		}
	}
	return out
}

// keys that probe the listed prefixes from every side
func (g *gen) c06keys(cfg c06cfg, n int) [][]byte {
	var pre []string
	pre = append(pre, cfg.kb...)
	pre = append(pre, cfg.kw...)
	var out [][]byte
	for len(out) < n {
		var k string
		c := g.r.Intn(16)
		p := ""
		if len(pre) > 0 {
			p = pre[g.r.Intn(len(pre))]
		}
		switch {
		case c == 0:
			k = ""
		case c == 1:
			k = p
		case c <= 3:
			k = p + g.c06word(6)
		case c == 4 && len(p) > 0:
			k = p[:g.r.Intn(len(p))] // proper prefix of a listed prefix
		case c == 5 && len(p) > 0:
			b := []byte(p)
			b[len(b)-1] ^= byte(1 + g.r.Intn(255))
			k = string(b) + g.c06word(3)
		case c == 6:
			k = g.c06word(3) + "x" + p + g.c06word(2) // contains, does not start with
		case c == 7 || c == 14:
			// brace arrangements of the hash-tag rule: a `}` in front of the first `{`, empty and unclosed tags
			k = []string{"}x{" + g.c06word(3) + "}", g.c06word(1) + "}" + g.c06word(1) + "{" + g.c06word(3) + "}" + g.c06word(2),
				"{}" + g.c06word(3), "{" + g.c06word(3), "}{" + g.c06word(2) + "}", "{" + g.c06word(2) + "}}" + g.c06word(2),
				"{{" + g.c06word(2) + "}}"}[g.r.Intn(7)]
		case c == 15:
			k = "{" + g.c06word(4) + "}" + g.c06word(4) // hash tag
		case c == 8:
			k = g.c06word(2) + "{" + p + "}" + "{" + g.c06word(2) + "}"
		case c == 9:
			k = utils.CheckpointKey
			if g.r.Intn(2) == 0 {
				k += g.c06word(5)
			}
		case c == 10:
			k = utils.CheckpointKey[:len(utils.CheckpointKey)-1-g.r.Intn(3)] + g.c06word(2)
		case c == 11:
			k = g.c06word(2) + utils.CheckpointKey
		case c == 12:
			k = []string{"lua", "lu", "luax", "Lua"}[g.r.Intn(4)]
		case c == 13:
			k = string(g.bytes(1 + g.r.Intn(12))) // arbitrary bytes
		default:
			k = g.c06word(8)
		}
		out = append(out, []byte(k))
	}
	return out
}

func (g *gen) c06cfg(keys func(c06cfg) [][]byte) c06cfg {
	var c c06cfg
	switch g.r.Intn(10) {
	case 0, 1, 2:
		c.kb = g.c06prefixes()
	case 3, 4, 5:
		c.kw = g.c06prefixes()
	case 6: // both lists: the settings file forbids it; the blacklist alone decides
		c.kb = g.c06prefixes()
		c.kw = g.c06prefixes()
	}
	switch g.r.Intn(10) {
	case 0, 1, 2:
		c.db = g.c06dblist()
	case 3, 4, 5:
		c.dw = g.c06dblist()
	case 6:
		c.db = g.c06dblist()
		c.dw = g.c06dblist()
	}
	c.lua = g.r.Intn(2) == 0
	if g.r.Intn(3) == 0 && keys != nil {
		// slot list: slots of some of the keys that will be tried, plus unrelated numbers
		ks := keys(c)
		n := 1 + g.r.Intn(3)
		for i := 0; i < n; i++ {
			s := g.r.Intn(16384)
			if g.r.Intn(3) != 0 && len(ks) > 0 {
				k := ks[g.r.Intn(len(ks))]
				// prefer a key whose hash tag is not the whole story (a `}` in front of the first `{`, several braces)
				for _, c := range ks {
					if bytes.Count(c, []byte("}")) > 0 && bytes.IndexByte(c, '}') < bytes.IndexByte(c, '{') && g.r.Intn(2) == 0 {
						k = c
						break
					}
				}
				s = int(c06Slot(string(k)))
			}
			if g.r.Intn(10) == 0 {
				s = []int{0, 16383, 16384, 99999}[g.r.Intn(4)]
			}
			c.sl = append(c.sl, g.c06slotEntry(s))
		}
	}
	return c
}

var c06cmds = []string{"eval", "EVAL", "Eval", "evalsha", "EVALSHA", "EvalSha", "script", "SCRIPT", "sCrIpT",
	"opinfo", "OPINFO", "OpInfo", "set", "SET", "get", "evals", "eva", "evalshaa", "scripts", "scrip", "opinf",
	"xopinfo", "opinfo ", "ping", "select", "publish", "multi", "exec", "", "e", "EVAL\x00", "del"}

func (g *gen) c06cmd() string {
	if g.r.Intn(6) == 0 {
		// random ASCII name
		n := g.r.Intn(8)
		b := make([]byte, n)
		for i := range b {
			b[i] = byte(32 + g.r.Intn(95))
		}
		return string(b)
	}
	return c06cmds[g.r.Intn(len(c06cmds))]
}

func (g *gen) c06db() int {
	switch g.r.Intn(12) {
	case 0:
		return []int{-1, 100, 1 << 31, 1 << 40, -7}[g.r.Intn(5)]
	default:
		return g.r.Intn(17)
	}
}

var c06keyOnly = []string{"incr", "DECR", "del", "Unlink", "persist", "lpop", "RPOP", "spop", "pfadd", "DEL"}
var c06single = []string{"set", "SET", "Set", "incr", "lpush", "HSET", "expire", "append", "zadd", "sadd", "setex"}
var c06bare = []string{"eval", "EVAL", "evalsha", "EvalSha", "script", "SCRIPT", "opinfo", "OPINFO", "OpInfo",
	"multi", "exec", "flushall"}

// c06dbNumbers: the well-formed database numbers listed in field `name` of a rendered configuration
func c06dbNumbers(cfg, name string) []int {
	var out []int
	for _, f := range strings.Fields(cfg) {
		if !strings.HasPrefix(f, name) || f == name+"_" {
			continue
		}
		for _, h := range strings.Split(f[len(name):], ",") {
			if h == "-" || len(h)%2 != 0 {
				continue
			}
			b := make([]byte, len(h)/2)
			if _, err := fmt.Sscanf(h, "%x", &b); err != nil {
				continue
			}
			if n, err := strconv.Atoi(string(b)); err == nil && n >= 0 && n < 16 {
				out = append(out, n)
			}
		}
	}
	return out
}

func (g *gen) c06path(kind string) {
	var keys [][]byte
	cfg := g.c06cfg(func(c c06cfg) [][]byte {
		keys = g.c06keys(c, g.pick(30, 60))
		return keys
	})
	if keys == nil {
		keys = g.c06keys(cfg, g.pick(30, 60))
	}
	ndb := 1 + g.r.Intn(4)
	dbs := make([]int, ndb)
	for i := range dbs {
		dbs[i] = g.r.Intn(16)
	}
	sort.Ints(dbs)
	seen := map[string]bool{}
	var ents []string
	var items []string
	nlua := 0
	for _, d := range dbs {
		if seen[fmt.Sprintf("db%d", d)] {
			continue
		}
		seen[fmt.Sprintf("db%d", d)] = true
		items = append(items, fmt.Sprintf("s:%d", d))
		for _, k := range keys {
			if g.r.Intn(ndb) != 0 {
				continue
			}
			id := fmt.Sprintf("%d:%x", d, k)
			if seen[id] {
				continue
			}
			seen[id] = true
			ents = append(ents, fmt.Sprintf("k:%d:%s:%d", d, hx(k), c06Slot(string(k))))
			if g.r.Intn(4) == 0 {
				items = append(items, fmt.Sprintf("k:%s:%s", hx([]byte(c06keyOnly[g.r.Intn(len(c06keyOnly))])), hx(k)))
			} else {
				items = append(items, fmt.Sprintf("c:%s:%s", hx([]byte(c06single[g.r.Intn(len(c06single))])), hx(k)))
			}
			if g.r.Intn(6) == 0 {
				items = append(items, fmt.Sprintf("x:%s:%s", hx([]byte(c06bare[g.r.Intn(len(c06bare))])), hx([]byte(g.c06word(4)))))
			}
		}
		if g.r.Intn(4) == 0 {
			ents = append(ents, fmt.Sprintf("l:%d", d)) // a script met in the middle of the file
			nlua++
		}
	}
	// Redis writes the scripts after the last database
	last := dbs[len(dbs)-1]
	for i := g.r.Intn(3); i > 0 || nlua == 0; i-- {
		ents = append(ents, fmt.Sprintf("l:%d", last))
		nlua++
	}
	e := "_"
	if len(ents) > 0 {
		e = strings.Join(ents, ",")
	}
	tdb := -1
	if g.r.Intn(3) == 0 {
		tdb = g.r.Intn(16) // target.db: every key lands in one database; the filters still read the SOURCE number
		if g.r.Intn(2) == 0 {
			tdb = dbs[g.r.Intn(len(dbs))] // … often a database the source also uses
		}
		// … and often one that the database lists exclude (its number is then both a filtered source db
		// and the db every forwarded SELECT names)
		if bl := c06dbNumbers(fmt.Sprint(cfg), "db="); len(bl) > 0 && g.r.Intn(2) == 0 {
			tdb = bl[g.r.Intn(len(bl))]
			dbs = append(dbs, tdb)
		}
	}
	// the incremental parser is stateful (bypass flag, last selected db): revisit databases in any order,
	// re-select the current one, select the target db itself
	if len(keys) > 0 {
		for j := g.r.Intn(6); j > 0; j-- {
			d := dbs[g.r.Intn(len(dbs))]
			if tdb != -1 && g.r.Intn(3) == 0 {
				d = tdb
			}
			items = append(items, fmt.Sprintf("s:%d", d))
			for n := g.r.Intn(3); n > 0; n-- {
				k := keys[g.r.Intn(len(keys))]
				if g.r.Intn(4) == 0 {
					items = append(items, fmt.Sprintf("k:%s:%s", hx([]byte(c06keyOnly[g.r.Intn(len(c06keyOnly))])), hx(k)))
				} else {
					items = append(items, fmt.Sprintf("c:%s:%s", hx([]byte(c06single[g.r.Intn(len(c06single))])), hx(k)))
				}
			}
		}
	}
	switch kind {
	case "incr":
		g.emit("path %s tdb=%d ls=%d E=_ S=%s", cfg, tdb, c06Slot("lua"), strings.Join(items, ","))
	case "path":
		g.emit("path %s tdb=%d ls=%d E=%s S=%s", cfg, tdb, c06Slot("lua"), e, strings.Join(items, ","))
	case "rump":
		// some keys of the SCAN replies have vanished by the time they are dumped (names unique, so that leaving them out of
		// the comparison leaves nothing else out)
		var es2 []string
		for i, t := range strings.Split(e, ",") {
			es2 = append(es2, t)
			if p := strings.Split(t, ":"); p[0] == "k" && g.r.Intn(4) == 0 {
				k := append(unhx(p[2]), []byte(fmt.Sprintf("~gone%d", i))...)
				gone := fmt.Sprintf("g:%s:%s:%d", p[1], hx(k), c06Slot(string(k)))
				if g.r.Intn(2) == 0 {
					es2 = append(es2[:len(es2)-1], gone, t)
				} else {
					es2 = append(es2, gone)
				}
			}
		}
		sc := ""
		switch g.r.Intn(5) {
		case 0, 1:
			sc = " sc=tencent"
		case 2:
			sc = " sc=aliyun"
		}
		g.emit("rump %s tdb=%d E=%s%s", cfg, tdb, strings.Join(es2, ","), sc)
	case "tail":
		g.emit("tail %s S=%s", cfg, strings.Join(items, ","))
	}
}

func genC06(g *gen) {
	// unit level
	ncfg := g.pick(250, 10000)
	for i := 0; i < ncfg; i++ {
		var keys [][]byte
		cfg := g.c06cfg(func(c c06cfg) [][]byte {
			keys = g.c06keys(c, 16)
			return keys
		})
		if keys == nil {
			keys = g.c06keys(cfg, 16)
		}
		for _, k := range keys {
			g.emit("unit %s %d %s %d %s", cfg, g.c06db(), hx(k), c06Slot(string(k)), hx([]byte(g.c06cmd())))
		}
	}
	// model-fidelity stream outside the specification's domain
	raws := []string{"", "x", "12x", "+", "-", "+-3", " 7", "7 ", "0x10", "1_0", "99999999999999999999",
		"-99999999999999999999", "9223372036854775808", "١", "1.0", "+0", "-0", "00", "16383"}
	nr := g.pick(150, 2000)
	for i := 0; i < nr; i++ {
		var l []string
		for j := 1 + g.r.Intn(3); j > 0; j-- {
			if g.r.Intn(3) == 0 {
				l = append(l, g.c06slotEntry(g.r.Intn(20)))
			} else {
				l = append(l, raws[g.r.Intn(len(raws))])
			}
		}
		s := g.r.Intn(20)
		if g.r.Intn(8) == 0 {
			s = []int{16383, 16384, -1}[g.r.Intn(3)]
		}
		g.emit("rawslot sl=%s %d", c06list(l), s)
	}
	rawc := []string{"\xc5\xbfcript", "\xc5\xbfCRIPT", "eval\xc5\xbfha", "EVAL\xc5\xbfHA", "\xc5\xbf", "\xc5", "script\xc5",
		"\xe2\x84\xaa", "opinfo\xe2\x84\xaa", "op\xc4\xb0nfo", "op\xc4\xb1nfo", "\xffscript", "scr\xc3\xaept", "eval\x80",
		"\xc1\xb3cript", "s\xc5\xbfcript", "\xc5\xbf\xc5\xbfcript", "script", "EVAL", "opinfo", "é", "ev\xe2\x84\xaaal"}
	for i := 0; i < g.pick(120, 1500); i++ {
		c := rawc[g.r.Intn(len(rawc))]
		if g.r.Intn(4) == 0 {
			c = string(g.bytes(g.r.Intn(9)))
		}
		g.emit("rawcmd lua=%d %s", g.r.Intn(2), hx([]byte(c)))
	}
	// path level
	for i := 0; i < g.pick(40, 1200); i++ {
		g.c06path("path")
	}
	// incremental-only streams (no snapshot entries, so they are cheap): many select sequences
	for i := 0; i < g.pick(500, 8000); i++ {
		g.c06path("incr")
	}
	for i := 0; i < g.pick(25, 500); i++ {
		g.c06path("tail")
	}
	for i := 0; i < g.pick(16, 300); i++ {
		g.c06path("rump")
	}
}
