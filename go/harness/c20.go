package main

// C20 — source re-discovery. Runs the REAL slotSupervisor.GetSlotState() with an injected
// connection factory that plays a generated fault script.
//
// case line:   topo <hosts> <script>
//   hosts   comma separated node names; the first is SyncNode.Source, the rest SyncNode.Slaves
//   script  rows separated by '/', one row per attempt (attempt a uses row min(a, rows-1));
//           a row is a comma separated list with one token per node *position*:
//             C        the factory returns a connect error
//             D        conn.Do returns (nil, error)
//             R        conn.Do returns a redigo.Error reply
//             N        conn.Do returns a nil reply
//             T        conn.Do returns an integer reply
//             A        conn.Do returns an array reply
//             B<hex>   conn.Do returns the INFO text as []byte   ("B-" = empty)
//             S<hex>   conn.Do returns the INFO text as string
//           a position beyond the end of its row behaves like C.
//
//              sync <hosts> <script>
//   the same through the REAL connection factory and the call site: every node is a loopback TCP server
//   speaking RESP (a column of C = nothing listens there), the real DbSyncer.updateSlotTopology() is run
//   (source.type = cluster); host names are logical, the harness maps them to 127.0.0.x addresses and back.
//   `err` becomes `abort` (log.Panicf at the call site).
// result line: ok attempts=<k> src=<host> slaves=<sorted,comma,list|->
//              err attempts=<k>            (sync: abort attempts=<k>)
//              unbounded | timeout | panic | weird      (never predicted by the model)
//
// The real retry path sleeps 6+5+4+3+2+1 s (a literal inside recursiveGetSlotState, out of reach of
// an add-only hook), so all cases of a run are executed concurrently; see design_notes/C20.md.

import (
	"bufio"
	"errors"
	"fmt"
	"io"
	"net"
	"os"
	"sort"
	"strconv"
	"strings"
	"sync"
	"time"

	"github.com/alibaba/RedisShake/pkg/libs/log"
	conf "github.com/alibaba/RedisShake/redis-shake/configure"
	"github.com/alibaba/RedisShake/redis-shake/dbSync"
	"github.com/alibaba/RedisShake/redis-shake/dbSync/slot"
	"github.com/alibaba/RedisShake/redis-shake/dbSync/slotsupervisor"
	redigo "github.com/garyburd/redigo/redis"
)

func init() {
	props["C20"] = &prop{gen: genC20, run: runC20, init: runAllC20}
}

// ---------------------------------------------------------------- fake connection

type c20Conn struct{ tok string }

func (c *c20Conn) Close() error { return nil }
func (c *c20Conn) Err() error   { return nil }
func (c *c20Conn) Do(cmd string, args ...interface{}) (interface{}, error) {
	ok := strings.EqualFold(cmd, "info") && len(args) == 1
	if ok {
		switch a := args[0].(type) {
		case string:
			ok = strings.EqualFold(a, "replication")
		case []byte:
			ok = strings.EqualFold(string(a), "replication")
		default:
			ok = false
		}
	}
	if !ok {
		// anything but INFO replication is answered like a Redis that does not know the command
		return redigo.Error("ERR unknown command"), nil
	}
	switch c.tok[0] {
	case 'D':
		return nil, errors.New("read tcp: connection reset by peer")
	case 'R':
		return redigo.Error("LOADING Redis is loading the dataset in memory"), nil
	case 'N':
		return nil, nil
	case 'T':
		return int64(1), nil
	case 'A':
		return []interface{}{[]byte("role"), []byte("master")}, nil
	case 'B':
		return unhx(c.tok[1:]), nil
	case 'S':
		return string(unhx(c.tok[1:])), nil
	}
	return nil, errors.New("bad script token")
}
func (c *c20Conn) Send(string, ...interface{}) error { return errors.New("not used") }
func (c *c20Conn) Flush() error                      { return errors.New("not used") }
func (c *c20Conn) Receive() (interface{}, error)     { return nil, errors.New("not used") }

type c20Runaway struct{}

// ---------------------------------------------------------------- running one case

func runC20(f []string) string {
	if len(f) == 3 && (f[0] == "sync" || strings.HasPrefix(f[0], "sync@")) {
		return runC20Sync(f)
	}
	if len(f) != 3 || f[0] != "topo" {
		return "badcase"
	}
	hosts := strings.Split(f[1], ",")
	var rows [][]string
	for _, r := range strings.Split(f[2], "/") {
		rows = append(rows, strings.Split(r, ","))
	}
	n := len(hosts)
	calls := 0
	unknown := false
	guard := 10
	seen := map[string]int{}
	var mu sync.Mutex
	factory := func(host, password string, tls bool) (redigo.Conn, error) {
		mu.Lock()
		defer mu.Unlock()
		attempt := calls / n
		if calls%n == 0 {
			seen = map[string]int{}
		}
		calls++
		if attempt >= guard {
			panic(c20Runaway{})
		}
		// position = the k-th occurrence of this name, k = how often it was probed in this attempt
		k := seen[host]
		seen[host] = k + 1
		pos := -1
		for i, h := range hosts {
			if h == host {
				if k == 0 {
					pos = i
					break
				}
				k--
			}
		}
		if pos < 0 {
			unknown = true
			return nil, errors.New("dial tcp: no such host")
		}
		row := rows[len(rows)-1]
		if attempt < len(rows) {
			row = rows[attempt]
		}
		tok := "C"
		if pos < len(row) && row[pos] != "" {
			tok = row[pos]
		}
		if tok[0] == 'C' {
			return nil, errors.New("dial tcp: connection refused")
		}
		return &c20Conn{tok: tok}, nil
	}
	node := slot.SyncNode{Id: 7, Source: hosts[0], Slaves: append([]string{}, hosts[1:]...),
		SourcePassword: "srcpw", Target: []string{"t:1"}, TargetPassword: "tgtpw", SlotLeftBoundary: 0, SlotRightBoundary: 5460}
	sup := slotsupervisor.VerifNew(node, factory)
	if mr := slotsupervisor.VerifMaxRetries(sup); mr >= 0 && mr < 40 {
		guard = mr + 4
	}
	budget := 15
	for d := 1; d <= guard-2; d++ {
		budget += d
	}
	if budget > 150 {
		budget = 150
	}
	type outT struct {
		node *slot.SyncNode
		err  error
		pan  interface{}
	}
	done := make(chan outT, 1)
	go func() {
		var o outT
		defer func() {
			if e := recover(); e != nil {
				o.pan = e
			}
			done <- o
		}()
		o.node, o.err = sup.GetSlotState()
	}()
	var o outT
	select {
	case o = <-done:
	case <-time.After(time.Duration(budget) * time.Second):
		return "timeout"
	}
	mu.Lock()
	defer mu.Unlock()
	if o.pan != nil {
		if _, ok := o.pan.(c20Runaway); ok {
			return "unbounded"
		}
		if os.Getenv("VERIF_DEBUG") != "" {
			return fmt.Sprintf("panic %v", o.pan)
		}
		return "panic"
	}
	attempts := (calls + n - 1) / n
	sfx := ""
	if unknown {
		sfx = " unknownhost"
	}
	switch {
	case o.err == nil && o.node != nil:
		sl := append([]string{}, o.node.Slaves...)
		sort.Strings(sl)
		s := strings.Join(sl, ",")
		if len(sl) == 0 {
			s = "-"
		}
		return fmt.Sprintf("ok attempts=%d src=%s slaves=%s%s", attempts, o.node.Source, s, sfx)
	case o.err != nil && o.node == nil:
		return fmt.Sprintf("err attempts=%d%s", attempts, sfx)
	}
	return "weird"
}

// ---------------------------------------------------------------- end to end: loopback RESP servers + the call site

// readCommand reads one RESP array-of-bulk-strings request.
func c20ReadCommand(r *bufio.Reader) ([]string, error) {
	line, err := r.ReadString('\n')
	if err != nil {
		return nil, err
	}
	line = strings.TrimRight(line, "\r\n")
	if len(line) == 0 || line[0] != '*' {
		return strings.Fields(line), nil // inline command
	}
	n, err := strconv.Atoi(line[1:])
	if err != nil || n < 0 || n > 16 {
		return nil, errors.New("bad array header")
	}
	out := make([]string, 0, n)
	for i := 0; i < n; i++ {
		h, err := r.ReadString('\n')
		if err != nil {
			return nil, err
		}
		h = strings.TrimRight(h, "\r\n")
		if len(h) == 0 || h[0] != '$' {
			return nil, errors.New("bad bulk header")
		}
		l, err := strconv.Atoi(h[1:])
		if err != nil || l < 0 || l > 1<<16 {
			return nil, errors.New("bad bulk length")
		}
		buf := make([]byte, l+2)
		if _, err := io.ReadFull(r, buf); err != nil {
			return nil, err
		}
		out = append(out, string(buf[:l]))
	}
	return out, nil
}

// one fake Redis node: the a-th accepted connection plays token rows[min(a, rows-1)][pos]
func c20Serve(ln net.Listener, pos int, rows [][]string, accepts *int32c) {
	for {
		c, err := ln.Accept()
		if err != nil {
			return
		}
		a := accepts.inc() - 1
		row := rows[len(rows)-1]
		if a < len(rows) {
			row = rows[a]
		}
		tok := "D"
		if pos < len(row) && row[pos] != "" {
			tok = row[pos]
		}
		go func(c net.Conn, tok string) {
			defer c.Close()
			c.SetDeadline(time.Now().Add(20 * time.Second))
			r := bufio.NewReader(c)
			for {
				cmd, err := c20ReadCommand(r)
				if err != nil || len(cmd) == 0 {
					return
				}
				switch {
				case strings.EqualFold(cmd[0], "auth"):
					io.WriteString(c, "+OK\r\n")
				case strings.EqualFold(cmd[0], "info") && len(cmd) == 2 && strings.EqualFold(cmd[1], "replication"):
					switch tok[0] {
					case 'R':
						io.WriteString(c, "-LOADING Redis is loading the dataset in memory\r\n")
					case 'N':
						io.WriteString(c, "$-1\r\n")
					case 'T':
						io.WriteString(c, ":1\r\n")
					case 'A':
						io.WriteString(c, "*2\r\n$4\r\nrole\r\n$6\r\nmaster\r\n")
					case 'B', 'S':
						text := unhx(tok[1:])
						fmt.Fprintf(c, "$%d\r\n%s\r\n", len(text), text)
					default: // D (and C on a node that listens): drop the connection without an answer
						return
					}
				default:
					io.WriteString(c, "-ERR unknown command\r\n")
				}
			}
		}(c, tok)
	}
}

type int32c struct {
	mu sync.Mutex
	n  int
}

func (c *int32c) inc() int { c.mu.Lock(); defer c.mu.Unlock(); c.n++; return c.n }
func (c *int32c) get() int { c.mu.Lock(); defer c.mu.Unlock(); return c.n }

func runC20Sync(f []string) string {
	names := strings.Split(f[1], ",")
	var rows [][]string
	for _, r := range strings.Split(f[2], "/") {
		rows = append(rows, strings.Split(r, ","))
	}
	n := len(names)
	addr := make([]string, n)
	back := map[string]string{}
	counters := make([]*int32c, n)
	live := 0
	for pos := 0; pos < n; pos++ {
		dead := true
		for _, row := range rows {
			if pos < len(row) && row[pos] != "C" && row[pos] != "" {
				dead = false
			}
		}
		if dead {
			// nothing listens on port 1 of any loopback address: a genuine connect error of the real factory
			addr[pos] = fmt.Sprintf("127.0.0.%d:1", 2+pos)
		} else {
			ln, err := net.Listen("tcp", "127.0.0.1:0")
			if err != nil {
				return "badcase listen"
			}
			defer ln.Close()
			addr[pos] = ln.Addr().String()
			counters[pos] = &int32c{}
			go c20Serve(ln, pos, rows, counters[pos])
			live++
		}
		if _, dup := back[addr[pos]]; dup {
			return "badcase dup"
		}
		back[addr[pos]] = names[pos]
	}
	if live == 0 {
		return "badcase nolive"
	}
	pw := ""
	if len(f[2])%2 == 1 { // exercise the AUTH exchange of the real factory on about half of the cases
		pw = "srcpw"
	}
	node := slot.SyncNode{Id: 7, Source: addr[0], Slaves: append([]string{}, addr[1:]...),
		SourcePassword: pw, Target: []string{"t:1"}, TargetPassword: "tgtpw", SlotLeftBoundary: 0, SlotRightBoundary: 5460}
	type outT struct {
		node *slot.SyncNode
		pan  interface{}
	}
	done := make(chan outT, 1)
	go func() {
		var o outT
		defer func() {
			if e := recover(); e != nil {
				o.pan = e
			}
			done <- o
		}()
		// sync@<prior restarts>@<minutes since the last one>: where the syncer stands in its retry window (0..2 restarts
		// within the hour, or any number of them more than an hour ago — then the counter starts again)
		prior, aged := 0, 0
		if p := strings.Split(f[0], "@"); len(p) == 3 {
			prior, aged = atoi(p[1]), atoi(p[2])
		}
		o.node = dbSync.VerifUpdateSlotTopology(node, prior, aged)
	}()
	var o outT
	select {
	case o = <-done:
	case <-time.After(60 * time.Second):
		return "timeout"
	}
	attempts := 0
	for _, c := range counters {
		if c != nil && c.get() > attempts {
			attempts = c.get()
		}
	}
	if o.pan != nil {
		if _, ok := o.pan.(log.VerifExit); ok {
			return fmt.Sprintf("abort attempts=%d", attempts)
		}
		if os.Getenv("VERIF_DEBUG") != "" {
			return fmt.Sprintf("panic %v", o.pan)
		}
		return "panic"
	}
	if o.node == nil {
		return "weird"
	}
	name := func(a string) string {
		if l, ok := back[a]; ok {
			return l
		}
		return "?" + a
	}
	var sl []string
	for _, s := range o.node.Slaves {
		sl = append(sl, name(s))
	}
	sort.Strings(sl)
	s := strings.Join(sl, ",")
	if len(sl) == 0 {
		s = "-"
	}
	return fmt.Sprintf("ok attempts=%d src=%s slaves=%s", attempts, name(o.node.Source), s)
}

// runAllC20 replaces the sequential loop of main.go for this property: every case may sleep for up
// to 21 s inside the real code, so all cases are started at once and printed in input order.
func runAllC20() {
	log.SetLevel(log.LEVEL_NONE)
	conf.Options.SourceType = conf.RedisTypeCluster // read by updateSlotTopology (sync cases); one writer, before any case starts
	in := bufio.NewReaderSize(os.Stdin, 1<<20)
	var lines []string
	for {
		line, err := in.ReadString('\n')
		if len(line) > 0 {
			lines = append(lines, strings.TrimRight(line, "\n"))
		}
		if err != nil {
			break
		}
	}
	res := make([]string, len(lines))
	var wg sync.WaitGroup
	p := props["C20"]
	for i := range lines {
		wg.Add(1)
		go func(i int) {
			defer wg.Done()
			res[i] = safeRun(p, lines[i])
		}(i)
	}
	wg.Wait()
	out := bufio.NewWriterSize(os.Stdout, 1<<16)
	for _, r := range res {
		out.WriteString(r)
		out.WriteByte('\n')
	}
	out.Flush()
	os.Exit(0)
}

// ---------------------------------------------------------------- generator

// INFO texts. The generator only *shapes* inputs (mostly-master-looking, mostly-replica-looking,
// broken); what each text means is decided independently by the real code and by the Lean spec.
const c20NMaster, c20NSlave, c20NBad = 9, 7, 20

func c20MasterText(g *gen) string { return c20MasterTextK(g, g.r.Intn(c20NMaster)) }
func c20SlaveText(g *gen) string  { return c20SlaveTextK(g, g.r.Intn(c20NSlave)) }
func c20BadText(g *gen) string    { return c20BadTextK(g, g.r.Intn(c20NBad)) }

func c20MasterTextK(g *gen, k int) string {
	switch k {
	case 0:
		return fmt.Sprintf("# Replication\r\nrole:master\r\nconnected_slaves:%d\r\nslave0:ip=10.0.0.%d,port=6379,state=online,offset=%d,lag=0\r\nmaster_replid:%x\r\nmaster_repl_offset:%d\r\n",
			g.r.Intn(3), g.r.Intn(250), g.r.Intn(100000), g.bytes(20), g.r.Intn(100000))
	case 1:
		return "role:master"
	case 2:
		return "role:master\n"
	case 3:
		return "\n\r\nrole:master\r\n"
	case 4:
		return "role:master" + string(rune('a'+g.r.Intn(26))) + "\r\n"
	case 5:
		return "junk\nrole:master\r\nrole:slave\r\n"
	case 6:
		return "# Replication\nrole:master\nconnected_slaves:0\n"
	case 7:
		return "x role:slave\nrole:master\r"
	}
	return "# Replication\r\nrole:master\r\nconnected_slaves:0\r\n"
}

func c20SlaveTextK(g *gen, k int) string {
	switch k {
	case 0:
		return fmt.Sprintf("# Replication\r\nrole:slave\r\nmaster_host:10.0.0.%d\r\nmaster_port:6379\r\nmaster_link_status:up\r\nslave_repl_offset:%d\r\n",
			g.r.Intn(250), g.r.Intn(100000))
	case 1:
		return "role:slave"
	case 2:
		return "role:slave\r\nrole:master\r\n"
	case 3:
		return "role:slavery\n"
	case 4:
		return "# role:master\nrole:slave\n"
	case 5:
		return "master_host:role:master\r\nrole:slave\r\n"
	}
	return "# Replication\r\nrole:slave\r\nmaster_link_status:down\r\n"
}

func c20BadTextK(g *gen, k int) string {
	switch k {
	case 0:
		return ""
	case 1:
		return "# Replication\r\n"
	case 2:
		return " role:master\r\n"
	case 3:
		return "# role:master\n"
	case 4:
		return "xrole:master"
	case 5:
		return "ROLE:MASTER\n"
	case 6:
		return "role:\n"
	case 7:
		return "role: master\n"
	case 8:
		return "foo\rrole:master\r"
	case 9:
		return string(g.bytes(g.r.Intn(24)))
	case 10:
		return "role:maste\nr\n"
	case 11:
		b := []byte("role:master\r\n")
		b[g.r.Intn(11)] ^= byte(1 << uint(g.r.Intn(8)))
		return string(b)
	case 12:
		return "\xffrole:master\n"
	case 13:
		return "role:mast\x00er\n"
	case 14:
		return "\trole:slave\n"
	case 15:
		return "connected_slaves:1 role:master\r\n"
	case 16:
		return "role:sentinel\r\n"
	case 17:
		return "\r\n\r\n"
	case 18:
		return "role\n:master\n"
	}
	return "# Replication\r\nrole_master:1\r\nmaster_role:master\r\n"
}

// a text assembled from random lines and random separators
func c20MixText(g *gen) string {
	pool := []string{"role:master", "role:slave", "# Replication", " role:master", "role:", "", "x", "role:masterx",
		"role:slave0", "connected_slaves:0", "#role:slave", "master_host:1.2.3.4", "role:Master"}
	seps := []string{"\n", "\r\n", "\r", "", "\n\n", " "}
	var b strings.Builder
	for i, n := 0, g.r.Intn(5); i <= n; i++ {
		b.WriteString(pool[g.r.Intn(len(pool))])
		b.WriteString(seps[g.r.Intn(len(seps))])
	}
	return b.String()
}

func c20Info(g *gen, text string) string {
	k := "B"
	if g.r.Intn(4) == 0 {
		k = "S"
	}
	return k + hx([]byte(text))
}

// one token of a class: 0 master-looking, 1 replica-looking, 2 connect error, 3 command error, 4 broken INFO, 5 mixed lines
func c20Tok(g *gen, class int) string {
	switch class {
	case 0:
		return c20Info(g, c20MasterText(g))
	case 1:
		return c20Info(g, c20SlaveText(g))
	case 2:
		return "C"
	case 3:
		return string("DRNTA"[g.r.Intn(5)])
	case 4:
		return c20Info(g, c20BadText(g))
	}
	return c20Info(g, c20MixText(g))
}

func c20Names(g *gen, n int) []string {
	style := g.r.Intn(4)
	names := make([]string, n)
	for i := range names {
		switch style {
		case 0:
			names[i] = fmt.Sprintf("10.0.%d.%d:%d", g.r.Intn(3), i+1, 6379+g.r.Intn(3))
		case 1:
			names[i] = fmt.Sprintf("n%d", i)
		case 2:
			names[i] = fmt.Sprintf("redis-%d.shard.local:6379", i)
		default:
			names[i] = "a" + strings.Repeat("b", i) // each name is a prefix of the next
		}
	}
	g.r.Shuffle(n, func(i, j int) { names[i], names[j] = names[j], names[i] })
	if n >= 2 && g.r.Intn(16) == 0 { // the same address listed twice
		names[g.r.Intn(n)] = names[g.r.Intn(n)]
	}
	return names
}

func c20Emit(g *gen, names []string, rows [][]string) {
	var rs []string
	for _, r := range rows {
		rs = append(rs, strings.Join(r, ","))
	}
	g.emit("topo %s %s", strings.Join(names, ","), strings.Join(rs, "/"))
}

func c20Row(g *gen, classes []int) []string {
	row := make([]string, len(classes))
	for i, c := range classes {
		row[i] = c20Tok(g, c)
	}
	return row
}

func genC20(g *gen) {
	// 1. one attempt, EVERY assignment of the five outcome classes to the positions of 1..4 nodes
	//    (covers every ordering of 1 master + k replicas, no master, several masters, faulty nodes anywhere)
	maxN := g.pick(4, 5)
	for n := 1; n <= maxN; n++ {
		total := 1
		for i := 0; i < n; i++ {
			total *= 5
		}
		for code := 0; code < total; code++ {
			cl := make([]int, n)
			c := code
			for i := range cl {
				cl[i] = c % 5
				c /= 5
			}
			c20Emit(g, c20Names(g, n), [][]string{c20Row(g, cl)})
		}
	}
	// 2. role parsing: every text shape alone on a single node, as bytes and as string reply, plus every
	//    command-error flavour
	for rep := 0; rep < g.pick(2, 20); rep++ {
		var texts []string
		for k := 0; k < c20NMaster; k++ {
			texts = append(texts, c20MasterTextK(g, k))
		}
		for k := 0; k < c20NSlave; k++ {
			texts = append(texts, c20SlaveTextK(g, k))
		}
		for k := 0; k < c20NBad; k++ {
			texts = append(texts, c20BadTextK(g, k))
		}
		for k := 0; k < 12; k++ {
			texts = append(texts, c20MixText(g))
		}
		for _, tx := range texts {
			c20Emit(g, []string{"solo:6379"}, [][]string{{"B" + hx([]byte(tx))}})
			c20Emit(g, []string{"solo:6379", "other:6379"}, [][]string{{"S" + hx([]byte(tx)), "S" + hx([]byte("role:slave\r\n"))}})
		}
	}
	for _, t := range "CDRNTA" {
		c20Emit(g, []string{"m:1", "f:2"}, [][]string{{c20Info(g, "role:master\r\n"), string(t)}})
		c20Emit(g, []string{"f:2", "m:1"}, [][]string{{string(t), c20Info(g, "role:master\r\n")}})
		c20Emit(g, []string{"f:2", "s:1"}, [][]string{{string(t), c20Info(g, "role:slave\r\n")}})
	}
	// 3. histories over the retry loop
	nh := g.pick(700, 12000)
	for i := 0; i < nh; i++ {
		n := 1 + g.r.Intn(g.pick(5, 8))
		names := c20Names(g, n)
		nrows := 1 + g.r.Intn(9) // up to maxRetries+3 rows: also scripts longer than the loop can consume
		rows := make([][]string, nrows)
		switch g.r.Intn(6) {
		case 0: // failover: the old master (any position) is down, a replica is promoted at some attempt
			old, neu, at := g.r.Intn(n), g.r.Intn(n), g.r.Intn(nrows)
			for a := range rows {
				cl := make([]int, n)
				for p := range cl {
					cl[p] = 1
					if g.r.Intn(8) == 0 {
						cl[p] = 2 + g.r.Intn(4)
					}
				}
				cl[old] = 2 + g.r.Intn(3)
				if a >= at {
					cl[neu] = 0
				}
				rows[a] = c20Row(g, cl)
			}
		case 1: // no master at all, every kind of failure
			for a := range rows {
				cl := make([]int, n)
				for p := range cl {
					cl[p] = 1 + g.r.Intn(5)
				}
				rows[a] = c20Row(g, cl)
			}
		case 2: // split brain: several masters appear, possibly in different attempts
			for a := range rows {
				cl := make([]int, n)
				for p := range cl {
					cl[p] = 1
					if a >= nrows/2 && g.r.Intn(2) == 0 {
						cl[p] = 0
					}
				}
				rows[a] = c20Row(g, cl)
			}
		case 3: // a master exists from the start; the others flap
			m := g.r.Intn(n)
			for a := range rows {
				cl := make([]int, n)
				for p := range cl {
					cl[p] = 1 + g.r.Intn(5)
				}
				cl[m] = 0
				rows[a] = c20Row(g, cl)
			}
		case 4: // master only in the very last attempts the loop performs (boundary of the bound)
			nrows = 6 + g.r.Intn(4)
			rows = make([][]string, nrows)
			at := 5 + g.r.Intn(nrows-5)
			m := g.r.Intn(n)
			for a := range rows {
				cl := make([]int, n)
				for p := range cl {
					cl[p] = 1 + g.r.Intn(4)
				}
				if a >= at {
					cl[m] = 0
				}
				rows[a] = c20Row(g, cl)
			}
		default: // anything anywhere, masters rare
			for a := range rows {
				cl := make([]int, n)
				for p := range cl {
					cl[p] = 1 + g.r.Intn(5)
					if g.r.Intn(3*n) == 0 {
						cl[p] = 0
					}
				}
				rows[a] = c20Row(g, cl)
			}
		}
		if g.r.Intn(25) == 0 { // a short row: the missing positions refuse connections
			a := g.r.Intn(len(rows))
			rows[a] = rows[a][:g.r.Intn(len(rows[a]))+0]
			if len(rows[a]) == 0 {
				rows[a] = []string{"C"}
			}
		}
		c20Emit(g, names, rows)
	}
	// 4. end to end through the real factory and DbSyncer.updateSlotTopology (loopback RESP servers)
	ne := g.pick(30, 300)
	for i := 0; i < ne; i++ {
		n := 1 + g.r.Intn(4)
		names := make([]string, n)
		for p := range names {
			names[p] = fmt.Sprintf("n%d", p)
		}
		dead := make([]bool, n)
		alive := g.r.Intn(n)
		for p := range dead {
			dead[p] = p != alive && g.r.Intn(4) == 0
		}
		nrows := 1 + g.r.Intn(8)
		rows := make([][]string, nrows)
		kind := g.r.Intn(5)
		m, at := g.r.Intn(n), g.r.Intn(nrows)
		for a := range rows {
			cl := make([]int, n)
			for p := range cl {
				switch kind {
				case 0: // healthy shard
					cl[p] = 1
					if p == m {
						cl[p] = 0
					}
				case 1: // promotion at attempt `at`
					cl[p] = 1
					if p == m && a >= at {
						cl[p] = 0
					}
					if g.r.Intn(6) == 0 {
						cl[p] = 3 + g.r.Intn(3)
					}
				case 2: // never a master
					cl[p] = 1 + 2*g.r.Intn(3)
				case 3: // several masters
					cl[p] = g.r.Intn(2)
				default:
					cl[p] = g.r.Intn(6)
				}
				if cl[p] == 2 {
					cl[p] = 3
				}
			}
			rows[a] = c20Row(g, cl)
			for p := range dead {
				if dead[p] {
					rows[a][p] = "C"
				}
			}
		}
		var rs []string
		for _, r := range rows {
			rs = append(rs, strings.Join(r, ","))
		}
		skind := "sync"
		if g.r.Intn(2) == 0 {
			skind = fmt.Sprintf("sync@%d@%d", g.r.Intn(3), []int{0, 5, 59, 61, 120, 100000}[g.r.Intn(6)])
		}
		g.emit("%s %s %s", skind, strings.Join(names, ","), strings.Join(rs, "/"))
	}
}
