package main

// C19 — configured passwords never appear in logs or status output (dynamic support; the proof is
// the regenerated flow theorem, this run is the sentinel grep DESIGN.md asks for).
//
// Each case runs a REAL run path of the tool in a child process (log.Panic* there may end the
// process; the parent keeps whatever was printed) with two distinct sentinel passwords, against a fake
// Redis source/target on loopback, captures everything written to the log and the REST/metric/status
// documents, and reports
//
//	clean n=<lines>                      no sentinel (raw, JSON-/Go-quoted, %-escaped, base64, hex) anywhere
//	leak=<file:line,…> n=<lines>         the log sites (Lshortfile) whose lines contain a sentinel
//	… masked=<fields>                    (echo cases) which password fields of the echoed configuration show "***"
//
// case line:  <scenario> <loglevel> <fakemode> <sourcepw-hex> <targetpw-hex>
// fakemode: ok | autherr (AUTH rejected) | mute (never answers) | tgtdown / srcdown (connection refused) | oklong (ok, 12 s) |
//           tls (TLS on in the tool, plain-text peers: handshake fails) | tlsdown (TLS on, peers down: dial fails) |
//           resumecut (the target holds a checkpoint of the source, PSYNC is answered +CONTINUE, then the link is cut) |
//           slave (every peer answers role:slave) | rst (every connection is reset right after the accept)

import (
	"bufio"
	"bytes"
	"encoding/base64"
	"encoding/hex"
	"encoding/json"
	"fmt"
	"io"
	"net"
	"net/url"
	"os"
	"os/exec"
	"regexp"
	"sort"
	"strconv"
	"strings"
	"sync"
	"time"

	"github.com/alibaba/RedisShake/pkg/libs/log"
	run "github.com/alibaba/RedisShake/redis-shake"
	"github.com/alibaba/RedisShake/redis-shake/base"
	utils "github.com/alibaba/RedisShake/redis-shake/common"
	conf "github.com/alibaba/RedisShake/redis-shake/configure"
	"github.com/alibaba/RedisShake/redis-shake/dbSync/slot"
	"github.com/alibaba/RedisShake/redis-shake/dbSync/slotsupervisor"
	"github.com/alibaba/RedisShake/redis-shake/metric"
)

func init() {
	if os.Getenv("VERIF_C19_CHILD") != "" {
		c19Child(strings.Fields(os.Getenv("VERIF_C19_CHILD")))
		os.Exit(0)
	}
	props["C19"] = &prop{gen: genC19, run: runC19}
}

var c19Scenarios = []string{"echo", "sync", "synccluster", "syncresume", "synctgtcluster", "restore", "rump", "dump", "decode", "supervise"}
var c19Levels = []string{"none", "error", "warn", "info", "debug"}
var c19Fakes = []string{"ok", "autherr", "mute", "tgtdown", "srcdown", "tls", "tlsdown", "slave", "rst", "resumecut"}

const c19Alnum = "ABCDEFGHIJKLMNOPQRSTUVWXYZabcdefghijklmnopqrstuvwxyz0123456789"

func c19Sentinel(g *gen, shape int) []byte {
	b := make([]byte, 24)
	for i := range b {
		b[i] = c19Alnum[g.r.Intn(len(c19Alnum))]
	}
	// special shapes: format verbs, quotes, JSON-special and HTML-special characters inside the sentinel
	specials := []string{"", "%v%s%d", "\"'`", "\\<>&{}", "%!(EXTRA)\"\\"}
	sp := specials[shape%len(specials)]
	copy(b[4:], sp)
	return b
}

func genC19(g *gen) {
	emit := func(sc, lv, fk string, shape int) {
		a, b := c19Sentinel(g, shape), c19Sentinel(g, shape+g.r.Intn(2))
		for bytes.Equal(a, b) {
			b = c19Sentinel(g, shape)
		}
		g.emit("%s %s %s %s %s", sc, lv, fk, hx(a), hx(b))
	}
	// the configuration echo with every password shape
	for shape := 0; shape < 5; shape++ {
		emit("echo", "info", "ok", shape)
	}
	// … and with only one of the two passwords configured (a mask must not depend on the OTHER password)
	for shape := 0; shape < 2; shape++ {
		g.emit("echo info ok - %s", hx(c19Sentinel(g, shape)))
		g.emit("echo info ok %s -", hx(c19Sentinel(g, shape)))
	}
	// every run path at debug level against a co-operative fake (deepest reach), rotating password shapes
	for i, sc := range c19Scenarios[1:] {
		emit(sc, "debug", "ok", i)
	}
	// error paths: the peer rejects AUTH / never answers
	emit("sync", "debug", "autherr", g.r.Intn(5))
	emit("sync", "info", "mute", g.r.Intn(5))
	emit("restore", "debug", "autherr", g.r.Intn(5))
	emit("syncresume", "debug", "tgtdown", g.r.Intn(5))
	emit("sync", "debug", "srcdown", g.r.Intn(5))
	emit("rump", "info", "tgtdown", g.r.Intn(5))
	emit("synctgtcluster", "debug", "tgtdown", g.r.Intn(5))
	// the peer resets every connection right after accepting it (several times: whether the reset beats the tool's first write
	// is a race; either way nothing may leak)
	for i := 0; i < g.pick(2, 6); i++ {
		emit("sync", "debug", "rst", g.r.Intn(5))
		emit("restore", "debug", "rst", g.r.Intn(5))
		emit("rump", "info", "rst", g.r.Intn(5))
	}
	// a resumed start (checkpoint on the target, PSYNC answered +CONTINUE) whose source link then breaks, again and again
	emit("syncresume", "debug", "resumecut", g.r.Intn(5))
	emit("syncresume", "error", "resumecut", g.r.Intn(5))
	// the handshake helper on connections failing at each point
	for _, fm := range []string{"wfail", "wshort", "rfail", "autherr", "garbage", "ok"} {
		emit("authconn", []string{"debug", "info", "error"}[g.r.Intn(3)], fm, g.r.Intn(5))
	}
	// TLS enabled, handshake or dial failing: the error paths of the TLS connect helpers
	emit("sync", "debug", "tls", g.r.Intn(5))
	emit("supervise", "debug", "tls", g.r.Intn(5))
	emit("restore", "info", "tlsdown", g.r.Intn(5))
	emit("supervise", "error", "tlsdown", g.r.Intn(5))
	emit("rump", "debug", "tls", g.r.Intn(5))
	// a shard without a master: the discovery gives up after its retry ladder and the caller logs the error
	emit("supervise", "info", "slave", g.r.Intn(5))
	// every log level on the sync path
	for _, lv := range c19Levels {
		if lv != "debug" && (g.thorough() || lv == "error" || lv == "info") {
			emit("sync", lv, "ok", g.r.Intn(5))
		}
	}
	if g.thorough() {
		emit("sync", "info", "oklong", g.r.Intn(5))
		emit("rump", "debug", "oklong", g.r.Intn(5))
	}
	n := g.pick(2, 60)
	for i := 0; i < n; i++ {
		emit(c19Scenarios[g.r.Intn(len(c19Scenarios))], c19Levels[g.r.Intn(len(c19Levels))], c19Fakes[g.r.Intn(len(c19Fakes))], g.r.Intn(5))
	}
}

// ---------------------------------------------------------------- parent: run the child, scan its output

type c19SyncBuf struct {
	mu   sync.Mutex
	b    bytes.Buffer
	last time.Time
}

func (s *c19SyncBuf) Write(p []byte) (int, error) {
	s.mu.Lock()
	defer s.mu.Unlock()
	s.last = time.Now()
	return s.b.Write(p)
}

func c19Variants(pw []byte) [][]byte {
	s := string(pw)
	js, _ := json.Marshal(s)
	var out [][]byte
	add := func(v string) {
		if len(v) >= 8 {
			out = append(out, []byte(v))
		}
	}
	add(s)
	add(string(js[1 : len(js)-1]))
	q := strconv.Quote(s)
	add(q[1 : len(q)-1])
	add(url.QueryEscape(s))
	add(base64.StdEncoding.EncodeToString(pw))
	add(hex.EncodeToString(pw))
	if len(pw) > 0 {
		add(fmt.Sprintf("%v", pw)) // a []byte printed with %v
	}
	// the alphanumeric tail alone (a sentinel cut at a special character is still a leak)
	if len(s) >= 12 {
		add(s[len(s)-12:])
	}
	return out
}

var c19SiteRe = regexp.MustCompile(`([A-Za-z0-9_]+\.go:\d+):`)

func runC19(f []string) string {
	if len(f) != 5 {
		return "badcase"
	}
	spw, tpw := unhx(f[3]), unhx(f[4])
	exe, _ := os.Executable()
	cmd := exec.Command(exe)
	cmd.Env = append(os.Environ(), "VERIF_C19_CHILD="+strings.Join(f, " "))
	out := &c19SyncBuf{last: time.Now()}
	cmd.Stdout = out
	cmd.Stderr = out
	if err := cmd.Start(); err != nil {
		return "spawnfail"
	}
	done := make(chan struct{})
	go func() { cmd.Wait(); close(done) }()
	start := time.Now()
	deadline := 3500 * time.Millisecond
	minRun := 650 * time.Millisecond
	if f[2] == "oklong" {
		// long enough for the 10 s metric print ticker (metric.print_log) to fire
		deadline, minRun = 12500*time.Millisecond, 11500*time.Millisecond
	}
	if f[2] == "slave" && f[0] == "supervise" {
		// the supervisor's retry ladder (6+5+4+3+2+1 s of silence) has to run out before the give-up error is logged
		deadline, minRun = 26*time.Second, 23*time.Second
	}
	for alive := true; alive; {
		select {
		case <-done:
			alive = false
		case <-time.After(50 * time.Millisecond):
			out.mu.Lock()
			quiet := time.Since(out.last)
			out.mu.Unlock()
			// stop when the child has been silent for a while (all paths parked) or at the deadline
			if time.Since(start) > deadline || (time.Since(start) > minRun && quiet > 250*time.Millisecond) {
				cmd.Process.Kill()
				<-done
				alive = false
			}
		}
	}
	out.mu.Lock()
	text := out.b.Bytes()
	out.mu.Unlock()
	if os.Getenv("VERIF_DEBUG") != "" {
		os.Stderr.Write(text)
	}
	lines := bytes.Split(text, []byte("\n"))
	vars := append(c19Variants(spw), c19Variants(tpw)...)
	leaks := map[string]bool{}
	masked := ""
	n := 0
	for _, ln := range lines {
		if len(ln) == 0 {
			continue
		}
		n++
		if bytes.HasPrefix(ln, []byte("MASKED ")) {
			masked = string(ln[7:])
			continue
		}
		hit := false
		for _, v := range vars {
			if bytes.Contains(ln, v) {
				hit = true
				break
			}
		}
		if !hit {
			continue
		}
		site := "unknown"
		if bytes.HasPrefix(ln, []byte("REST ")) {
			site = string(bytes.Fields(ln)[1])
		} else if m := c19SiteRe.FindSubmatch(ln); m != nil {
			site = string(m[1])
		}
		leaks[site] = true
	}
	res := "clean"
	if len(leaks) > 0 {
		var ks []string
		for k := range leaks {
			ks = append(ks, k)
		}
		sort.Strings(ks)
		res = "leak=" + strings.Join(ks, ",")
	}
	if f[0] == "echo" {
		res += " masked=" + masked
	}
	return fmt.Sprintf("%s n=%d", res, n)
}

// ---------------------------------------------------------------- child: the real run paths

type c19Fake struct {
	mode string
	rdb  []byte
	ln   net.Listener
	peer string // (resumecut) the address of the source whose checkpoint this target holds
}

func c19RDB() []byte {
	var b bytes.Buffer
	b.WriteString("REDIS0007")
	b.Write([]byte{0xfe, 0x00})
	b.Write([]byte{0x00, 0x04, 'k', 'e', 'y', '1', 0x05, 'v', 'a', 'l', 'u', 'e'})
	b.Write([]byte{0x00, 0x04, 'k', 'e', 'y', '2', 0xc0, 0x07})
	b.WriteByte(0xff)
	b.Write(crc64Trailer(b.Bytes()))
	return b.Bytes()
}

// c19FaultConn: a net.Conn that fails at the point its mode names
type c19FaultConn struct {
	mode  string
	addr  string
	reply []byte
}

type c19Addr string

func (a c19Addr) Network() string { return "tcp" }
func (a c19Addr) String() string  { return string(a) }

func (c *c19FaultConn) Write(p []byte) (int, error) {
	switch c.mode {
	case "wfail", "rst":
		return 0, fmt.Errorf("write tcp %s: write: connection reset by peer", c.addr)
	case "wshort":
		return len(p) / 2, io.ErrShortWrite
	case "autherr":
		c.reply = []byte("-ERR invalid password\r\n")
	case "garbage":
		c.reply = []byte("$3\r\nfoo\r\n")
	case "mute", "rfail":
		c.reply = nil
	default:
		c.reply = []byte("+OK\r\n")
	}
	return len(p), nil
}
func (c *c19FaultConn) Read(p []byte) (int, error) {
	if len(c.reply) == 0 {
		return 0, fmt.Errorf("read tcp %s: i/o timeout", c.addr)
	}
	n := copy(p, c.reply[:1])
	c.reply = c.reply[n:]
	return n, nil
}
func (c *c19FaultConn) Close() error                       { return nil }
func (c *c19FaultConn) LocalAddr() net.Addr                { return c19Addr("127.0.0.1:1") }
func (c *c19FaultConn) RemoteAddr() net.Addr               { return c19Addr(c.addr) }
func (c *c19FaultConn) SetDeadline(t time.Time) error      { return nil }
func (c *c19FaultConn) SetReadDeadline(t time.Time) error  { return nil }
func (c *c19FaultConn) SetWriteDeadline(t time.Time) error { return nil }

func c19StartFake(mode string) *c19Fake {
	ln, err := net.Listen("tcp", "127.0.0.1:0")
	if err != nil {
		fmt.Println("CHILD listen failed", err)
		os.Exit(0)
	}
	f := &c19Fake{mode: mode, rdb: c19RDB(), ln: ln}
	go func() {
		for {
			c, err := ln.Accept()
			if err != nil {
				return
			}
			go f.serve(c)
		}
	}()
	return f
}

func (f *c19Fake) addr() string { return f.ln.Addr().String() }

func c19ReadCmd(r *bufio.Reader) ([]string, error) {
	line, err := r.ReadString('\n')
	if err != nil {
		return nil, err
	}
	line = strings.TrimRight(line, "\r\n")
	if line == "" {
		return []string{}, nil
	}
	if line[0] != '*' {
		return strings.Fields(line), nil
	}
	n, _ := strconv.Atoi(line[1:])
	var out []string
	for i := 0; i < n; i++ {
		h, err := r.ReadString('\n')
		if err != nil {
			return nil, err
		}
		l, _ := strconv.Atoi(strings.TrimRight(h[1:], "\r\n"))
		buf := make([]byte, l+2)
		if _, err := io.ReadFull(r, buf); err != nil {
			return nil, err
		}
		out = append(out, string(buf[:l]))
	}
	return out, nil
}

func c19Bulk(s string) string { return fmt.Sprintf("$%d\r\n%s\r\n", len(s), s) }

func (f *c19Fake) serve(c net.Conn) {
	if f.mode == "rst" {
		// a peer (or a balancer in front of it) that resets the connection right after accepting it: whichever handshake
		// command the tool is writing at that moment fails in Write, not in the reply
		if tc, ok := c.(*net.TCPConn); ok {
			tc.SetLinger(0)
		}
		c.Close()
		return
	}
	defer c.Close()
	r := bufio.NewReader(c)
	_, portStr, _ := net.SplitHostPort(f.addr())
	role := "master"
	if f.mode == "slave" {
		role = "slave" // a shard in the middle of a fail-over: nobody claims to be the master
	}
	info := "# Server\r\nredis_version:5.0.7\r\n# Replication\r\nrole:" + role + "\r\nconnected_slaves:1\r\n" +
		"slave0:ip=127.0.0.1,port=9320,state=online,offset=15,lag=0\r\nmaster_repl_offset:15\r\n# Keyspace\r\ndb0:keys=2,expires=0,avg_ttl=0\r\n"
	for {
		cmd, err := c19ReadCmd(r)
		if err != nil {
			return
		}
		if len(cmd) == 0 {
			continue
		}
		if f.mode == "oklong" {
			f.mode = "ok"
		}
		if f.mode == "mute" && strings.ToLower(cmd[0]) != "auth" {
			select {} // accept, authenticate, then never answer
		}
		var reply string
		switch strings.ToLower(cmd[0]) {
		case "auth", "adminauth":
			if f.mode == "autherr" {
				reply = "-ERR invalid password\r\n"
			} else {
				reply = "+OK\r\n"
			}
		case "replconf":
			if len(cmd) > 1 && strings.ToLower(cmd[1]) == "ack" {
				continue
			}
			reply = "+OK\r\n"
		case "psync":
			if f.mode == "resumecut" && len(cmd) > 1 && cmd[1] != "?" {
				// a resumed start: the source continues the stream, then the link breaks (every time)
				c.Write([]byte("+CONTINUE\r\n*1\r\n$4\r\nping\r\n"))
				time.Sleep(300 * time.Millisecond)
				return
			}
			reply = "+FULLRESYNC " + strings.Repeat("a1", 20) + " 1\r\n" + fmt.Sprintf("$%d\r\n", len(f.rdb)) + string(f.rdb) +
				"*2\r\n$6\r\nselect\r\n$1\r\n0\r\n*3\r\n$3\r\nset\r\n$4\r\nkey3\r\n$2\r\nv3\r\n"
		case "sync":
			reply = fmt.Sprintf("$%d\r\n", len(f.rdb)) + string(f.rdb)
		case "info":
			if len(cmd) > 1 && strings.ToLower(cmd[1]) == "keyspace" {
				reply = c19Bulk("# Keyspace\r\ndb0:keys=2,expires=0,avg_ttl=0\r\n")
			} else {
				reply = c19Bulk(info)
			}
		case "cluster":
			// one shard owning every slot, master = this fake, one replica (also this fake)
			reply = "*1\r\n*4\r\n:0\r\n:16383\r\n*2\r\n$9\r\n127.0.0.1\r\n:" + portStr + "\r\n*2\r\n$9\r\n127.0.0.1\r\n:" + portStr + "\r\n"
		case "scan":
			reply = "*2\r\n$1\r\n0\r\n*2\r\n$4\r\nkey1\r\n$4\r\nkey2\r\n"
		case "dump":
			reply = c19Bulk(string(append([]byte{0x00, 0x05, 'v', 'a', 'l', 'u', 'e', 0x07, 0x00}, make([]byte, 8)...)))
		case "exists":
			reply = ":0\r\n"
			if f.mode == "resumecut" && f.peer != "" {
				reply = ":1\r\n" // the checkpoint of the source lives here
			}
		case "hgetall":
			reply = "*0\r\n"
			if f.mode == "resumecut" && f.peer != "" {
				reply = "*6\r\n" + c19Bulk(f.peer+"-runid") + c19Bulk(strings.Repeat("b2", 20)) + c19Bulk(f.peer+"-offset") + c19Bulk("4242") +
					c19Bulk(f.peer+"-version") + c19Bulk("1")
			}
		case "pttl", "dbsize", "del", "hset", "hdel", "pexpire":
			reply = ":0\r\n"
		case "exec", "keys":
			reply = "*0\r\n"
		case "ping":
			reply = "+PONG\r\n"
		default:
			reply = "+OK\r\n"
		}
		if _, err := c.Write([]byte(reply)); err != nil {
			return
		}
	}
}

func c19Level(lv string) log.LogLevel {
	switch lv {
	case "none":
		return log.LEVEL_NONE
	case "error":
		return log.LEVEL_ERROR
	case "warn":
		return log.LEVEL_WARN
	case "info":
		return log.LEVEL_INFO
	}
	return log.LEVEL_DEBUG
}

func c19Child(f []string) {
	if len(f) != 5 {
		return
	}
	scenario, level, mode := f[0], f[1], f[2]
	spw, tpw := string(unhx(f[3])), string(unhx(f[4]))
	defer func() {
		if e := recover(); e != nil {
			fmt.Println("CHILD main path ended:", e)
		}
	}()
	// everything the tool logs goes to stdout with file:line of the log statement
	log.StdLog = log.New(os.Stdout, "")
	log.SetFlags(log.Lshortfile)
	log.SetLevel(c19Level(level))

	src := c19StartFake(mode)
	tgt := c19StartFake(mode)
	tgt.peer = src.addr()
	// peers that refuse the connection: the error paths of connecting with credentials
	if mode == "tgtdown" {
		tgt.ln.Close()
	}
	if mode == "srcdown" {
		src.ln.Close()
	}
	// TLS switched on in the tool while the peers speak plain text (handshake fails) or are down (dial fails)
	tlsOn := mode == "tls" || mode == "tlsdown"
	if mode == "tlsdown" {
		tgt.ln.Close()
		src.ln.Close()
	}
	tmp, _ := os.MkdirTemp("", "c19")
	rdbPath := tmp + "/in.rdb"
	os.WriteFile(rdbPath, c19RDB(), 0600)

	o := &conf.Options
	o.Id = "c19"
	o.LogLevel = level
	o.Parallel = 2
	o.SourceType = conf.RedisTypeStandalone
	o.SourceAddress = src.addr()
	o.SourceAddressList = []string{src.addr()}
	o.SourcePasswordRaw = spw
	o.SourcePasswordEncoding = ""
	o.SourceAuthType = "auth"
	o.SourceRdbInput = []string{rdbPath}
	o.SourceRdbParallel = 1
	o.TargetAddress = tgt.addr()
	o.TargetAddressList = []string{tgt.addr()}
	o.TargetPasswordRaw = tpw
	o.TargetAuthType = "auth"
	o.SourceTLSEnable = tlsOn
	o.TargetTLSEnable = tlsOn
	o.TargetType = conf.RedisTypeStandalone
	o.TargetDBString = "-1"
	o.TargetDB = -1
	o.TargetVersion = "5.0.7"
	o.SourceVersion = "5.0.7"
	o.TargetRdbOutput = tmp + "/out.rdb"
	o.KeyExists = "rewrite"
	o.TargetReplace = true
	o.BigKeyThreshold = 50 * 1024 * 1024
	o.Metric = true
	o.MetricPrintLog = true
	o.SenderSize = 65535
	o.SenderCount = 1024
	o.SenderDelayChannelSize = 65535
	o.KeepAlive = 0
	o.ScanKeyNumber = 100
	o.Psync = true
	o.HttpProfile = 9320
	o.SystemProfile = 9310
	o.NCpu = 2
	o.Version = "verif"
	o.ResumeFromBreakPoint = false
	utils.StartTime = "start"

	var runner base.Runner
	switch scenario {
	case "authconn":
		// the exported handshake helper, as OpenNetConn and the reconnect loop of incremental sync call it, on a connection that
		// fails at a chosen point (the fake-mode field names the fault): Write fails | the reply never comes | error reply |
		// garbage reply | +OK. Returned errors are logged the way the callers log them.
		o.Type = conf.TypeSync
		for i, cred := range [][2]string{{"auth", spw}, {"adminauth", tpw}} {
			func() {
				defer func() {
					if e := recover(); e != nil {
						fmt.Println("CHILD helper ended:", e)
					}
				}()
				fc := &c19FaultConn{mode: mode, addr: fmt.Sprintf("10.0.0.%d:6379", i+2)}
				if err := utils.AuthPassword(fc, cred[0], cred[1]); err != nil {
					log.Errorf("auth failed: %v", err)
					log.Warnf("connect %s: %s", fc.addr, err.Error())
				} else {
					log.Infof("auth %s ok", fc.addr)
				}
			}()
		}
		return
	case "echo":
		// all four password fields set (sanitize normally rejects raw+encoding together; the echo must mask each)
		o.SourcePasswordEncoding = spw
		o.TargetPasswordEncoding = tpw
		o.Type = conf.TypeSync
	case "sync":
		o.Type = conf.TypeSync
		runner = new(run.CmdSync)
	case "synccluster":
		o.Type = conf.TypeSync
		o.SourceType = conf.RedisTypeCluster
		runner = new(run.CmdSync)
	case "syncresume":
		o.Type = conf.TypeSync
		o.ResumeFromBreakPoint = true
		runner = new(run.CmdSync)
	case "synctgtcluster":
		o.Type = conf.TypeSync
		o.TargetType = conf.RedisTypeCluster
		runner = new(run.CmdSync)
	case "restore":
		o.Type = conf.TypeRestore
		runner = new(run.CmdRestore)
	case "rump":
		o.Type = conf.TypeRump
		runner = new(run.CmdRump)
	case "dump":
		o.Type = conf.TypeDump
		runner = new(run.CmdDump)
	case "decode":
		o.Type = conf.TypeDecode
		runner = new(run.CmdDecode)
	case "supervise":
		// source re-discovery as updateSlotTopology runs it: a shard with two nodes that BOTH answer role:master (a fail-over in
		// progress), then a second discovery on the node descriptor the first one returned — every known host is dialled with
		// the source password and every failure is logged
		o.Type = conf.TypeSync
		second := c19StartFake(mode)
		node := slot.SyncNode{Id: 0, Source: src.addr(), SourcePassword: spw, Target: []string{tgt.addr()},
			TargetPassword: tpw, Slaves: []string{second.addr()}, SlotLeftBoundary: 0, SlotRightBoundary: 16383}
		for round := 0; round < 2; round++ {
			done := make(chan *slot.SyncNode, 1)
			go func(n slot.SyncNode) {
				defer func() {
					if e := recover(); e != nil {
						fmt.Println("CHILD supervisor ended:", e)
						done <- nil
					}
				}()
				res, err := slotsupervisor.New(n).GetSlotState()
				if err != nil {
					log.Errorf("DbSyncer[%d] source re-discovery failed: %v", n.Id, err)
				}
				done <- res
			}(node)
			var res *slot.SyncNode
			select {
			case res = <-done:
			case <-time.After(map[bool]time.Duration{false: 8 * time.Second, true: 24 * time.Second}[mode == "slave"]):
				// the retry ladder of a shard without a master is 21 s: waited out only in the `slave` mode, where the
				// give-up error is the point; elsewhere the first rounds are enough
			}
			if res == nil {
				break
			}
			log.Infof("DbSyncer[%d] source is now %s, %d other node(s) known", res.Id, res.Source, len(res.Slaves))
			node = *res
		}
		select {}
	default:
		return
	}

	// --- what main() does after sanitising: configuration echo, runner, status endpoints
	safe := conf.GetSafeOptions()
	if opts, err := json.Marshal(safe); err == nil {
		log.Infof("redis-shake configuration: %s", string(opts))
		fmt.Printf("REST /conf %s\n", string(opts))
		var m map[string]interface{}
		json.Unmarshal(opts, &m)
		var masked []string
		for _, k := range []string{"SourcePasswordRaw", "SourcePasswordEncoding", "TargetPasswordRaw", "TargetPasswordEncoding"} {
			if s, ok := m[k].(string); ok && s == "***" {
				masked = append(masked, k)
			}
		}
		fmt.Printf("MASKED %s\n", strings.Join(masked, ","))
	}
	if runner == nil {
		return
	}
	metric.CreateMetric(runner)
	go func() {
		defer func() {
			if e := recover(); e != nil {
				fmt.Println("CHILD runner ended:", e)
			}
		}()
		runner.Main()
		log.Infof("execute runner[%T] finished!", runner)
	}()
	// the status documents, as the REST handlers produce them, a few times while the run progresses
	for i := 0; i < 3; i++ {
		time.Sleep(time.Duration(200+50*i) * time.Millisecond)
		func() {
			defer func() { recover() }()
			if b, err := json.Marshal(metric.NewMetricRest()); err == nil {
				fmt.Printf("REST /metric %s\n", string(b))
			}
			if b, err := json.Marshal(runner.GetDetailedInfo()); err == nil {
				fmt.Printf("REST detail %s\n", string(b))
			}
		}()
	}
	select {}
}
