package main

// C03/C04: shared case format, fake redigo.Conn, c03Scenario runners of the REAL parseSourceCommand /
// sendTargetCommand, and the concurrent pre-runner for the timing scenarios.
//
// Case kinds (fields separated by one space):
//   parse <pcfg> <startDb> <base> <cmds>                 real parser only, deterministic
//   send  <scfg> <items> <gaps>                          real sender only, items pushed with delays
//   pipe  <pcfg> <scfg> <startDb> <base> <cmds> <gaps>   real parser -> real sendBuf -> real sender
// pcfg = tdb=<int>,fw=<a+b|->,fb=<a+b|->,lua=<0|1>,kw=<hex+hex|->,kb=<hex+hex|->
// scfg = res=<0|1>,cnt=<n>,size=<n>,src=<hex>,rid=<hex>
// cmds = ';'-joined  <newlines>/<namehex>/<arg>,<arg>…   ('-' = empty argument, '.' = empty list)
// items = ';'-joined <namehex>/<arg>,<arg>…/<offset>/<db>
// gaps = one digit per command/item: 0 = none, 1 = 50 ms, 2 = 700 ms
// Result lines:  items=<items> abort=<0|1>      |     trace=<group>|<group>… idle=<0|1>

import (
	"bufio"
	"bytes"
	"fmt"
	"io"
	"io/ioutil"
	"os"
	"strconv"
	"strings"
	"sync"
	"time"

	"github.com/alibaba/RedisShake/pkg/libs/log"
	utils "github.com/alibaba/RedisShake/redis-shake/common"
	conf "github.com/alibaba/RedisShake/redis-shake/configure"
	"github.com/alibaba/RedisShake/redis-shake/dbSync"
)

// ---------------------------------------------------------------- case syntax

type c03PcfgT struct {
	tdb    int
	fw, fb []string
	lua    bool
	kw, kb []string
}

type c03ScfgT struct {
	res       bool
	cnt       uint
	size      uint64
	src, rid  string
	globalKey string
	met       bool // conf.Options.Metric (the delay sampling of addSendId is only active then)
	dcap      int  // capacity of the syncer's delay channel (0: the hook's default)
}

type c03SrcCmd struct {
	nl   int
	name string
	args [][]byte
}

func c03Kvs(s string) map[string]string {
	m := map[string]string{}
	for _, p := range strings.Split(s, ",") {
		i := strings.IndexByte(p, '=')
		if i < 0 {
			panic("bad cfg " + s)
		}
		m[p[:i]] = p[i+1:]
	}
	return m
}

func c03PlusList(s string, hexed bool) []string {
	if s == "-" || s == "" {
		return nil
	}
	var out []string
	for _, p := range strings.Split(s, "+") {
		if hexed {
			out = append(out, string(unhx(p)))
		} else {
			out = append(out, p)
		}
	}
	return out
}

func c03ParsePcfg(s string) c03PcfgT {
	m := c03Kvs(s)
	return c03PcfgT{tdb: atoi(m["tdb"]), fw: c03PlusList(m["fw"], false), fb: c03PlusList(m["fb"], false),
		lua: m["lua"] == "1", kw: c03PlusList(m["kw"], true), kb: c03PlusList(m["kb"], true)}
}

func c03ParseScfg(s string) c03ScfgT {
	m := c03Kvs(s)
	sz, _ := strconv.ParseUint(m["size"], 10, 64)
	dcap := 0
	if m["dcap"] != "" {
		dcap = atoi(m["dcap"])
	}
	return c03ScfgT{res: m["res"] == "1", cnt: uint(atoi(m["cnt"])), size: sz, src: string(unhx(m["src"])), rid: string(unhx(m["rid"])),
		globalKey: "cnt=" + m["cnt"] + ",size=" + m["size"] + ",met=" + m["met"], met: m["met"] == "1", dcap: dcap}
}

func c03ParseArgs(s string) [][]byte {
	if s == "" {
		return nil
	}
	var out [][]byte
	for _, a := range strings.Split(s, ",") {
		b := unhx(a)
		if b == nil {
			b = []byte{}
		}
		out = append(out, b)
	}
	return out
}

func c03FmtArgs(args [][]byte) string {
	var p []string
	for _, a := range args {
		p = append(p, hx(a))
	}
	return strings.Join(p, ",")
}

func c03ParseCmds(s string) []c03SrcCmd {
	if s == "." {
		return nil
	}
	var out []c03SrcCmd
	for _, t := range strings.Split(s, ";") {
		f := strings.Split(t, "/")
		if len(f) != 3 {
			panic("bad cmd " + t)
		}
		out = append(out, c03SrcCmd{nl: atoi(f[0]), name: string(unhx(f[1])), args: c03ParseArgs(f[2])})
	}
	return out
}

func c03FmtCmds(cs []c03SrcCmd) string {
	if len(cs) == 0 {
		return "."
	}
	var p []string
	for _, c := range cs {
		p = append(p, fmt.Sprintf("%d/%s/%s", c.nl, hx([]byte(c.name)), c03FmtArgs(c.args)))
	}
	return strings.Join(p, ";")
}

func c03ParseItems(s string) []dbSync.VerifC03Item {
	if s == "." {
		return nil
	}
	var out []dbSync.VerifC03Item
	for _, t := range strings.Split(s, ";") {
		f := strings.Split(t, "/")
		if len(f) != 4 {
			panic("bad item " + t)
		}
		off, _ := strconv.ParseInt(f[2], 10, 64)
		out = append(out, dbSync.VerifC03Item{Cmd: string(unhx(f[0])), Args: c03ParseArgs(f[1]), Offset: off, Db: atoi(f[3])})
	}
	return out
}

func c03FmtItems(its []dbSync.VerifC03Item) string {
	if len(its) == 0 {
		return "."
	}
	var p []string
	for _, it := range its {
		p = append(p, fmt.Sprintf("%s/%s/%d/%d", hx([]byte(it.Cmd)), c03FmtArgs(it.Args), it.Offset, it.Db))
	}
	return strings.Join(p, ";")
}

// RESP encoding of one source command (array of bulk strings), preceded by keep-alive newlines
// c03InlineSafe: the command can be written as an inline command line (`name arg arg\r\n`) and read back unchanged
func c03InlineSafe(c c03SrcCmd) bool {
	ok := func(b []byte) bool {
		if len(b) == 0 {
			return false
		}
		for _, x := range b {
			if x == ' ' || x == '\r' || x == '\n' || x == 0 {
				return false // the only bytes an inline line cannot carry inside an argument
			}
		}
		return true
	}
	for _, x := range []byte(c.name) {
		if x <= ' ' || x >= 0x7f {
			return false
		}
	}
	if !ok([]byte(c.name)) || strings.ContainsAny(c.name[:1], "*$+-:") {
		return false
	}
	for _, a := range c.args {
		if !ok(a) {
			return false
		}
	}
	return true
}

// nl >= 10: the command travels as an INLINE command line behind nl-10 keep-alive newlines (the decoder accepts those at top level)
func c03RespOf(c c03SrcCmd) []byte {
	var b bytes.Buffer
	if c.nl >= 10 {
		for i := 10; i < c.nl; i++ {
			b.WriteByte('\n')
		}
		b.WriteString(c.name)
		for _, a := range c.args {
			b.WriteByte(' ')
			b.Write(a)
		}
		b.WriteString("\r\n")
		return b.Bytes()
	}
	for i := 0; i < c.nl; i++ {
		b.WriteByte('\n')
	}
	fmt.Fprintf(&b, "*%d\r\n$%d\r\n%s\r\n", len(c.args)+1, len(c.name), c.name)
	for _, a := range c.args {
		fmt.Fprintf(&b, "$%d\r\n", len(a))
		b.Write(a)
		b.WriteString("\r\n")
	}
	return b.Bytes()
}

// ---------------------------------------------------------------- global configuration of the real code

var c0304Once sync.Once

func c0304Init() {
	c0304Once.Do(func() {
		log.StdLog = log.New(log.NopCloser(ioutil.Discard), "")
		conf.Options.Metric = false
		conf.Options.LogLevel = utils.LogLevelNone
		conf.Options.Id = "verif"
		conf.Options.TargetDB = -1
		conf.Options.SenderCount = 1024
		conf.Options.SenderSize = 65535
	})
}

func c03ApplyPcfg(p c03PcfgT) {
	conf.Options.TargetDB = p.tdb
	conf.Options.FilterDBWhitelist = p.fw
	conf.Options.FilterDBBlacklist = p.fb
	conf.Options.FilterLua = p.lua
	conf.Options.FilterKeyWhitelist = p.kw
	conf.Options.FilterKeyBlacklist = p.kb
}

func c03ApplyScfg(s c03ScfgT) {
	conf.Options.SenderCount = s.cnt
	conf.Options.SenderSize = s.size
	conf.Options.Metric = s.met
}

// ---------------------------------------------------------------- fake redigo.Conn

type c03Wcmd struct {
	name string
	args [][]byte
}

type c03FakeConn struct {
	mu      sync.Mutex
	groups  [][]c03Wcmd
	cur     []c03Wcmd
	closed  bool
	endArgs [][]byte // arguments of the c03Scenario's last command
	endName string   // … and its name (compared when it has no arguments)
	endSet  bool
	sawEnd  bool
	done    chan struct{}
	doneSet bool
}

func c03RenderArg(a interface{}) []byte {
	switch v := a.(type) {
	case []byte:
		return v
	case string:
		return []byte(v)
	case int:
		return []byte(strconv.Itoa(v))
	case int64:
		return []byte(strconv.FormatInt(v, 10))
	case uint64:
		return []byte(strconv.FormatUint(v, 10))
	case nil:
		return []byte{}
	}
	return []byte(fmt.Sprint(a))
}

func (c *c03FakeConn) Send(cmd string, args ...interface{}) error {
	c.mu.Lock()
	defer c.mu.Unlock()
	if c.closed {
		return io.ErrClosedPipe
	}
	w := c03Wcmd{name: cmd}
	for _, a := range args {
		w.args = append(w.args, append([]byte{}, c03RenderArg(a)...))
	}
	c.cur = append(c.cur, w)
	if c.endSet && len(w.args) == len(c.endArgs) && (len(c.endArgs) > 0 || strings.EqualFold(cmd, c.endName)) {
		same := true
		for i := range w.args {
			if !bytes.Equal(w.args[i], c.endArgs[i]) {
				same = false
			}
		}
		if same {
			c.sawEnd = true
		}
	}
	return nil
}

func (c *c03FakeConn) Flush() error {
	c.mu.Lock()
	defer c.mu.Unlock()
	if c.closed {
		return io.ErrClosedPipe
	}
	c.groups = append(c.groups, c.cur)
	c.cur = nil
	if c.sawEnd && !c.doneSet {
		c.doneSet = true
		close(c.done)
	}
	return nil
}

func (c *c03FakeConn) Close() error { c.mu.Lock(); c.closed = true; c.mu.Unlock(); return nil }
func (c *c03FakeConn) Err() error   { return nil }
func (c *c03FakeConn) Do(cmd string, args ...interface{}) (interface{}, error) {
	return nil, fmt.Errorf("c03FakeConn: Do not supported")
}
func (c *c03FakeConn) Receive() (interface{}, error) { select {} }

func (c *c03FakeConn) trace(idle bool) string {
	c.mu.Lock()
	defer c.mu.Unlock()
	var gs []string
	render := func(g []c03Wcmd) string {
		var p []string
		for _, w := range g {
			p = append(p, hx([]byte(w.name))+"/"+c03FmtArgs(w.args))
		}
		return strings.Join(p, ";")
	}
	for _, g := range c.groups {
		gs = append(gs, render(g))
	}
	if len(c.cur) > 0 {
		gs = append(gs, "~"+render(c.cur))
	}
	t := strings.Join(gs, "|")
	if t == "" {
		t = "."
	}
	i := 0
	if idle {
		i = 1
	}
	return fmt.Sprintf("trace=%s idle=%d", t, i)
}

// ---------------------------------------------------------------- readers

// c03ChunkReader delivers the chunks pushed on `ch`; blocks while there is none (never EOF until closed).
type c03ChunkReader struct {
	ch      chan []byte
	cur     []byte
	closed  chan struct{}
	starved chan struct{} // closed the first time Read finds nothing to deliver after `expect` chunks were consumed
	expect  int
	got     int
	once    sync.Once
}

func (r *c03ChunkReader) Read(p []byte) (int, error) {
	for len(r.cur) == 0 {
		if r.got >= r.expect {
			r.once.Do(func() { close(r.starved) })
		}
		select {
		case c := <-r.ch:
			r.cur = c
			r.got++
		case <-r.closed:
			return 0, io.EOF
		}
	}
	n := copy(p, r.cur)
	r.cur = r.cur[n:]
	return n, nil
}

func c03GapDur(g byte) time.Duration {
	switch g {
	case '1':
		return 50 * time.Millisecond
	case '2':
		return 700 * time.Millisecond
	}
	return 0
}

const c0304IdleTimeout = 12 * time.Second

// ---------------------------------------------------------------- runners

// parse: the real parser on a reader that never ends; what it put on sendBuf
func c03RunParseCase(f []string) string {
	c0304Init()
	p := c03ParsePcfg(f[1])
	c03ApplyPcfg(p)
	startDb, base := atoi(f[2]), atoi(f[3])
	cmds := c03ParseCmds(f[4])
	ds := dbSync.VerifC03NewSyncer(0, "src", "rid", utils.CheckpointKey, false, startDb, int64(base), len(cmds)+4)
	var all bytes.Buffer
	for _, c := range cmds {
		all.Write(c03RespOf(c))
	}
	rd := &c03ChunkReader{ch: make(chan []byte, 1), closed: make(chan struct{}), starved: make(chan struct{}), expect: 1}
	rd.ch <- all.Bytes()
	fin := make(chan bool, 1)
	go func() { fin <- ds.VerifC03Parse(bufio.NewReaderSize(rd, 4096)) }()
	abort := 0
	select {
	case <-rd.starved:
	case <-fin:
		abort = 1
	case <-time.After(20 * time.Second):
		return "timeout"
	}
	items := ds.VerifC03Drain()
	close(rd.closed)
	return fmt.Sprintf("items=%s abort=%d", c03FmtItems(items), abort)
}

type c03Scenario struct {
	kind   string
	fields []string
	key    string // scenarios with equal keys can run concurrently (same global options)
	res    chan string
}

// send: the real sender fed directly
func c03RunSendScenario(f []string) string {
	s := c03ParseScfg(f[1])
	items := c03ParseItems(f[2])
	gaps := f[3]
	bufCap := int(s.cnt)
	if bufCap < 1 {
		bufCap = 1
	}
	ds := dbSync.VerifC03NewSyncer(0, s.src, s.rid, utils.CheckpointKey, s.res, 0, 0, bufCap)
	conn := &c03FakeConn{done: make(chan struct{})}
	if len(items) > 0 {
		conn.endArgs, conn.endName, conn.endSet = items[len(items)-1].Args, items[len(items)-1].Cmd, true
	}
	go ds.VerifC03Send(conn)
	for i, it := range items {
		if d := c03GapDur(gaps[i]); d > 0 {
			time.Sleep(d)
		}
		ds.VerifC03Push(it)
	}
	idle := true
	if len(items) > 0 {
		select {
		case <-conn.done:
		case <-time.After(c0304IdleTimeout):
			idle = false
		}
	}
	time.Sleep(30 * time.Millisecond)
	tr := conn.trace(idle)
	conn.Close()
	ds.VerifC03TryPush(dbSync.VerifC03Item{Cmd: "select"}) // a barrier makes the sender touch the closed conn and stop
	return tr
}

// pipe: real parser -> real queue -> real sender
func c03RunPipeScenario(f []string) string {
	p := c03ParsePcfg(f[1])
	_ = p
	s := c03ParseScfg(f[2])
	startDb, base := atoi(f[3]), atoi(f[4])
	cmds := c03ParseCmds(f[5])
	gaps := f[6]
	bufCap := int(s.cnt)
	if bufCap < 1 {
		bufCap = 1
	}
	ds := dbSync.VerifC03NewSyncer(0, s.src, s.rid, utils.CheckpointKey, s.res, startDb, int64(base), bufCap)
	if s.dcap > 0 {
		ds.VerifC03SetDelayCap(s.dcap)
	}
	conn := &c03FakeConn{done: make(chan struct{})}
	if len(cmds) > 0 {
		conn.endArgs, conn.endName, conn.endSet = cmds[len(cmds)-1].args, cmds[len(cmds)-1].name, true
	}
	rd := &c03ChunkReader{ch: make(chan []byte, len(cmds)+1), closed: make(chan struct{}), starved: make(chan struct{}), expect: len(cmds)}
	go ds.VerifC03Send(conn)
	go ds.VerifC03Parse(bufio.NewReaderSize(rd, 4096))
	for i, c := range cmds {
		if d := c03GapDur(gaps[i]); d > 0 {
			time.Sleep(d)
		}
		rd.ch <- c03RespOf(c)
	}
	idle := true
	if len(cmds) > 0 {
		select {
		case <-conn.done:
		case <-time.After(c0304IdleTimeout):
			idle = false
		}
	}
	time.Sleep(30 * time.Millisecond)
	tr := conn.trace(idle)
	conn.Close()
	close(rd.closed)
	ds.VerifC03TryPush(dbSync.VerifC03Item{Cmd: "select"})
	return tr
}

// ---------------------------------------------------------------- concurrent pre-runner
//
// main.go runs one case line at a time. Timing scenarios take seconds each, so `init` (called before
// main.go creates its stdin reader) reads the whole input, starts all send/pipe scenarios — grouped by the
// process-global options they need, groups one after the other, scenarios of a group concurrently — and
// hands the input back through a pipe. `run` then only collects the result of its line.

var c0304Results = map[string][]chan string{}
var c0304Mu sync.Mutex
var c0304TimingDone = make(chan struct{}) // closed when no timing c03Scenario is running any more
var c0304Prefetched bool

func c03ScenarioKey(f []string) string {
	switch f[0] {
	case "send":
		return "send|" + c03ParseScfg(f[1]).globalKey
	case "pipe":
		return "pipe|" + f[1] + "|" + c03ParseScfg(f[2]).globalKey
	}
	return ""
}

func c0304Prefetch() {
	c0304Init()
	c0304Prefetched = true
	data, err := ioutil.ReadAll(os.Stdin)
	if err != nil {
		close(c0304TimingDone)
		return
	}
	pr, pw, err := os.Pipe()
	if err != nil {
		close(c0304TimingDone)
		return
	}
	go func() { pw.Write(data); pw.Close() }()
	os.Stdin = pr
	var order []string
	groups := map[string][]*c03Scenario{}
	for _, line := range strings.Split(string(data), "\n") {
		f := strings.Fields(line)
		if len(f) == 0 || (f[0] != "send" && f[0] != "pipe") {
			continue
		}
		func() {
			defer func() { recover() }()
			k := c03ScenarioKey(f)
			sc := &c03Scenario{kind: f[0], fields: f, key: k, res: make(chan string, 1)}
			if _, ok := groups[k]; !ok {
				order = append(order, k)
			}
			groups[k] = append(groups[k], sc)
			lk := strings.Join(f, " ")
			c0304Results[lk] = append(c0304Results[lk], sc.res)
		}()
	}
	go func() {
		for _, k := range order {
			scs := groups[k]
			// global options of this group
			f := scs[0].fields
			if f[0] == "send" {
				c03ApplyPcfg(c03PcfgT{tdb: -1})
				c03ApplyScfg(c03ParseScfg(f[1]))
			} else {
				c03ApplyPcfg(c03ParsePcfg(f[1]))
				c03ApplyScfg(c03ParseScfg(f[2]))
			}
			var wg sync.WaitGroup
			for _, sc := range scs {
				wg.Add(1)
				go func(sc *c03Scenario) {
					defer wg.Done()
					defer func() {
						if e := recover(); e != nil {
							sc.res <- "panic"
						}
					}()
					if sc.kind == "send" {
						sc.res <- c03RunSendScenario(sc.fields)
					} else {
						sc.res <- c03RunPipeScenario(sc.fields)
					}
				}(sc)
			}
			wg.Wait()
		}
		close(c0304TimingDone)
	}()
}

func c0304Run(f []string) string {
	switch f[0] {
	case "parse":
		if c0304Prefetched {
			<-c0304TimingDone // the parser cases set process-global options too
		}
		return c03RunParseCase(f)
	case "send", "pipe":
		lk := strings.Join(f, " ")
		c0304Mu.Lock()
		q := c0304Results[lk]
		if len(q) > 0 {
			c0304Results[lk] = q[1:]
		}
		c0304Mu.Unlock()
		if len(q) > 0 {
			select {
			case r := <-q[0]:
				return r
			case <-time.After(10 * time.Minute):
				return "timeout"
			}
		}
		// not prefetched (should not happen): run inline
		c0304Init()
		if f[0] == "send" {
			c03ApplyPcfg(c03PcfgT{tdb: -1})
			c03ApplyScfg(c03ParseScfg(f[1]))
			return c03RunSendScenario(f)
		}
		c03ApplyPcfg(c03ParsePcfg(f[1]))
		c03ApplyScfg(c03ParseScfg(f[2]))
		return c03RunPipeScenario(f)
	}
	return "badcase"
}
