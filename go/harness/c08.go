package main

// C08 — offsets reported to the source are exactly "start offset + bytes consumed".
//
// One case = one timed history run against the REAL runIncrementalSync / pSyncPipeCopy / sendPSyncCmd
// (real 1 s ticker, real reconnect loop with its net.Dial) talking to a scripted fake source on loopback:
//
//   <kind> <in> <ann> <runid> <rdb> <step,step,…>
//     kind  inc  : runIncrementalSync on an established connection, ds.sourceOffset = <in>
//           cont : sendPSyncCmd, source answers +CONTINUE            (start offset = <in>)
//           full : sendPSyncCmd, source answers +FULLRESYNC id <ann>, then an RDB of <rdb> bytes (start = <ann>)
//           tags : as inc, but the stream is a sequence of RESP commands and the pipe is read by the real
//                  parseSourceCommand; observed: the Offset it attaches to every command (ds.sourceOffset + decoder position)
//     steps s<k> source writes the next k stream bytes     p<ms> pause
//           w    close(ds.WaitFull)                         q     wait until the ACKs have settled
//           d    source closes the connection gracefully (FIN), accepts the reconnect, answers +CONTINUE
//           D<k> / X<k>  as d / x, the +CONTINUE line and the next k stream bytes leave the source in ONE write (one segment)
//           x    source resets the connection (RST; bytes in flight may be lost), then as d
//           e    as d but the source answers -ERR (the tool sleeps 30 s and carries on on that connection)
//           h    an hour without retries passes (ds.lastRetry moved back; incrementRetryCounter restarts at 0)
//
// The stream byte at absolute replication offset o is c08Byte(o); on `PSYNC runid off` the source continues
// from offset `off` ("the source honours the requested offset"), so any error at a seam shows in the pipe.
//
// Result line: every event the fake source observed, in one total order, then the bytes delivered to the pipe:
//   T P<conn>:<runid>:<off> s<k> a<conn>:<n> w d x e q b<tagbase> … pipe=<hex> rdb=ok|bad|- abort=0|1 tags=<o1,o2,…>|-
// All histories of a run are executed concurrently (the init hook reads the whole input first).

import (
	"bufio"
	"bytes"
	"fmt"
	"io"
	"net"
	"os"
	"strconv"
	"strings"
	"sync"
	"time"

	"github.com/alibaba/RedisShake/pkg/libs/io/pipe"
	"github.com/alibaba/RedisShake/redis-shake/dbSync"
)

func init() {
	props["C08"] = &prop{gen: genC08, run: runC08, init: initC08}
}

// ---------------------------------------------------------------- generator

const c08Period = 1000 // ms; only used to place traffic between ticks (the verdict never depends on it)

type c08gen struct {
	g     *gen
	steps []string
	phase int // ms since the last (re)start of the ticker, modulo the period
	dur   int // estimated wall time of the history, ms
}

func (b *c08gen) add(s string) { b.steps = append(b.steps, s) }

// pause so that the next action falls in the quiet middle of a tick interval
func (b *c08gen) pauseToMiddle() {
	target := 250 + 50*b.g.r.Intn(11) // 250..750
	d := target - b.phase
	for d <= 0 {
		d += c08Period
	}
	if b.g.r.Intn(5) == 0 {
		d += c08Period // an idle tick in between
	}
	b.add(fmt.Sprintf("p%d", d))
	b.phase = (b.phase + d) % c08Period
	b.dur += d
}

func (b *c08gen) size() int {
	switch b.g.r.Intn(8) {
	case 0:
		return 1
	case 1:
		return 8191 + b.g.r.Intn(3)
	case 2:
		return 1 + b.g.r.Intn(20000)
	default:
		return 1 + b.g.r.Intn(300)
	}
}

func (b *c08gen) burst() {
	n := 1 + b.g.r.Intn(3)
	for i := 0; i < n; i++ {
		b.add(fmt.Sprintf("s%d", b.size()))
		if i+1 < n && b.g.r.Intn(2) == 0 && b.phase < 700 {
			d := 10 * (1 + b.g.r.Intn(5))
			b.add(fmt.Sprintf("p%d", d))
			b.phase = (b.phase + d) % c08Period
			b.dur += d
		}
	}
}

func (b *c08gen) settle() {
	b.add("q")
	b.dur += 2*c08Period - b.phase
	b.phase = 20
}

func (b *c08gen) drop(kind string) {
	b.add(kind)
	b.dur += 1100
	b.phase = 20
}

func c08Runid(g *gen) string {
	const hexd = "0123456789abcdef"
	n := 40
	if g.r.Intn(6) == 0 {
		n = 1 + g.r.Intn(12)
	}
	s := make([]byte, n)
	for i := range s {
		s[i] = hexd[g.r.Intn(16)]
	}
	return string(s)
}

func c08Offset(g *gen) int64 {
	switch g.r.Intn(6) {
	case 0:
		return 0
	case 1:
		return int64(g.r.Intn(10))
	case 2:
		return 1<<32 - 5 + int64(g.r.Intn(10))
	case 3:
		return 1<<40 + int64(g.r.Intn(1<<30))
	default:
		return int64(g.r.Intn(1 << 30))
	}
}

// one random history: `drops`+1 connections, each living for one or two tick intervals of traffic
func c08History(g *gen, kind string, drops int, long bool, abrupt bool) string {
	b := &c08gen{g: g, phase: 20}
	in := c08Offset(g)
	ann := "-"
	rdb := 0
	if kind == "full" {
		ann = fmt.Sprint(c08Offset(g))
		rdb = 1 + g.r.Intn(3000)
		if g.r.Intn(3) == 0 {
			rdb = 8192*g.r.Intn(3) + 8190 + g.r.Intn(4)
		}
		if g.r.Intn(2) == 0 {
			in = -1 // "psync ? -1"
		}
	}
	// when the full sync ends: at once | after the first interval | in a later segment | only at the very end
	wAt := []int{0, 1, 1, 2 + g.r.Intn(3), 1000}[g.r.Intn(5)]
	wDone := false
	closeFull := func() {
		if !wDone {
			b.add("w")
			wDone = true
		}
	}
	interval := 0
	for seg := 0; seg <= drops; seg++ {
		n := 1 + g.r.Intn(2)
		if long {
			n += 1 + g.r.Intn(3)
		}
		for k := 0; k < n; k++ {
			if interval >= wAt {
				closeFull()
			}
			interval++
			b.pauseToMiddle()
			switch c := g.r.Intn(20); {
			case c < 14:
				b.burst()
			case c < 17:
				b.burst()
				b.settle()
			default: // idle interval
			}
		}
		if seg == drops {
			break
		}
		if b.steps[len(b.steps)-1] == "q" {
			b.pauseToMiddle()
		}
		switch {
		case abrupt && g.r.Intn(2) == 0:
			b.add(fmt.Sprintf("s%d", 100000+g.r.Intn(150000))) // a reset with bytes in flight
			b.drop("x")
		case g.r.Intn(3) == 0:
			b.burst() // traffic right before the close: no tick has seen it yet
			b.drop("d")
		case g.r.Intn(2) == 0:
			// the reconnect is answered with +CONTINUE and the first backlog bytes in one segment
			b.drop(fmt.Sprintf("%c%d", "DX"[g.r.Intn(2)], []int{1, 17, 34, 300, 5000}[g.r.Intn(5)]))
		default:
			b.drop("d")
		}
	}
	closeFull()
	b.pauseToMiddle()
	if g.r.Intn(3) > 0 {
		b.burst()
	}
	b.settle()
	return fmt.Sprintf("%s %d %s %s %d %s", kind, in, ann, c08Runid(g), rdb, strings.Join(b.steps, ","))
}

func genC08(g *gen) {
	// (the D9 witness and the seam witnesses are corpus/C08/*.case and run first)
	n := g.pick(16, 150)
	for i := 0; i < n; i++ {
		kind := "inc"
		switch i % 4 {
		case 1:
			kind = "cont"
		case 2:
			kind = "tags"
		case 3:
			kind = "full"
		}
		drops := []int{0, 1, 1, 1, 2, 2}[g.r.Intn(6)]
		if (kind == "inc" || kind == "tags") && g.r.Intn(8) == 0 {
			drops = 3
		}
		g.emit("%s", c08History(g, kind, drops, g.thorough() && i%8 == 0, i%3 == 2 && kind != "tags"))
	}
	// large values in the command stream (cycle: 35+70029+… bytes, see c08CmdsL); cuts before, inside and after them
	g.emit("tagl 1000 - abcd 0 w,p300,s20,q,p300,s70100,q,p300,s1048800,q,p300,d,p300,s150,q")
	g.emit("tagl 0 - abcd 0 w,p300,s50000,q,p300,d,p300,s30000,q,p300,s600000,q,p300,x,p300,s500000,q,p300,s300,q")
	if g.thorough() {
		g.emit("tagl 987654321 - abcd 0 w,p300,s1118900,q,p300,D70200,q,p300,s1048700,q,p300,d,p300,s1200000,q")
	}
	// a full resync whose first stream bytes arrive glued to the RDB tail (RDB shorter than one copy chunk, and longer)
	g.emit("full -1 5000000 a1b2c3d4e5 1400 S300,p300,q,w,p300,s50,q,p300,d,p300,s20,q")
	g.emit("full -1 77 0f1e2d3c4b 20000 S5000,w,p300,s1,q,p300,x,p300,s300,q")
	if g.thorough() {
		// retry exhaustion: the 4th broken connection within the hour aborts the process (log.Panicf)
		g.emit("inc 77 - abcd 0 w,p300,s10,d,p300,s10,d,p300,s10,d,p300,s10,q,p300,d")
		// … unless an hour passes in between
		g.emit("inc 77 - abcd 0 w,p300,s10,d,p300,s10,d,p300,s10,d,p300,h,s10,q,p300,d,p300,s3,d,p300,s1,q")
		// source refuses the re-PSYNC once (-ERR): 30 s sleep, then the copy loop runs on that connection
		g.emit("inc 500 - abcd 0 w,p300,s10,q,p300,e,p31500,q,p300,d,p300,s4,q")
	}
}

// ---------------------------------------------------------------- stream

// the byte the fake source sends at absolute replication offset o (o >= 0); mirrored by Drive/C08.lean
func c08Byte(o int64) byte { return byte(((o%251)*7 + o/251) % 256) }

func c08Rdb(i int) byte { return byte(i*31 + 5) }

// the command stream of the `tags` histories, repeated for ever from offset start+1; mirrored by Drive/C08.lean
var c08Cmds = []string{
	"*3\r\n$3\r\nset\r\n$1\r\na\r\n$1\r\n1\r\n",
	"*2\r\n$4\r\nincr\r\n$5\r\ncount\r\n",
	"*1\r\n$4\r\nping\r\n",
	"*4\r\n$4\r\nhset\r\n$1\r\nh\r\n$2\r\nf1\r\n$10\r\n0123456789\r\n",
}
var c08CmdStream = strings.Join(c08Cmds, "")

// the stream of the `tagl` histories: the same with two large values (beyond 64 KiB, beyond 1 MiB) in the cycle
var c08CmdsL = func() []string {
	big := func(n int) string {
		b := make([]byte, n)
		for i := range b {
			b[i] = byte(i*13 + i/256)
		}
		return fmt.Sprintf("*3\r\n$3\r\nset\r\n$3\r\nbig\r\n$%d\r\n%s\r\n", n, b)
	}
	return []string{c08Cmds[0], big(c08BigA), c08Cmds[1], c08Cmds[2], big(c08BigB), c08Cmds[3]}
}()

const c08BigA, c08BigB = 70001, 1048601

// number of complete commands among the first n stream bytes (used only to know when to stop waiting)
func c08CompleteCmds(c08Cmds []string, n int) int {
	L := len(strings.Join(c08Cmds, ""))
	k := (n / L) * len(c08Cmds)
	rem := n % L
	for _, c := range c08Cmds {
		if rem < len(c) {
			break
		}
		rem -= len(c)
		k++
	}
	return k
}

// ---------------------------------------------------------------- fake source

type c08Conn struct {
	idx   int
	c     *net.TCPConn
	psync chan [2]string
}

type c08Src struct {
	mu       sync.Mutex
	cond     *sync.Cond
	log      []string
	ln       net.Listener
	conns    []*c08Conn
	newConn  chan *c08Conn
	finished bool
	acks     map[int]int
	pipeN    int
	tags     []int64
	pipeBuf  bytes.Buffer
	pipeEOF  bool
}

func (s *c08Src) logf(format string, a ...interface{}) {
	s.mu.Lock()
	s.log = append(s.log, fmt.Sprintf(format, a...))
	s.mu.Unlock()
}

func (s *c08Src) acceptLoop() {
	for {
		c, err := s.ln.Accept()
		if err != nil {
			return
		}
		s.mu.Lock()
		if s.finished {
			s.mu.Unlock()
			c.Close()
			continue
		}
		cc := &c08Conn{idx: len(s.conns), c: c.(*net.TCPConn), psync: make(chan [2]string, 1)}
		s.conns = append(s.conns, cc)
		s.mu.Unlock()
		go s.serve(cc)
		s.newConn <- cc
	}
}

// read one RESP array of bulk strings
func c08ReadCmd(r *bufio.Reader) ([]string, error) {
	line, err := r.ReadString('\n')
	if err != nil {
		return nil, err
	}
	line = strings.TrimRight(line, "\r\n")
	if len(line) == 0 || line[0] != '*' {
		return []string{"?" + line}, nil
	}
	n, err := strconv.Atoi(line[1:])
	if err != nil {
		return nil, err
	}
	out := make([]string, 0, n)
	for i := 0; i < n; i++ {
		l, err := r.ReadString('\n')
		if err != nil {
			return nil, err
		}
		l = strings.TrimRight(l, "\r\n")
		if len(l) == 0 || l[0] != '$' {
			return nil, fmt.Errorf("bad bulk header %q", l)
		}
		m, err := strconv.Atoi(l[1:])
		if err != nil {
			return nil, err
		}
		buf := make([]byte, m+2)
		if _, err := io.ReadFull(r, buf); err != nil {
			return nil, err
		}
		out = append(out, string(buf[:m]))
	}
	return out, nil
}

func (s *c08Src) serve(cc *c08Conn) {
	r := bufio.NewReader(cc.c)
	for {
		cmd, err := c08ReadCmd(r)
		if err != nil {
			return
		}
		name := strings.ToLower(cmd[0])
		switch {
		case name == "replconf" && len(cmd) == 3 && strings.ToLower(cmd[1]) == "listening-port":
			cc.c.Write([]byte("+OK\r\n"))
		case name == "replconf" && len(cmd) == 3 && strings.ToLower(cmd[1]) == "ack":
			s.mu.Lock()
			s.log = append(s.log, fmt.Sprintf("a%d:%s", cc.idx, cmd[2]))
			s.acks[cc.idx]++
			s.cond.Broadcast()
			s.mu.Unlock()
		case name == "psync" && len(cmd) == 3:
			s.logf("P%d:%s:%s", cc.idx, cmd[1], cmd[2])
			cc.psync <- [2]string{cmd[1], cmd[2]}
		default:
			s.logf("?%d:%s", cc.idx, strings.Join(cmd, "_"))
		}
	}
}

func (s *c08Src) pipeReader(r io.Reader) {
	buf := make([]byte, 4096)
	for {
		n, err := r.Read(buf)
		s.mu.Lock()
		s.pipeBuf.Write(buf[:n])
		s.pipeN += n
		if err != nil {
			s.pipeEOF = true
		}
		s.cond.Broadcast()
		s.mu.Unlock()
		if err != nil {
			return
		}
	}
}

// wait (bounded) until pred holds; pred is evaluated under s.mu
func (s *c08Src) waitFor(pred func() bool, d time.Duration) bool {
	deadline := time.Now().Add(d)
	t := time.AfterFunc(d, func() { s.mu.Lock(); s.cond.Broadcast(); s.mu.Unlock() })
	defer t.Stop()
	s.mu.Lock()
	defer s.mu.Unlock()
	for !pred() {
		if !time.Now().Before(deadline) {
			return false
		}
		s.cond.Wait()
	}
	return true
}

var c08IdSeq struct {
	sync.Mutex
	n int
}

func c08NextId() int {
	c08IdSeq.Lock()
	defer c08IdSeq.Unlock()
	c08IdSeq.n++
	return 800 + c08IdSeq.n
}

func c08RunHistory(f []string) string {
	if len(f) != 6 {
		return "badcase"
	}
	kind := f[0]
	c08Cmds, c08CmdStream := c08Cmds, c08CmdStream
	if kind == "tagl" {
		kind, c08Cmds, c08CmdStream = "tags", c08CmdsL, strings.Join(c08CmdsL, "")
	}
	in, err1 := strconv.ParseInt(f[1], 10, 64)
	runid := f[3]
	rdb, err2 := strconv.Atoi(f[4])
	if err1 != nil || err2 != nil {
		return "badcase"
	}
	var ann int64
	if kind == "full" {
		a, err := strconv.ParseInt(f[2], 10, 64)
		if err != nil {
			return "badcase"
		}
		ann = a
	}
	steps := strings.Split(f[5], ",")

	ln, err := net.Listen("tcp", "127.0.0.1:0")
	if err != nil {
		return "listenfail"
	}
	s := &c08Src{ln: ln, newConn: make(chan *c08Conn, 16), acks: map[int]int{}}
	s.cond = sync.NewCond(&s.mu)
	go s.acceptLoop()
	master := ln.Addr().String()

	v := dbSync.VerifC08New(c08NextId(), in)
	aborted := make(chan struct{})
	runReturned := make(chan struct{})
	var cur *c08Conn
	var start, srcPos int64
	fail := func(why string) string {
		s.mu.Lock()
		defer s.mu.Unlock()
		return "T " + strings.Join(s.log, " ") + " !" + why
	}

	switch kind {
	case "inc", "tags":
		c, err := net.Dial("tcp", master)
		if err != nil {
			return "dialfail"
		}
		cur = <-s.newConn
		piper, pipew := pipe.NewSize(1 << 16)
		if kind == "tags" {
			go func() {
				v.ParseCommands(piper, func(off int64) {
					s.mu.Lock()
					s.tags = append(s.tags, off)
					s.cond.Broadcast()
					s.mu.Unlock()
				})
				s.mu.Lock()
				s.pipeEOF = true
				s.cond.Broadcast()
				s.mu.Unlock()
			}()
		} else {
			go s.pipeReader(piper)
		}
		br := bufio.NewReaderSize(c, 1<<16)
		bw := bufio.NewWriterSize(c, 1<<12)
		go func() {
			if v.RunIncremental(c, br, bw, runid, master, pipew) {
				close(aborted)
			}
			close(runReturned)
		}()
		start = in
		srcPos = in + 1
	case "cont", "full":
		type res struct {
			r   pipe.Reader
			err error
		}
		done := make(chan res, 1)
		go func() {
			// a start that ends in a full resync asks with the run id it has — "?" on a fresh start, a checkpoint's otherwise —
			// never with the one the source is about to announce; what follows must use the ANNOUNCED id
			req := runid
			if kind == "full" {
				req = "?"
				if len(runid) > 0 && runid[0]%2 == 0 {
					req = "0123456789abcdef0123456789abcdef01234567"
				}
			}
			r, _, _, _, err := v.SendPSync(master, req)
			done <- res{r, err}
		}()
		select {
		case cur = <-s.newConn:
		case <-time.After(10 * time.Second):
			return fail("noconnect")
		}
		var req [2]string
		select {
		case req = <-cur.psync:
		case <-time.After(10 * time.Second):
			return fail("nopsync")
		}
		if kind == "cont" {
			cur.c.Write([]byte("+CONTINUE\r\n"))
			off, err := strconv.ParseInt(req[1], 10, 64)
			if err != nil {
				return fail("badpsync")
			}
			start = in
			srcPos = off // the source honours the requested offset
		} else {
			hdr := fmt.Sprintf("+FULLRESYNC %s %d\r\n$%d\r\n", runid, ann, rdb)
			body := make([]byte, rdb)
			for i := range body {
				body[i] = c08Rdb(i)
			}
			start = ann
			srcPos = ann + 1
			out := append([]byte(hdr), body...)
			// first step S<k>: the first k stream bytes leave the source in the SAME write as the RDB (a busy source: commands
			// queued directly behind the payload)
			for len(steps) > 0 && steps[0] == "" {
				steps = steps[1:]
			}
			if len(steps) > 0 && steps[0][0] == 'S' {
				k, err := strconv.Atoi(steps[0][1:])
				if err != nil {
					return "badcase"
				}
				for i := 0; i < k; i++ {
					out = append(out, c08Byte(srcPos+int64(i)))
				}
				s.logf("s%d", k)
				srcPos += int64(k)
				steps = steps[1:]
			}
			cur.c.Write(out)
		}
		select {
		case r := <-done:
			if r.err != nil {
				return fail("psyncerr")
			}
			go s.pipeReader(r.r)
		case <-time.After(10 * time.Second):
			return fail("nostart")
		}
	default:
		return "badcase"
	}
	s.logf("b%d", v.TagBase())

	delivered := func() int { return rdb + int(srcPos-start-1) } // what the pipe must have seen once all is settled
	drained := func() func() bool {
		want := delivered()
		if kind == "tags" {
			n := c08CompleteCmds(c08Cmds, want)
			return func() bool { return len(s.tags) >= n || s.pipeEOF }
		}
		return func() bool { return s.pipeN >= want || s.pipeEOF }
	}
	stopped := ""
	coalesce := 0 // > 0: the next +CONTINUE answer carries that many stream bytes in the same write
	reconnect := func(reply string) bool {
		var nc *c08Conn
		select {
		case nc = <-s.newConn:
		case <-aborted:
			stopped = "abort"
			return false
		case <-time.After(15 * time.Second):
			stopped = "!noreconnect"
			return false
		}
		var req [2]string
		select {
		case req = <-nc.psync:
		case <-aborted:
			stopped = "abort"
			return false
		case <-time.After(10 * time.Second):
			stopped = "!nopsync"
			return false
		}
		cur = nc
		if reply == "err" {
			cur.c.Write([]byte("-ERR refused\r\n"))
			return true
		}
		off, err := strconv.ParseInt(req[1], 10, 64)
		if err != nil || off < 0 {
			stopped = "!badpsync"
			return false
		}
		srcPos = off
		out := []byte("+CONTINUE\r\n")
		if coalesce > 0 {
			for i := 0; i < coalesce; i++ {
				if kind == "tags" {
					out = append(out, c08CmdStream[int((srcPos+int64(i)-start-1)%int64(len(c08CmdStream)))])
				} else {
					out = append(out, c08Byte(srcPos+int64(i)))
				}
			}
			s.logf("s%d", coalesce)
			srcPos += int64(coalesce)
			coalesce = 0
		}
		cur.c.Write(out)
		return true
	}

steps:
	for _, st := range steps {
		if st == "" {
			continue
		}
		arg := 0
		if len(st) > 1 {
			a, err := strconv.Atoi(st[1:])
			if err != nil {
				return "badcase"
			}
			arg = a
		}
		switch st[0] {
		case 's':
			buf := make([]byte, arg)
			for i := range buf {
				if kind == "tags" {
					buf[i] = c08CmdStream[int((srcPos+int64(i)-start-1)%int64(len(c08CmdStream)))]
				} else {
					buf[i] = c08Byte(srcPos + int64(i))
				}
			}
			s.logf("s%d", arg)
			cur.c.Write(buf)
			srcPos += int64(arg)
		case 'p':
			time.Sleep(time.Duration(arg) * time.Millisecond)
			continue
		case 'w':
			s.logf("w")
			v.CloseWaitFull()
		case 'h':
			s.logf("h")
			v.QuietHour()
		case 'D', 'X':
			coalesce = arg
			if st[0] == 'D' {
				s.logf("d")
				cur.c.CloseWrite()
			} else {
				s.logf("x")
				cur.c.SetLinger(0)
				cur.c.Close()
			}
			if !reconnect("cont") {
				break steps
			}
		case 'd', 'e':
			s.logf("%c", st[0])
			cur.c.CloseWrite()
			if !reconnect(map[byte]string{'d': "cont", 'e': "err"}[st[0]]) {
				break steps
			}
		case 'x':
			s.logf("x")
			cur.c.SetLinger(0)
			cur.c.Close()
			if !reconnect("cont") {
				break steps
			}
		case 'q':
			ok := s.waitFor(drained(), 10*time.Second)
			if ok {
				idx := cur.idx
				s.mu.Lock()
				n0 := s.acks[idx]
				s.mu.Unlock()
				ok = s.waitFor(func() bool { return s.acks[idx] >= n0+2 }, 10*time.Second)
			}
			if ok {
				s.logf("q")
			} else {
				s.logf("q!") // a failing history: the rest of the script would only run into more timeouts
				stopped = "!unsettled"
				break steps
			}
		default:
			return "badcase"
		}
		s.logf("b%d", v.TagBase())
	}
	if stopped != "" {
		s.logf("%s", stopped)
	}
	if stopped == "" {
		s.waitFor(drained(), 10*time.Second)
	} else {
		time.Sleep(200 * time.Millisecond)
	}

	s.mu.Lock()
	all := append([]byte{}, s.pipeBuf.Bytes()...)
	toks := strings.Join(s.log, " ")
	tags := "-"
	if kind == "tags" {
		ts := make([]string, len(s.tags))
		for i, o := range s.tags {
			ts[i] = fmt.Sprint(o)
		}
		tags = strings.Join(ts, ",")
		if tags == "" {
			tags = "none"
		}
	}
	s.mu.Unlock()
	rdbState := "-"
	if kind == "full" {
		rdbState = "ok"
		if len(all) < rdb {
			rdbState = "short"
		} else {
			for i := 0; i < rdb; i++ {
				if all[i] != c08Rdb(i) {
					rdbState = "bad"
				}
			}
			all = all[rdb:]
		}
	}
	ab := 0
	select {
	case <-aborted:
		ab = 1
	default:
	}

	// tear down (only where the real goroutine can be stopped without killing the process)
	if kind == "inc" || kind == "tags" {
		s.mu.Lock()
		s.finished = true
		conns := append([]*c08Conn{}, s.conns...)
		s.mu.Unlock()
		for _, c := range conns {
			c.c.Close()
		}
		select {
		case <-runReturned:
			ln.Close()
		case <-time.After(6 * time.Second):
		}
	}
	return fmt.Sprintf("T %s pipe=%s rdb=%s abort=%d tags=%s", toks, hx(all), rdbState, ab, tags)
}

// ---------------------------------------------------------------- concurrent execution of a whole run

var c08Results struct {
	sync.Mutex
	lines []string
	res   []chan string
	next  int
}

// initC08 reads every case line, starts the histories (16 at a time), and hands the unchanged
// input back to main's line loop; runC08 then only collects the result of "its" line.
func initC08() {
	data, _ := io.ReadAll(os.Stdin)
	lines := strings.Split(string(data), "\n")
	for len(lines) > 0 && lines[len(lines)-1] == "" {
		lines = lines[:len(lines)-1]
	}
	c08Results.lines = lines
	c08Results.res = make([]chan string, len(lines))
	sem := make(chan struct{}, 16)
	for i := range lines {
		c08Results.res[i] = make(chan string, 1)
	}
	go func() {
		for i, l := range lines {
			sem <- struct{}{}
			go func(i int, l string) {
				defer func() { <-sem }()
				defer func() {
					if e := recover(); e != nil {
						c08Results.res[i] <- "panic"
					}
				}()
				c08Results.res[i] <- c08RunHistory(strings.Fields(l))
			}(i, l)
			time.Sleep(7 * time.Millisecond) // spread the tick phases of concurrent histories
		}
	}()
	pr, pw, err := os.Pipe()
	if err != nil {
		panic(err)
	}
	os.Stdin = pr
	go func() {
		pw.Write(data)
		pw.Close()
	}()
}

func runC08(f []string) string {
	c08Results.Lock()
	i := c08Results.next
	c08Results.next++
	c08Results.Unlock()
	if i >= len(c08Results.res) || strings.Join(strings.Fields(c08Results.lines[i]), " ") != strings.Join(f, " ") {
		return c08RunHistory(f)
	}
	return <-c08Results.res[i]
}
