package main

// C01: generator of RDB files (own serializer, independent of the repo) and runner of the real loader.

import (
	"bufio"
	"bytes"
	"fmt"
	"io"
	"math/rand"
	"strings"

	"github.com/alibaba/RedisShake/pkg/rdb"
)

func init() {
	props["C01"] = &prop{gen: genC01, run: runC01, concurrent: 8,
		exclusive: func(f []string) bool { return len(f) > 2 && strings.HasPrefix(f[2], "mut") }}
}

const realChunkLimit = 16 * 1024 * 1024

// ---------- bitwise CRC-64 (Jones, reflected) written here so that generated files do not depend on repo tables
func crc64bitwise(crc uint64, data []byte) uint64 {
	const poly = 0x95ac9329ac4bc9b5
	for _, b := range data {
		crc ^= uint64(b)
		for i := 0; i < 8; i++ {
			if crc&1 == 1 {
				crc = (crc >> 1) ^ poly
			} else {
				crc >>= 1
			}
		}
	}
	return crc
}

type rdbGen struct {
	r       *rand.Rand
	maxStr  int
	maxColl int
	stats   map[string]int
	noText  bool // avoid text scores (type 3) — used for the mutated stream
}

func (g *rdbGen) hit(k string) { g.stats[k]++ }

// encLen renders val in a length form that fits; wide=true may choose a wider form than necessary.
// allow64: the 64-bit form may be used (only where the number is discarded by the parser).
func (g *rdbGen) encLen(val uint64, allow64 bool) []byte {
	min := 0
	switch {
	case val < 64:
		min = 0
	case val < 16384:
		min = 1
	case val < 1<<32:
		min = 2
	default:
		min = 3
	}
	form := min
	if g.r.Intn(4) == 0 { // wider than necessary
		max := 2
		if allow64 {
			max = 3
		}
		if max > min {
			form = min + 1 + g.r.Intn(max-min)
		}
	}
	g.hit(fmt.Sprintf("lenform%d", form))
	switch form {
	case 0:
		return []byte{byte(val)}
	case 1:
		return []byte{0x40 | byte(val>>8), byte(val)}
	case 2:
		return []byte{0x80, byte(val >> 24), byte(val >> 16), byte(val >> 8), byte(val)}
	default:
		return []byte{0x81, byte(val >> 56), byte(val >> 48), byte(val >> 40), byte(val >> 32), byte(val >> 24), byte(val >> 16), byte(val >> 8), byte(val)}
	}
}

func (g *rdbGen) sizeAround() int {
	switch g.r.Intn(10) {
	case 0:
		return 0
	case 1:
		return 1
	case 2:
		return 62 + g.r.Intn(4) // 6-bit boundary
	case 3:
		if g.maxStr >= 16390 {
			return 16382 + g.r.Intn(4) // 14-bit boundary
		}
		return g.r.Intn(g.maxStr + 1)
	default:
		return g.r.Intn(g.maxStr/4 + 2)
	}
}

// lzf produces (compressed, expandedLen) from random tokens
func (g *rdbGen) lzf() ([]byte, int) {
	var comp, out []byte
	ntok := 1 + g.r.Intn(8)
	for i := 0; i < ntok; i++ {
		if len(out) == 0 || g.r.Intn(2) == 0 {
			n := 1 + g.r.Intn(32)
			lit := make([]byte, n)
			g.r.Read(lit)
			if g.r.Intn(3) == 0 {
				for j := range lit {
					lit[j] = 'a'
				}
			}
			comp = append(comp, byte(n-1))
			comp = append(comp, lit...)
			out = append(out, lit...)
			g.hit("lzf-lit")
		} else {
			maxoff := len(out)
			if maxoff > 8192 {
				maxoff = 8192
			}
			off := 1 + g.r.Intn(maxoff)
			if g.r.Intn(3) == 0 {
				off = 1 + g.r.Intn(min(maxoff, 4)) // overlapping copies
			}
			l := 3 + g.r.Intn(12)
			if g.r.Intn(4) == 0 {
				l = 3 + g.r.Intn(262) // long form
			}
			if g.r.Intn(8) == 0 {
				l = []int{8, 9, 10, 264}[g.r.Intn(4)]
			}
			ll := l - 2
			if ll < 7 {
				comp = append(comp, byte(ll<<5)|byte((off-1)>>8), byte(off-1))
				g.hit("lzf-ref-short")
			} else {
				comp = append(comp, byte(7<<5)|byte((off-1)>>8), byte(ll-7), byte(off-1))
				g.hit("lzf-ref-long")
			}
			ref := len(out) - off
			for k := 0; k < l; k++ {
				out = append(out, out[ref+k])
			}
		}
	}
	return comp, len(out)
}

func min(a, b int) int {
	if a < b {
		return a
	}
	return b
}

// rstr serializes a random string object
func (g *rdbGen) rstr() []byte {
	switch g.r.Intn(10) {
	case 0:
		g.hit("str-int8")
		return []byte{0xC0, byte(g.r.Intn(256))}
	case 1:
		g.hit("str-int16")
		v := []int{0, 1, 127, 128, 255, 256, 32767, 32768, 65535, g.r.Intn(65536)}[g.r.Intn(10)]
		return []byte{0xC1, byte(v), byte(v >> 8)}
	case 2:
		g.hit("str-int32")
		v := []uint32{0, 1, 0x7fffffff, 0x80000000, 0xffffffff, g.r.Uint32()}[g.r.Intn(6)]
		return []byte{0xC2, byte(v), byte(v >> 8), byte(v >> 16), byte(v >> 24)}
	case 3, 4:
		g.hit("str-lzf")
		comp, ulen := g.lzf()
		b := []byte{0xC3}
		b = append(b, g.encLen(uint64(len(comp)), false)...)
		b = append(b, g.encLen(uint64(ulen), false)...)
		return append(b, comp...)
	default:
		g.hit("str-raw")
		n := g.sizeAround()
		b := g.encLen(uint64(n), false)
		d := make([]byte, n)
		g.r.Read(d)
		return append(b, d...)
	}
}

func (g *rdbGen) rawStr(s []byte) []byte {
	return append(g.encLen(uint64(len(s)), false), s...)
}

func (g *rdbGen) collSize() int {
	switch g.r.Intn(6) {
	case 0:
		return 0
	case 1:
		return 1
	default:
		return g.r.Intn(g.maxColl + 1)
	}
}

var floatTexts = []string{"0", "1", "-1", "3.14159", "-2.5", "1e10", "1.5e-7", "inf", "-inf", "nan", "17", "0.1", "12345678.5", "-0", "1E5", "+3", "4.25e+2"}

func (g *rdbGen) value() (byte, []byte) {
	var b []byte
	kind := g.r.Intn(16)
	if g.noText && kind == 3 {
		kind = 5
	}
	switch kind {
	case 0, 1:
		g.hit("type-string")
		return 0, g.rstr()
	case 2:
		g.hit("type-list")
		n := g.collSize()
		b = g.encLen(uint64(n), false)
		for i := 0; i < n; i++ {
			b = append(b, g.rstr()...)
		}
		return 1, b
	case 13:
		g.hit("type-set")
		n := g.collSize()
		b = g.encLen(uint64(n), false)
		for i := 0; i < n; i++ {
			b = append(b, g.rstr()...)
		}
		return 2, b
	case 3:
		g.hit("type-zset")
		n := g.collSize()
		b = g.encLen(uint64(n), false)
		for i := 0; i < n; i++ {
			b = append(b, g.rstr()...)
			switch g.r.Intn(6) {
			case 0:
				b = append(b, 253)
			case 1:
				b = append(b, 254)
			case 2:
				b = append(b, 255)
			default:
				t := floatTexts[g.r.Intn(len(floatTexts))]
				b = append(b, byte(len(t)))
				b = append(b, t...)
			}
		}
		return 3, b
	case 4, 5:
		g.hit("type-hash")
		n := g.collSize()
		b = g.encLen(uint64(n), false)
		for i := 0; i < n; i++ {
			b = append(b, g.rstr()...)
			b = append(b, g.rstr()...)
		}
		return 4, b
	case 6:
		g.hit("type-zset2")
		n := g.collSize()
		b = g.encLen(uint64(n), false)
		for i := 0; i < n; i++ {
			b = append(b, g.rstr()...)
			b = append(b, g.bytes8()...)
		}
		return 5, b
	case 7, 8, 9, 10, 11:
		t := []byte{9, 10, 11, 12, 13}[kind-7]
		g.hit(fmt.Sprintf("type-blob%d", t))
		return t, g.rstr()
	case 12:
		g.hit("type-quicklist")
		n := g.collSize()
		b = g.encLen(uint64(n), false)
		for i := 0; i < n; i++ {
			b = append(b, g.rstr()...)
		}
		return 14, b
	default:
		g.hit("type-stream")
		return 15, g.stream()
	}
}

func (g *rdbGen) bytes8() []byte {
	d := make([]byte, 8)
	g.r.Read(d)
	return d
}

func (g *rdbGen) big() uint64 {
	if g.r.Intn(3) == 0 {
		return g.r.Uint64() // above 2^32: needs the 64-bit form
	}
	return uint64(g.r.Intn(100000))
}

func (g *rdbGen) stream() []byte {
	small := func() int { return g.r.Intn(4) }
	n := small()
	b := g.encLen(uint64(n), false)
	for i := 0; i < n; i++ {
		b = append(b, g.rstr()...)
		b = append(b, g.rstr()...)
	}
	b = append(b, g.encLen(g.big(), true)...) // items
	b = append(b, g.encLen(g.big(), true)...) // last id ms
	b = append(b, g.encLen(g.big(), true)...) // last id seq
	ng := small()
	b = append(b, g.encLen(uint64(ng), false)...)
	for i := 0; i < ng; i++ {
		b = append(b, g.rstr()...)
		b = append(b, g.encLen(g.big(), true)...)
		b = append(b, g.encLen(g.big(), true)...)
		np := small()
		b = append(b, g.encLen(uint64(np), false)...)
		for j := 0; j < np; j++ {
			b = append(b, g.bytes8()...)
			b = append(b, g.bytes8()...)
			b = append(b, g.bytes8()...)
			b = append(b, g.encLen(g.big(), true)...)
		}
		nc := small()
		b = append(b, g.encLen(uint64(nc), false)...)
		for j := 0; j < nc; j++ {
			b = append(b, g.rstr()...)
			b = append(b, g.bytes8()...)
			np2 := small()
			b = append(b, g.encLen(uint64(np2), false)...)
			for k := 0; k < np2; k++ {
				b = append(b, g.bytes8()...)
				b = append(b, g.bytes8()...)
			}
		}
	}
	return b
}

func (g *rdbGen) item() []byte {
	var b []byte
	switch g.r.Intn(14) {
	case 0:
		g.hit("item-aux")
		b = append(b, 0xfa)
		if g.r.Intn(3) == 0 {
			g.hit("item-aux-lua")
			b = append(b, g.rawStr([]byte("lua"))...)
		} else {
			b = append(b, g.rstr()...)
		}
		return append(b, g.rstr()...)
	case 1:
		g.hit("item-resizedb")
		b = append(b, 0xfb)
		b = append(b, g.encLen(g.big(), true)...)
		return append(b, g.encLen(g.big(), true)...)
	case 2, 3:
		g.hit("item-selectdb")
		b = append(b, 0xfe)
		return append(b, g.encLen(uint64([]int{0, 1, 15, 63, 64, 300, 70000}[g.r.Intn(7)]), false)...)
	case 4:
		g.hit("item-moduleaux")
		b = append(b, 0xf7)
		b = append(b, g.encLen(g.r.Uint64(), true)...)
		nops := g.r.Intn(5)
		for i := 0; i < nops; i++ {
			switch g.r.Intn(5) {
			case 0:
				b = append(b, g.encLen(1, false)...)
				b = append(b, g.encLen(g.big(), true)...)
			case 1:
				b = append(b, g.encLen(2, false)...)
				b = append(b, g.encLen(g.big(), true)...)
			case 2:
				g.hit("modop-float")
				b = append(b, g.encLen(3, false)...)
				d := make([]byte, 4)
				g.r.Read(d)
				b = append(b, d...)
			case 3:
				b = append(b, g.encLen(4, false)...)
				b = append(b, g.bytes8()...)
			case 4:
				b = append(b, g.encLen(5, false)...)
				b = append(b, g.rstr()...)
			}
		}
		return append(b, g.encLen(0, false)...)
	default:
		g.hit("item-key")
		switch g.r.Intn(4) {
		case 0:
			g.hit("expiry-sec")
			v := []uint32{0, 1, 1600000000, 0xffffffff, g.r.Uint32()}[g.r.Intn(5)]
			b = append(b, 0xfd, byte(v), byte(v>>8), byte(v>>16), byte(v>>24))
		case 1:
			g.hit("expiry-ms")
			v := []uint64{0, 1, 1600000000000, 1<<63 + 5, g.r.Uint64()}[g.r.Intn(5)]
			b = append(b, 0xfc)
			for k := 0; k < 8; k++ {
				b = append(b, byte(v>>(8*uint(k))))
			}
		}
		if g.r.Intn(4) == 0 {
			g.hit("idle")
			b = append(b, 0xf8)
			b = append(b, g.encLen(uint64(g.r.Intn(1<<20)), false)...)
		}
		if g.r.Intn(4) == 0 {
			g.hit("freq")
			b = append(b, 0xf9, byte(g.r.Intn(256)))
		}
		t, v := g.value()
		b = append(b, t)
		b = append(b, g.rstr()...) // key name
		return append(b, v...)
	}
}

func (g *rdbGen) file() []byte {
	b := g.fileCore()
	// bytes after the checksum must stay unread
	tail := g.r.Intn(3)
	for i := 0; i < tail*3; i++ {
		b = append(b, byte(g.r.Intn(256)))
	}
	return b
}

// fileCore: header, items, EOF opcode, checksum — nothing behind it
func (g *rdbGen) fileCore() []byte {
	ver := 1 + g.r.Intn(9)
	b := []byte(fmt.Sprintf("REDIS%04d", ver))
	n := g.r.Intn(9)
	for i := 0; i < n; i++ {
		b = append(b, g.item()...)
	}
	b = append(b, 0xff)
	sum := crc64bitwise(0, b)
	for k := 0; k < 8; k++ {
		b = append(b, byte(sum>>(8*uint(k))))
	}
	return b
}

// chunkFile: one or two hashes whose sizes straddle the (scaled) chunk limit L
func (g *rdbGen) chunkFile(L int) []byte {
	b := []byte(fmt.Sprintf("REDIS%04d", 1+g.r.Intn(9)))
	nk := 1 + g.r.Intn(3)
	for k := 0; k < nk; k++ {
		if g.r.Intn(3) == 0 {
			b = append(b, g.item()...)
			continue
		}
		if g.r.Intn(2) == 0 {
			b = append(b, 0xfc)
			b = append(b, g.bytes8()...)
		}
		b = append(b, 4)
		b = append(b, g.rstr()...)
		n := g.r.Intn(12)
		b = append(b, g.encLen(uint64(n), false)...)
		for i := 0; i < n; i++ {
			for j := 0; j < 2; j++ {
				sz := []int{0, 1, L / 4, L/2 - 2, L / 2, L - 3, L, L + 5}[g.r.Intn(8)]
				if sz < 0 {
					sz = 0
				}
				d := make([]byte, sz)
				g.r.Read(d)
				b = append(b, g.rawStr(d)...)
			}
		}
		g.hit("chunk-hash")
	}
	b = append(b, 0xff)
	sum := crc64bitwise(0, b)
	for k := 0; k < 8; k++ {
		b = append(b, byte(sum>>(8*uint(k))))
	}
	return b
}

func genC01(g *gen) {
	rg := &rdbGen{r: g.r, maxStr: 200, maxColl: 6, stats: map[string]int{}}
	scaled := len(extraArgs) >= 2 && extraArgs[0] == "scaled"
	if scaled {
		L := atoi(extraArgs[1])
		n := g.pick(300, 20000)
		for i := 0; i < n; i++ {
			g.emit("rdb %d wf %s", L, hx(rg.chunkFile(L)))
		}
		return
	}
	n := g.pick(2500, 100000)
	for i := 0; i < n; i++ {
		if i%50 == 0 {
			rg.maxStr, rg.maxColl = 17000, 3
		} else if i%7 == 0 {
			rg.maxStr, rg.maxColl = 300, 110 // around the 100-command batch used downstream
		} else {
			rg.maxStr, rg.maxColl = 120, 6
		}
		f := rg.file()
		g.emit("rdb %d wf %s", realChunkLimit, hx(f))
		if i%5 == 1 {
			// the same well-formed file through another delivery pattern of the underlying io.Reader
			g.emit("rdb %d wf/%s %s", realChunkLimit, deliveryModes[g.r.Intn(len(deliveryModes))]+fmt.Sprint(g.r.Intn(1000)), hx(f))
		}
		if i%100 == 0 {
			g.emit("rdbchan %d wf %s", realChunkLimit, hx(f))
		}
	}
	// malformed stream: flips, truncations, inflated lengths of valid files
	rg.noText = true
	rg.maxStr, rg.maxColl = 40, 4
	m := g.pick(500, 20000)
	for i := 0; i < m; i++ {
		f := rg.file()
		switch g.r.Intn(4) {
		case 0:
			f = f[:g.r.Intn(len(f)+1)]
		case 1, 2:
			k := 1 + g.r.Intn(3)
			for j := 0; j < k; j++ {
				f[g.r.Intn(len(f))] ^= byte(1 << uint(g.r.Intn(8)))
			}
		default:
			f[g.r.Intn(len(f))] = byte(g.r.Intn(256))
		}
		if i%4 == 1 {
			g.emit("rdb %d mut/%s %s", realChunkLimit, deliveryModes[g.r.Intn(len(deliveryModes))]+fmt.Sprint(g.r.Intn(1000)), hx(f))
		} else {
			g.emit("rdb %d mut %s", realChunkLimit, hx(f))
		}
	}
	// header corner cases
	for _, h := range []string{"REDIS0000", "REDIS0010", "REDIS+009", "REDIS-001", "REDIS 009", "REDIS00a9", "REDIX0009", "REDIS9", "REDIS0009", "REDIS+0_9"} {
		b := append([]byte(h), 0xff)
		sum := crc64bitwise(0, b)
		for k := 0; k < 8; k++ {
			b = append(b, byte(sum>>(8*uint(k))))
		}
		g.emit("rdb %d hdr %s", realChunkLimit, hx(b))
	}
}

// FNV-1a 64: fingerprint of long payloads (NOT the CRC-64: the CRC of a payload that ends with its own CRC is 0)
func fnv1a(v []byte) uint64 {
	h := uint64(0xcbf29ce484222325)
	for _, b := range v {
		h ^= uint64(b)
		h *= 0x100000001b3
	}
	return h
}

func valRepr(v []byte) string {
	if len(v) <= 40 {
		return hx(v)
	}
	return fmt.Sprintf("%d:%016x", len(v), fnv1a(v))
}

// delivery: an io.Reader over the file that hands the bytes out in the pattern named by the case flag
// (`wf`, `mut`, `hdr` = everything asked for, then (0, EOF); `/eofN` = the last bytes come together with io.EOF;
// `/oneN` = one byte per Read; `/rndN` = random short reads, seed N, final bytes with or without EOF; `/zerN` =
// random short reads interleaved with (0, nil) returns).  What was parsed must not depend on it.
var deliveryModes = []string{"eof", "one", "rnd", "zer"}

type delivery struct {
	data []byte
	pos  int
	mode string
	r    *rand.Rand
}

func newDelivery(data []byte, flag string) *delivery {
	d := &delivery{data: data}
	if k := strings.IndexByte(flag, '/'); k >= 0 && len(flag) >= k+4 {
		d.mode = flag[k+1 : k+4]
		d.r = rand.New(rand.NewSource(int64(atoi(flag[k+4:]))))
		if d.mode == "one" && d.r.Intn(2) == 0 {
			d.mode = "1eo" // one byte at a time, the last one together with EOF
		}
	}
	return d
}

func (d *delivery) Len() int { return len(d.data) - d.pos }

func (d *delivery) Read(p []byte) (int, error) {
	rem := len(d.data) - d.pos
	if rem == 0 {
		return 0, io.EOF
	}
	n := len(p)
	withEOF := false
	switch d.mode {
	case "eof":
		withEOF = true
	case "one":
		n = 1
	case "1eo":
		n, withEOF = 1, true
	case "rnd":
		n, withEOF = 1+d.r.Intn(9), d.r.Intn(2) == 0
	case "zer":
		if d.r.Intn(3) == 0 {
			return 0, nil
		}
		n = 1 + d.r.Intn(9)
	}
	if n > len(p) {
		n = len(p)
	}
	if n > rem {
		n = rem
	}
	copy(p, d.data[d.pos:d.pos+n])
	d.pos += n
	if withEOF && d.pos == len(d.data) {
		return n, io.EOF
	}
	return n, nil
}

// c01Direct: Header, NextBinEntry until nil, Footer on a loader over rd; unread() = bytes of the file not yet delivered
func c01Direct(rd io.Reader, unread func() int) string {
	var sb strings.Builder
	l := rdb.NewLoader(rd)
	if err := l.Header(); err != nil {
		return "h=err"
	}
	sb.WriteString("h=ok")
	for {
		e, err := l.NextBinEntry()
		if err != nil {
			sb.WriteString(" end=err")
			return sb.String()
		}
		if e == nil {
			break
		}
		fmt.Fprintf(&sb, " E[%d,%s,%d,%d,%d,%d,%d,%d,%s]", e.DB, hx(e.Key), e.Type, e.ExpireAt, e.IdleTime, e.Freq, e.NeedReadLen, e.RealMemberCount, valRepr(e.Value))
	}
	if err := l.Footer(); err != nil {
		sb.WriteString(" end=err")
		return sb.String()
	}
	fmt.Fprintf(&sb, " end=ok:unread=%d", unread())
	return sb.String()
}

func runC01(f []string) string {
	data := unhx(f[3])
	switch f[0] {
	case "rdb":
		rd := newDelivery(data, f[2])
		return c01Direct(rd, rd.Len)
	case "rdbchan":
		// an error on the channel path aborts the process from another goroutine: only take it when the
		// direct path accepts the file (otherwise report the direct result, which then differs from the model)
		direct := runC01([]string{"rdb", f[1], f[2], f[3]})
		if !strings.Contains(direct, "end=ok") {
			return direct
		}
		// … and when the loader accepts it through the same kind of reader the channel path puts in front of it
		// (a bufio.Reader whose refills split the loader's requests)
		br := bufio.NewReaderSize(bytes.NewReader(data), c01ChanBuf)
		if viaBufio := c01Direct(br, func() int { return -1 }); !strings.Contains(viaBufio, "end=ok") {
			return viaBufio
		}
		return runC01chan(data)
	}
	return "badcase"
}
