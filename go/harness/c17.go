package main

// C17: decode mode. Generator of RDB files with KNOWN logical content (classic value types in every encoding
// rdb.DecodeDump supports; serializer written here, on top of the C01 helpers) and runner of the real
// CmdDecode pipeline (hook run.VerifC17Decode) with parallel = 1..8. The output file is parsed line by line
// with encoding/json (trusted), each line turned into a canonical record with the bytes taken from the *64
// fields, and the records are sorted (their order across keys depends on the schedule).

import (
	"bufio"
	"bytes"
	"encoding/base64"
	"encoding/json"
	"fmt"
	"io"
	"math"
	"os"
	"os/exec"
	"path/filepath"
	"runtime"
	"sort"
	"strconv"
	"strings"
	"sync"
	"time"

	"github.com/alibaba/RedisShake/pkg/libs/log"
	run "github.com/alibaba/RedisShake/redis-shake"
)

func init() {
	props["C17"] = &prop{gen: genC17, run: runC17, init: initC17}
}

// ------------------------------------------------------------------ logical items

type c17Scored struct {
	m    []byte
	bits uint64
}

type c17Item struct {
	kind   byte // 's' string 'l' list 'h' hash 't' set 'z' zset 'a' lua script 'x' stream key (undecodable)
	db     uint32
	exp    uint64
	key    []byte
	str    []byte
	list   [][]byte
	pairs  [][2][]byte
	scored []c17Scored
}

func (it *c17Item) text() string {
	join := func(xs [][]byte) string {
		s := make([]string, len(xs))
		for i, x := range xs {
			s[i] = hx(x)
		}
		return strings.Join(s, ".")
	}
	pre := fmt.Sprintf("%c,%d,%d,%s", it.kind, it.db, it.exp, hx(it.key))
	switch it.kind {
	case 'a':
		return "a," + hx(it.str)
	case 'x':
		return pre
	case 's':
		return pre + "," + hx(it.str)
	case 'l', 't':
		return pre + "," + join(it.list)
	case 'h':
		s := make([]string, len(it.pairs))
		for i, p := range it.pairs {
			s[i] = hx(p[0]) + "=" + hx(p[1])
		}
		return pre + "," + strings.Join(s, ".")
	case 'z':
		s := make([]string, len(it.scored))
		for i, p := range it.scored {
			s[i] = fmt.Sprintf("%s=%016x", hx(p.m), p.bits)
		}
		return pre + "," + strings.Join(s, ".")
	}
	panic("bad item kind")
}

// ------------------------------------------------------------------ serializer

type c17Gen struct {
	*rdbGen
	maxElems   int
	binary     bool // binary (non-printable, non-UTF-8) keys and values
	chunkL     int  // chunk limit of the binary that will run the case (for the `chunk` flag)
	zsetBias   bool // half of the keys are sorted sets (D19 stream)
	hashBias   bool // half of the keys are plain (type 4) hashes (chunk stream)
	forceN     int  // > 0: every collection has exactly this many elements, kinds from forceKinds
	forceKinds []int
	flags      map[string]bool
}

func c17NonFiniteBits(b uint64) bool { return (b>>52)&0x7ff == 0x7ff }

// c17LzfCompress: greedy LZF (literal runs ≤ 32, back references of 3..264 bytes within 8192)
func c17LzfCompress(in []byte) []byte {
	var out, lit []byte
	flush := func() {
		for len(lit) > 0 {
			n := len(lit)
			if n > 32 {
				n = 32
			}
			out = append(out, byte(n-1))
			out = append(out, lit[:n]...)
			lit = lit[n:]
		}
	}
	for i := 0; i < len(in); {
		best, boff := 0, 0
		start := i - 8192
		if start < 0 {
			start = 0
		}
		for j := start; j < i; j++ {
			l := 0
			for i+l < len(in) && in[j+l] == in[i+l] && l < 264 {
				l++
			}
			if l > best {
				best, boff = l, i-j
			}
		}
		if best >= 3 {
			flush()
			ll, off := best-2, boff-1
			if ll < 7 {
				out = append(out, byte(ll<<5)|byte(off>>8), byte(off))
			} else {
				out = append(out, byte(7<<5)|byte(off>>8), byte(ll-7), byte(off))
			}
			i += best
		} else {
			lit = append(lit, in[i])
			i++
		}
	}
	flush()
	return out
}

// c17CanonInt: s is the canonical decimal text of an int64 (what strconv.FormatInt prints)
func c17CanonInt(s []byte) (int64, bool) {
	if len(s) == 0 || len(s) > 20 {
		return 0, false
	}
	v, err := strconv.ParseInt(string(s), 10, 64)
	if err != nil || strconv.FormatInt(v, 10) != string(s) {
		return 0, false
	}
	return v, true
}

// encStr: an RDB string object whose decoded value is s, in a randomly chosen admissible encoding
func (g *c17Gen) encStr(s []byte) []byte {
	if v, ok := c17CanonInt(s); ok && g.r.Intn(2) == 0 {
		switch {
		case v >= -128 && v <= 127:
			g.hit("str-int8")
			return []byte{0xC0, byte(v)}
		case v >= -32768 && v <= 32767:
			g.hit("str-int16")
			return []byte{0xC1, byte(v), byte(v >> 8)}
		case v >= -(1<<31) && v <= (1<<31)-1:
			g.hit("str-int32")
			return []byte{0xC2, byte(v), byte(v >> 8), byte(v >> 16), byte(v >> 24)}
		}
	}
	if len(s) >= 4 && len(s) <= 3000 && g.r.Intn(4) == 0 {
		g.hit("str-lzf")
		comp := c17LzfCompress(s)
		b := []byte{0xC3}
		b = append(b, g.encLen(uint64(len(comp)), false)...)
		b = append(b, g.encLen(uint64(len(s)), false)...)
		return append(b, comp...)
	}
	g.hit("str-raw")
	return g.rawStr(s)
}

// blobStr: a serialized ziplist/intset/zipmap as an RDB string (raw or LZF, never int-encoded)
func (g *c17Gen) blobStr(s []byte) []byte {
	if len(s) <= 3000 && g.r.Intn(4) == 0 {
		g.hit("blob-lzf")
		comp := c17LzfCompress(s)
		b := []byte{0xC3}
		b = append(b, g.encLen(uint64(len(comp)), false)...)
		b = append(b, g.encLen(uint64(len(s)), false)...)
		return append(b, comp...)
	}
	return g.rawStr(s)
}

func c17Le(v uint64, n int) []byte {
	b := make([]byte, n)
	for i := 0; i < n; i++ {
		b[i] = byte(v >> (8 * uint(i)))
	}
	return b
}

// zlEntryBody: encoding byte(s) + payload of one ziplist entry whose decoded value is s
func (g *c17Gen) zlEntryBody(s []byte) []byte {
	if v, ok := c17CanonInt(s); ok && g.r.Intn(3) != 0 {
		var forms []int
		if v >= 0 && v <= 12 {
			forms = append(forms, 4)
		}
		if v >= -128 && v <= 127 {
			forms = append(forms, 8)
		}
		if v >= -32768 && v <= 32767 {
			forms = append(forms, 16)
		}
		if v >= -(1<<23) && v <= (1<<23)-1 {
			forms = append(forms, 24)
		}
		if v >= -(1<<31) && v <= (1<<31)-1 {
			forms = append(forms, 32)
		}
		forms = append(forms, 64)
		f := forms[0]
		if g.r.Intn(3) == 0 {
			f = forms[g.r.Intn(len(forms))] // wider than necessary is legal
		}
		g.hit(fmt.Sprintf("zl-int%d", f))
		switch f {
		case 4:
			return []byte{0xf1 + byte(v)}
		case 8:
			return []byte{0xfe, byte(v)}
		case 16:
			return append([]byte{0xc0}, c17Le(uint64(v), 2)...)
		case 24:
			return append([]byte{0xf0}, c17Le(uint64(v), 3)...)
		case 32:
			return append([]byte{0xd0}, c17Le(uint64(v), 4)...)
		default:
			return append([]byte{0xe0}, c17Le(uint64(v), 8)...)
		}
	}
	n := len(s)
	form := 0
	if n > 63 {
		form = 1
	}
	if n > 16383 {
		form = 2
	}
	if g.r.Intn(6) == 0 && form < 2 {
		form++ // wider header than necessary
	}
	g.hit(fmt.Sprintf("zl-str%d", form))
	var b []byte
	switch form {
	case 0:
		b = []byte{byte(n)}
	case 1:
		b = []byte{0x40 | byte(n>>8), byte(n)}
	default:
		b = []byte{0x80, byte(n >> 24), byte(n >> 16), byte(n >> 8), byte(n)}
	}
	return append(b, s...)
}

func (g *c17Gen) ziplist(elems [][]byte) []byte {
	var body []byte
	prev := 0
	tail := 10
	for _, e := range elems {
		var ent []byte
		if prev >= 254 || g.r.Intn(8) == 0 {
			g.hit("zl-prevlen5")
			ent = append([]byte{0xfe}, c17Le(uint64(prev), 4)...)
		} else {
			ent = []byte{byte(prev)}
		}
		ent = append(ent, g.zlEntryBody(e)...)
		tail = 10 + len(body)
		body = append(body, ent...)
		prev = len(ent)
	}
	total := 10 + len(body) + 1
	b := c17Le(uint64(total), 4)
	b = append(b, c17Le(uint64(tail), 4)...)
	cnt := len(elems)
	if cnt > 65535 {
		cnt = 65535 // saturated count: the reader walks the entries
	}
	b = append(b, c17Le(uint64(cnt), 2)...)
	b = append(b, body...)
	return append(b, 0xff)
}

func (g *c17Gen) intset(vals []int64) []byte {
	w := 2
	for _, v := range vals {
		if v < -32768 || v > 32767 {
			if w < 4 {
				w = 4
			}
		}
		if v < -(1<<31) || v > (1<<31)-1 {
			w = 8
		}
	}
	if g.r.Intn(5) == 0 && w < 8 {
		w *= 2
	}
	g.hit(fmt.Sprintf("intset%d", w*8))
	b := c17Le(uint64(w), 4)
	b = append(b, c17Le(uint64(len(vals)), 4)...)
	for _, v := range vals {
		b = append(b, c17Le(uint64(v), w)...)
	}
	return b
}

// zipmap as the code reads it: item lengths < 253 in one byte (the multi-byte forms are D22, C12's business)
func (g *c17Gen) zipmap(pairs [][2][]byte) []byte {
	// zmlen is always the exact count (< 254): with zmlen >= 254 the decoder counts the items and then seeks
	// back to offset 0 — onto the zmlen byte itself — and fails with "invalid zipmap item length" (value
	// decoding is C12's subject; see design_notes/C17.md)
	b := []byte{byte(len(pairs))}
	for _, p := range pairs {
		b = append(b, byte(len(p[0])))
		b = append(b, p[0]...)
		free := 0
		if g.r.Intn(3) == 0 {
			free = g.r.Intn(4)
		}
		b = append(b, byte(len(p[1])), byte(free))
		b = append(b, p[1]...)
		for i := 0; i < free; i++ {
			b = append(b, byte(g.r.Intn(256)))
		}
	}
	return append(b, 0xff)
}

// ------------------------------------------------------------------ random logical values

func (g *c17Gen) intText() []byte {
	var v int64
	switch g.r.Intn(8) {
	case 0:
		v = int64(g.r.Intn(14)) - 1 // around the 4-bit immediates 0..12
	case 1:
		v = int64(g.r.Intn(300)) - 150
	case 2:
		v = []int64{127, 128, -128, -129, 32767, 32768, -32768, -32769, 8388607, 8388608, -8388608, -8388609,
			2147483647, 2147483648, -2147483648, -2147483649, math.MaxInt64, math.MinInt64}[g.r.Intn(18)]
	case 3:
		v = int64(g.r.Uint64())
	case 4:
		v = int64(int32(g.r.Uint32()))
	default:
		v = int64(g.r.Intn(100000)) - 50000
	}
	return []byte(strconv.FormatInt(v, 10))
}

func (g *c17Gen) data(max int) []byte {
	switch g.r.Intn(12) {
	case 0:
		return nil
	case 1:
		return g.intText()
	case 2: // almost-integers: must stay strings
		return [][]byte{[]byte("007"), []byte("-0"), []byte("+5"), []byte("1e3"), []byte(" 1"), []byte("12a"), []byte("9223372036854775808"), []byte("-")}[g.r.Intn(8)]
	case 3: // compressible
		unit := g.rawBytes(1 + g.r.Intn(6))
		n := 4 + g.r.Intn(max+1)
		b := make([]byte, 0, n)
		for len(b) < n {
			b = append(b, unit...)
		}
		return b[:n]
	case 4: // the characters toText and JSON treat specially
		set := []byte{0x00, 0x1f, ' ', '!', '"', '#', '$', '&', '\'', '<', '>', '\\', '/', '~', 0x7f, 0x80, 0xc3, 0xa9, 0xe2, 0x80, 0xa8, 0xed, 0xa0, 0x80, 0xff, 0xfe, '\n', '\r', '\t', '{', '}', '=', '+', '.', ','}
		n := 1 + g.r.Intn(12)
		b := make([]byte, n)
		for i := range b {
			b[i] = set[g.r.Intn(len(set))]
		}
		return b
	case 5: // sizes around the length-form and base64 boundaries
		n := []int{1, 2, 3, 4, 5, 6, 62, 63, 64, 65, 253, 254, 255, 256, 257}[g.r.Intn(15)]
		return g.rawBytes(n)
	case 6:
		if max >= 2000 && g.r.Intn(4) == 0 {
			return g.rawBytes(16380 + g.r.Intn(8)) // 14-bit boundary
		}
		return g.rawBytes(g.r.Intn(max + 1))
	default:
		if !g.binary {
			n := g.r.Intn(max/4 + 2)
			b := make([]byte, n)
			for i := range b {
				b[i] = byte(0x20 + g.r.Intn(0x5f))
			}
			return b
		}
		return g.rawBytes(g.r.Intn(max/4 + 2))
	}
}

func (g *c17Gen) rawBytes(n int) []byte {
	b := make([]byte, n)
	g.r.Read(b)
	return b
}

var c17Scores = []float64{0, math.Copysign(0, -1), 1, -1, 0.1, -2.5, 3.141592653589793, 1e10, 1.5e-7, 17, 12345678.5,
	math.MaxFloat64, -math.MaxFloat64, math.SmallestNonzeroFloat64, 2.2250738585072014e-308, 9007199254740993, 1e21, 1e-7, 123456789012345678}

func (g *c17Gen) score(allowNonFinite bool) float64 {
	if allowNonFinite && g.r.Intn(3) == 0 {
		return []float64{math.Inf(1), math.Inf(-1), math.NaN()}[g.r.Intn(3)]
	}
	switch g.r.Intn(4) {
	case 0:
		return c17Scores[g.r.Intn(len(c17Scores))]
	case 1:
		return float64(g.r.Intn(2000) - 1000)
	case 2:
		for {
			f := math.Float64frombits(g.r.Uint64())
			if !math.IsInf(f, 0) && !math.IsNaN(f) {
				return f
			}
		}
	default:
		return g.r.NormFloat64() * 1000
	}
}

// c17ScoreText: how Redis writes a score as text ("%.17g"; inf/-inf/nan)
func c17ScoreText(f float64) string {
	switch {
	case math.IsInf(f, 1):
		return "inf"
	case math.IsInf(f, -1):
		return "-inf"
	case math.IsNaN(f):
		return "nan"
	}
	return strconv.FormatFloat(f, 'g', 17, 64)
}

// c17ScoreBits: the float64 the decoder ends up with for that text (math.NaN() for "nan")
func c17ScoreBits(f float64) uint64 {
	if math.IsNaN(f) {
		return math.Float64bits(math.NaN())
	}
	return math.Float64bits(f)
}

// ------------------------------------------------------------------ one key

// valueBytes picks a kind, an encoding and a logical value; returns type byte + serialized value
func (g *c17Gen) value(it *c17Item, kind int, nonFinite bool) (byte, []byte) {
	n := 0
	switch g.r.Intn(6) {
	case 0:
		n = 0
	case 1:
		n = 1
	default:
		n = g.r.Intn(g.maxElems + 1)
	}
	if g.forceN > 0 {
		n = g.forceN
	}
	maxS := g.maxStr
	elems := func(small bool) [][]byte {
		xs := make([][]byte, n)
		for i := range xs {
			if small {
				xs[i] = g.data(200)
			} else {
				xs[i] = g.data(maxS)
			}
		}
		return xs
	}
	var b []byte
	switch kind {
	case 0: // string
		it.kind = 's'
		it.str = g.data(maxS)
		g.hit("type-string")
		return 0, g.encStr(it.str)
	case 1: // list, linked
		it.kind, it.list = 'l', elems(false)
		g.hit("type-list")
		b = g.encLen(uint64(n), false)
		for _, e := range it.list {
			b = append(b, g.encStr(e)...)
		}
		return 1, b
	case 2: // list, ziplist
		it.kind, it.list = 'l', elems(false)
		g.hit("type-list-ziplist")
		return 10, g.blobStr(g.ziplist(it.list))
	case 3: // list, quicklist
		it.kind = 'l'
		g.hit("type-quicklist")
		nodes := g.r.Intn(4)
		b = g.encLen(uint64(nodes), false)
		for k := 0; k < nodes; k++ {
			m := g.r.Intn(g.maxElems/2 + 2)
			node := make([][]byte, m)
			for i := range node {
				node[i] = g.data(maxS)
			}
			it.list = append(it.list, node...)
			b = append(b, g.blobStr(g.ziplist(node))...)
		}
		return 14, b
	case 4: // set
		it.kind, it.list = 't', elems(false)
		g.hit("type-set")
		b = g.encLen(uint64(n), false)
		for _, e := range it.list {
			b = append(b, g.encStr(e)...)
		}
		return 2, b
	case 5: // set, intset
		it.kind = 't'
		g.hit("type-intset")
		vals := make([]int64, n)
		for i := range vals {
			v, _ := c17CanonInt(g.intText())
			vals[i] = v
			it.list = append(it.list, []byte(strconv.FormatInt(v, 10)))
		}
		return 11, g.blobStr(g.intset(vals))
	case 6, 7: // hash
		it.kind = 'h'
		it.pairs = make([][2][]byte, n)
		for i := range it.pairs {
			it.pairs[i] = [2][]byte{g.data(maxS), g.data(maxS)}
		}
		if kind == 6 {
			g.hit("type-hash")
			b = g.encLen(uint64(n), false)
			for i, p := range it.pairs {
				b = append(b, g.encStr(p[0])...)
				b = append(b, g.encStr(p[1])...)
				if g.chunkL > 0 && len(b) > g.chunkL && i != n-1 {
					g.flags["chunk"] = true
				}
			}
			return 4, b
		}
		g.hit("type-hash-ziplist")
		flat := make([][]byte, 0, 2*n)
		for _, p := range it.pairs {
			flat = append(flat, p[0], p[1])
		}
		return 13, g.blobStr(g.ziplist(flat))
	case 8: // hash, zipmap
		it.kind = 'h'
		g.hit("type-zipmap")
		if n > 253 {
			n = 253
		}
		it.pairs = make([][2][]byte, n)
		for i := range it.pairs {
			f, v := g.data(200), g.data(200)
			if len(f) > 252 {
				f = f[:252]
			}
			if len(v) > 252 {
				v = v[:252]
			}
			it.pairs[i] = [2][]byte{f, v}
		}
		return 9, g.blobStr(g.zipmap(it.pairs))
	default: // zset: 9 = text scores (type 3), 10 = binary (type 5), 11 = ziplist (type 12)
		it.kind = 'z'
		it.scored = make([]c17Scored, n)
		fs := make([]float64, n)
		for i := range it.scored {
			fs[i] = g.score(nonFinite)
			it.scored[i] = c17Scored{g.data(maxS), c17ScoreBits(fs[i])}
			if c17NonFiniteBits(it.scored[i].bits) {
				g.flags["inf"] = true
			}
		}
		switch kind {
		case 9:
			g.hit("type-zset")
			b = g.encLen(uint64(n), false)
			for i, p := range it.scored {
				b = append(b, g.encStr(p.m)...)
				f := fs[i]
				switch {
				case math.IsNaN(f) && g.r.Intn(2) == 0:
					b = append(b, 253)
				case math.IsInf(f, 1) && g.r.Intn(2) == 0:
					b = append(b, 254)
				case math.IsInf(f, -1) && g.r.Intn(2) == 0:
					b = append(b, 255)
				default:
					t := c17ScoreText(f)
					b = append(b, byte(len(t)))
					b = append(b, t...)
				}
			}
			return 3, b
		case 10:
			g.hit("type-zset2")
			b = g.encLen(uint64(n), false)
			for _, p := range it.scored {
				b = append(b, g.encStr(p.m)...)
				b = append(b, c17Le(p.bits, 8)...)
			}
			return 5, b
		default:
			g.hit("type-zset-ziplist")
			flat := make([][]byte, 0, 2*n)
			for i, p := range it.scored {
				flat = append(flat, p.m, []byte(c17ScoreText(fs[i])))
			}
			return 12, g.blobStr(g.ziplist(flat))
		}
	}
}

var c17DBs = []uint32{0, 0, 0, 1, 2, 15, 63, 64, 300, 70000, 4294967295}

// file builds a whole RDB file for freshly drawn items. nonFinite: allow ±Inf/NaN scores; streams: allow
// keys whose value DecodeDump rejects.
func (g *c17Gen) file(nitems int, nonFinite, streams bool) ([]*c17Item, []byte) {
	return g.fileTail(nitems, nonFinite, streams, 0)
}

// fileTail: as file, followed by bigTail keys that are large collections (long blocks at the end of the run)
func (g *c17Gen) fileTail(nitems int, nonFinite, streams bool, bigTail int) ([]*c17Item, []byte) {
	b := []byte(fmt.Sprintf("REDIS%04d", 1+g.r.Intn(9)))
	var items []*c17Item
	curDB := uint32(0)
	noise := func() {
		switch g.r.Intn(10) {
		case 0: // aux fields other than "lua" are logged and skipped by the loader
			b = append(b, 0xfa)
			b = append(b, g.rawStr([]byte([]string{"redis-ver", "redis-bits", "ctime", "used-mem", "luax", "LUA"}[g.r.Intn(6)]))...)
			b = append(b, g.encStr(g.data(40))...)
			g.hit("noise-aux")
		case 1:
			b = append(b, 0xfb)
			b = append(b, g.encLen(uint64(g.r.Intn(1000)), false)...)
			b = append(b, g.encLen(uint64(g.r.Intn(1000)), false)...)
			g.hit("noise-resizedb")
		}
	}
	for i := 0; i < nitems+bigTail; i++ {
		noise()
		it := &c17Item{}
		if i >= nitems {
			g.maxElems = 150 + g.r.Intn(400)
		}
		if i < nitems && g.r.Intn(12) == 0 {
			// Lua script: valid UTF-8 text (the aux line prints it as a raw JSON string, see design notes)
			it.kind = 'a'
			n := g.r.Intn(60)
			s := make([]byte, 0, n)
			for len(s) < n {
				switch g.r.Intn(12) {
				case 0:
					s = append(s, []byte("é")...)
				case 1:
					s = append(s, []byte("中")...)
				case 2:
					s = append(s, []byte{'"', '\\', '\n', '\t', 0x01, '<', '>', '&', 0x7f}[g.r.Intn(9)])
				default:
					s = append(s, byte(0x20+g.r.Intn(0x5f)))
				}
			}
			it.str = s
			b = append(b, 0xfa)
			b = append(b, g.rawStr([]byte("lua"))...)
			b = append(b, g.encStr(s)...)
			g.hit("item-lua")
			items = append(items, it)
			continue
		}
		if g.r.Intn(4) == 0 {
			db := c17DBs[g.r.Intn(len(c17DBs))]
			b = append(b, 0xfe)
			b = append(b, g.encLen(uint64(db), false)...)
			curDB = db
			g.hit("selectdb")
			noise()
		}
		it.db = curDB
		switch g.r.Intn(4) {
		case 0:
			v := []uint32{0, 1, 1600000000, 0xffffffff, g.r.Uint32()}[g.r.Intn(5)]
			b = append(b, 0xfd)
			b = append(b, c17Le(uint64(v), 4)...)
			it.exp = uint64(v) * 1000
			g.hit("expiry-sec")
		case 1:
			v := []uint64{0, 1, 1600000000000, 1<<63 + 5, 1<<64 - 1, g.r.Uint64(), 9007199254740993}[g.r.Intn(7)]
			b = append(b, 0xfc)
			b = append(b, c17Le(v, 8)...)
			it.exp = v
			g.hit("expiry-ms")
		}
		if g.r.Intn(6) == 0 {
			b = append(b, 0xf8)
			b = append(b, g.encLen(uint64(g.r.Intn(1<<20)), false)...)
		}
		if g.r.Intn(6) == 0 {
			b = append(b, 0xf9, byte(g.r.Intn(256)))
		}
		it.key = g.data(g.maxStr)
		if streams && g.r.Intn(3) == 0 {
			it.kind = 'x'
			b = append(b, 15)
			b = append(b, g.encStr(it.key)...)
			b = append(b, g.stream()...)
			g.flags["undecodable"] = true
			g.hit("type-stream")
		} else {
			kind := g.r.Intn(12)
			if g.zsetBias && g.r.Intn(2) == 0 {
				kind = 9 + g.r.Intn(3)
			}
			if g.hashBias && g.r.Intn(2) == 0 {
				kind = 6
			}
			if i >= nitems {
				kind = []int{1, 2, 4, 6, 7, 9, 10, 11}[g.r.Intn(8)]
			}
			if g.forceN > 0 {
				kind = g.forceKinds[g.r.Intn(len(g.forceKinds))]
			}
			t, v := g.value(it, kind, nonFinite)
			b = append(b, t)
			b = append(b, g.encStr(it.key)...)
			b = append(b, v...)
		}
		items = append(items, it)
	}
	noise()
	b = append(b, 0xff)
	b = append(b, c17Le(crc64bitwise(0, b), 8)...)
	return items, b
}

func (g *c17Gen) emitDec(gg *gen, parallel int, items []*c17Item, file []byte) {
	var fl []string
	for k := range g.flags {
		fl = append(fl, k)
	}
	sort.Strings(fl)
	if len(fl) == 0 {
		fl = []string{"ok"}
	}
	ts := make([]string, len(items))
	for i, it := range items {
		ts[i] = it.text()
	}
	its := strings.Join(ts, "/")
	if len(ts) == 0 {
		its = "-"
	}
	gg.emit("dec %d %s %s %s", parallel, strings.Join(fl, "+"), its, hx(file))
	g.flags = map[string]bool{}
}

func newC17Gen(g *gen) *c17Gen {
	return &c17Gen{rdbGen: &rdbGen{r: g.r, maxStr: 120, maxColl: 6, stats: map[string]int{}}, maxElems: 6,
		binary: true, flags: map[string]bool{}}
}

func genC17(g *gen) {
	cg := newC17Gen(g)
	if g.tier == "corpus" { // the fixed witnesses kept in corpus/C17 (regenerate with `vharness gen C17 1 corpus`)
		genC17Corpus(g, cg)
		return
	}
	if len(extraArgs) >= 2 && extraArgs[0] == "scaled" {
		// hashes straddling the (scaled) chunk limit: the loader splits them, DecodeDump cannot read the pieces
		L := atoi(extraArgs[1])
		cg.chunkL = L
		cg.hashBias = true
		if L == 64 {
			// the Lean `chunkWitnessFile` (theorem counterexample_chunked_hash_bytes), replayed on the real code
			it := &c17Item{kind: 'h', key: []byte("h")}
			body := []byte{4, 1, 'h', 3}
			for _, c := range []byte("abc") {
				v := bytes.Repeat([]byte{c - 'a' + 'x'}, 40)
				it.pairs = append(it.pairs, [2][]byte{{c}, v})
				body = append(append(body, 1, c, 40), v...)
			}
			file := append([]byte("REDIS0009"), body...)
			file = append(file, 0xff)
			file = append(file, c17Le(crc64bitwise(0, file), 8)...)
			cg.flags["chunk"] = true
			cg.emitDec(g, 2, []*c17Item{it}, file)
		}
		n := g.pick(80, 1500)
		for i := 0; i < n; i++ {
			cg.maxStr, cg.maxElems = L/2, 8
			items, file := cg.file(1+g.r.Intn(4), false, false)
			cg.emitDec(g, 1+g.r.Intn(8), items, file)
		}
		return
	}
	// 1. small files, every type/encoding, binary data, parallel 1..8
	n := g.pick(260, 6000)
	for i := 0; i < n; i++ {
		switch {
		case i%40 == 7:
			cg.maxStr, cg.maxElems = 17000, 3
		case i%9 == 0:
			cg.maxStr, cg.maxElems = 300, 120
		default:
			cg.maxStr, cg.maxElems = 120, 7
		}
		cg.binary = i%5 != 0
		items, file := cg.file(g.r.Intn(10), false, false)
		cg.emitDec(g, 1+g.r.Intn(8), items, file)
	}
	// 1b. a few files with LARGE collections (thousands of tiny elements): element indices and per-element lines
	//     far beyond any internal batch size
	nbig := g.pick(4, 40)
	for i := 0; i < nbig; i++ {
		cg.maxStr, cg.maxElems = 3, []int{5000, 9000, 70000, 140000}[i%4] // the last two reach ziplists whose 16-bit count saturates (65535)
		cg.binary = i%2 == 0
		items, file := cg.file(1+g.r.Intn(3), false, false)
		cg.emitDec(g, 1+g.r.Intn(4), items, file)
	}
	// 1c. ziplists around the point where their 16-bit entry count saturates (65535 = "walk the entries")
	for i, nz := 0, g.pick(2, 12); i < nz; i++ {
		cg.maxStr, cg.binary = 2, i%2 == 0
		cg.forceN = []int{65536, 32768, 65535, 70001, 32767, 40000}[i%6]       // hash/zset ziplists hold two entries per element
		cg.forceKinds = [][]int{{2}, {7, 11}, {2}, {2}, {7, 11}, {7, 11}}[i%6] // 2 list, 7 hash, 11 sorted set — all ziplist-encoded
		items, file := cg.file(1, false, false)
		cg.forceN = 0
		cg.emitDec(g, 1+g.r.Intn(3), items, file)
	}
	// 2. many keys x every parallel 1..8 on the SAME file (schedule must not matter); big blocks at the end so
	//    that workers finish at very different times
	m := g.pick(3, 12)
	for i := 0; i < m; i++ {
		cg.maxStr, cg.maxElems = 60, 5
		nk := 150 + g.r.Intn(g.pick(250, 1500))
		items, file := cg.fileTail(nk, false, false, g.r.Intn(3))
		for p := 1; p <= 8; p++ {
			cg.emitDec(g, p, items, file)
		}
	}
	k := g.pick(40, 800)
	for i := 0; i < k; i++ {
		cg.maxStr, cg.maxElems = 40, 4
		items, file := cg.fileTail(20+g.r.Intn(60), false, false, 1+g.r.Intn(3))
		cg.emitDec(g, 2+g.r.Intn(7), items, file)
	}
	// 3. non-finite scores (D19, repaired: printed as "inf"/"-inf"/"nan") and values DecodeDump rejects (model: abort)
	d := g.pick(24, 600)
	for i := 0; i < d; i++ {
		cg.maxStr, cg.maxElems = 40, 5
		cg.zsetBias = i%3 != 2
		items, file := cg.file(1+g.r.Intn(8), i%3 != 2, i%3 == 2)
		cg.emitDec(g, 1+g.r.Intn(8), items, file)
	}
	cg.zsetBias = false
	// 4. base64 against Go's encoder / decoder
	nb := g.pick(300, 20000)
	for i := 0; i < nb; i++ {
		l := g.r.Intn(40)
		if i%10 == 0 {
			l = g.r.Intn(700)
		}
		data := g.bytes(l)
		g.emit("b64 %s", hx(data))
		enc := []byte(base64.StdEncoding.EncodeToString(data)) // only to build decoder inputs
		switch g.r.Intn(5) {
		case 0: // intact
		case 1:
			if len(enc) > 0 {
				enc = enc[:g.r.Intn(len(enc))]
			}
		case 2:
			if len(enc) > 0 {
				alphabet := "ABCDEFGHIJKLMNOPQRSTUVWXYZabcdefghijklmnopqrstuvwxyz0123456789+/=-_ @."
				enc[g.r.Intn(len(enc))] = alphabet[g.r.Intn(len(alphabet))]
			}
		case 3:
			enc = append(enc, "=A=="[g.r.Intn(4)])
		default:
			enc = g.bytes(g.r.Intn(12))
		}
		clean := enc[:0:0]
		for _, c := range enc {
			if c != '\n' && c != '\r' { // Go's decoder skips CR/LF; the specification decoder does not
				clean = append(clean, c)
			}
		}
		g.emit("b64d %s", hx(clean))
	}
	if g.thorough() {
		// true scale: one hash above 16 MiB (finding chunked-hash replayed without the scaled build)
		g.emit("decbig %d %d %d", 1+g.r.Intn(8), 20, 1024*1024)
	}
}

// fixed witnesses (corpus)
func genC17Corpus(g *gen, cg *c17Gen) {
	mk := func(items []*c17Item, body []byte) []byte {
		b := append([]byte("REDIS0009"), body...)
		b = append(b, 0xff)
		return append(b, c17Le(crc64bitwise(0, b), 8)...)
	}
	// the Lean `infWitness`: "a" = "x"; zset "z" = {m: +Inf} (binary score form)
	items := []*c17Item{{kind: 's', key: []byte("a"), str: []byte("x")},
		{kind: 'z', key: []byte("z"), scored: []c17Scored{{[]byte("m"), 0x7ff0000000000000}}}}
	body := []byte{0, 1, 'a', 1, 'x', 5, 1, 'z', 1, 1, 'm', 0, 0, 0, 0, 0, 0, 0xf0, 0x7f}
	cg.flags["inf"] = true
	cg.emitDec(g, 1, items, mk(items, body))
	// -Inf through the text form 255 of type 3, NaN through a ziplist score "nan"
	items = []*c17Item{{kind: 'z', key: []byte("z"), scored: []c17Scored{{[]byte("m"), 0xfff0000000000000}}}}
	cg.flags["inf"] = true
	cg.emitDec(g, 3, items, mk(items, []byte{3, 1, 'z', 1, 1, 'm', 255}))
	// empty file, and a file with only skipped aux fields
	cg.emitDec(g, 4, nil, mk(nil, nil))
	cg.emitDec(g, 8, nil, mk(nil, []byte{0xfa, 3, 'v', 'e', 'r', 1, '7'}))
	// binary key, list indexes, negative zero, expiry above 2^63, db 300
	items = []*c17Item{
		{kind: 'l', db: 300, exp: 1<<63 + 5, key: []byte{0xff, 0x00, '"'}, list: [][]byte{{0x80}, nil, []byte("-7")}},
		{kind: 'z', db: 300, key: []byte("z"), scored: []c17Scored{{[]byte{0}, 0x8000000000000000}}},
		{kind: 'a', str: []byte("return 1")},
	}
	body = []byte{0xfe, 0x41, 0x2c, 0xfc, 5, 0, 0, 0, 0, 0, 0, 0x80, 1, 3, 0xff, 0x00, '"', 3, 1, 0x80, 0, 0xC0, 0xf9,
		5, 1, 'z', 1, 1, 0, 0, 0, 0, 0, 0, 0, 0, 0x80,
		0xfa, 3, 'l', 'u', 'a', 8, 'r', 'e', 't', 'u', 'r', 'n', ' ', '1'}
	for p := 1; p <= 8; p += 3 {
		cg.emitDec(g, p, items, mk(items, body))
	}
}

// ------------------------------------------------------------------ runner

var c17Child struct {
	sync.Mutex
	cmd    *exec.Cmd
	in     io.WriteCloser
	out    *bufio.Reader
	errBuf *c17Tail
}

type c17Tail struct {
	sync.Mutex
	b []byte
}

func (t *c17Tail) Write(p []byte) (int, error) {
	t.Lock()
	t.b = append(t.b, p...)
	if len(t.b) > 1<<16 {
		t.b = t.b[len(t.b)-1<<15:]
	}
	t.Unlock()
	return len(p), nil
}

func (t *c17Tail) String() string {
	t.Lock()
	defer t.Unlock()
	return string(t.b)
}

func initC17() {
	if os.Getenv("VERIF_C17_CHILD") != "" {
		log.SetLevel(log.LEVEL_NONE) // the pipeline logs every aux field and a statistics line per second
		return
	}
	// leftovers of interrupted earlier runs (older than 10 minutes; concurrent runs use other pids)
	if ents, err := os.ReadDir(c17TmpDir()); err == nil {
		for _, e := range ents {
			if fi, err := e.Info(); err == nil && time.Since(fi.ModTime()) > 10*time.Minute {
				os.Remove(filepath.Join(c17TmpDir(), e.Name()))
			}
		}
	}
}

func c17TmpDir() string {
	d := filepath.Join(filepath.Dir(os.Args[0]), "tmp", "c17")
	os.MkdirAll(d, 0755)
	return d
}

func c17Spawn() error {
	cmd := exec.Command(os.Args[0], "run", "C17")
	cmd.Env = append(os.Environ(), "VERIF_C17_CHILD=1")
	in, err := cmd.StdinPipe()
	if err != nil {
		return err
	}
	out, err := cmd.StdoutPipe()
	if err != nil {
		return err
	}
	tail := &c17Tail{}
	cmd.Stderr = tail
	if err := cmd.Start(); err != nil {
		return err
	}
	c17Child.cmd, c17Child.in, c17Child.out, c17Child.errBuf = cmd, in, bufio.NewReaderSize(out, 1<<20), tail
	return nil
}

func c17Kill() {
	if c17Child.cmd != nil {
		c17Child.in.Close()
		c17Child.cmd.Process.Kill()
		c17Child.cmd.Wait()
		// a child that died left its current input/output files behind
		pid := c17Child.cmd.Process.Pid
		for _, pat := range []string{"in-%d-*", "out-%d-*"} {
			ms, _ := filepath.Glob(filepath.Join(c17TmpDir(), fmt.Sprintf(pat, pid)))
			for _, m := range ms {
				os.Remove(m)
			}
		}
		c17Child.cmd = nil
	}
}

// runC17: the decode pipeline owns its goroutines and aborts with log.Panic* (os.Exit in the real tool, a panic
// in a worker goroutine under N2), which cannot be recovered in-process: pipeline cases run in a child
// process that is restarted when it dies. Result `abort` = the tool exited through log.Panic*;
// `crash` = it died otherwise (Go runtime panic); `timeout` = it did not return.
func runC17(f []string) string {
	switch f[0] {
	case "b64":
		return hx([]byte(base64.StdEncoding.EncodeToString(unhx(f[1]))))
	case "b64d":
		d, err := base64.StdEncoding.DecodeString(string(unhx(f[1])))
		if err != nil {
			return "err"
		}
		return "ok:" + hx(d)
	case "dec", "decbig":
	default:
		return "badcase"
	}
	if os.Getenv("VERIF_C17_CHILD") != "" {
		return c17InProcess(f)
	}
	c17Child.Lock()
	defer c17Child.Unlock()
	if c17Child.cmd == nil {
		if err := c17Spawn(); err != nil {
			return "spawnerr"
		}
	}
	if _, err := io.WriteString(c17Child.in, strings.Join(f, " ")+"\n"); err != nil {
		c17Kill()
		return "crash"
	}
	type res struct {
		line string
		err  error
	}
	ch := make(chan res, 1)
	rd := c17Child.out
	go func() {
		l, err := rd.ReadString('\n')
		ch <- res{l, err}
	}()
	limit := 60 * time.Second
	if f[0] == "decbig" {
		limit = 300 * time.Second
	}
	select {
	case r := <-ch:
		if r.err != nil {
			tail := c17Child.errBuf
			c17Kill()
			if strings.Contains(tail.String(), "VerifExit") {
				return "abort"
			}
			if os.Getenv("VERIF_DEBUG") != "" {
				return "crash " + strings.ReplaceAll(tail.String(), "\n", " | ")
			}
			return "crash"
		}
		return strings.TrimRight(r.line, "\n")
	case <-time.After(limit):
		c17Kill()
		return "timeout"
	}
}

var c17Seq int

// c17InProcess runs a pipeline case several times (the schedule differs from run to run): all runs must give
// the same answer; the first deviating one is reported. A run that kills the process ends the case at once.
func c17InProcess(f []string) string {
	// repeat while the case has used less than 25 ms (small files: up to 16 schedules; big files: one run)
	reps, budget := 1, 25*time.Millisecond
	if f[0] == "dec" {
		reps = 16
	}
	t0 := time.Now()
	first := c17Once(f)
	for i := 1; i < reps && time.Since(t0) < budget; i++ {
		if r := c17Once(f); r != first {
			if strings.HasPrefix(first, "ok") && !strings.Contains(first, "stray") {
				return r + " (schedule-dependent: another run of the same case gave a different answer)"
			}
			return first + " (schedule-dependent: another run of the same case gave a different answer)"
		}
	}
	return first
}

func c17Once(f []string) string {
	parallel := atoi(f[1])
	var data []byte
	expectN := -1
	if f[0] == "decbig" {
		np, sz := atoi(f[2]), atoi(f[3])
		var b bytes.Buffer
		b.WriteString("REDIS0009")
		b.Write([]byte{4, 3, 'b', 'i', 'g', byte(np)})
		val := bytes.Repeat([]byte{'v'}, sz)
		for i := 0; i < np; i++ {
			fld := fmt.Sprintf("field%03d", i)
			b.WriteByte(byte(len(fld)))
			b.WriteString(fld)
			b.Write([]byte{0x80, byte(sz >> 24), byte(sz >> 16), byte(sz >> 8), byte(sz)})
			b.Write(val)
		}
		b.WriteByte(0xff)
		data = b.Bytes()
		data = append(data, c17Le(crc64bitwise(0, data), 8)...)
		expectN = np
	} else {
		data = unhx(f[4])
	}
	c17Seq++
	dir := c17TmpDir()
	in := filepath.Join(dir, fmt.Sprintf("in-%d-%d.rdb", os.Getpid(), c17Seq))
	out := filepath.Join(dir, fmt.Sprintf("out-%d-%d.json", os.Getpid(), c17Seq))
	if err := os.WriteFile(in, data, 0644); err != nil {
		return "tmperr"
	}
	defer os.Remove(in)
	defer os.Remove(out)
	base := runtime.NumGoroutine()
	run.VerifC17Decode(in, out, parallel)
	// `decode` has returned: whatever is not in the file now was not printed by the run
	res, err := os.ReadFile(out)
	// ... and every goroutine of the pipeline must be finished (property: the run ENDS). Wait for stragglers so
	// that a goroutine that dies after `decode` returned (send on a closed channel …) kills the child while
	// THIS case is still the current one, and report goroutines that never finish.
	stray := ""
	for dl := time.Now().Add(3 * time.Second); runtime.NumGoroutine() > base; time.Sleep(100 * time.Microsecond) {
		if time.Now().After(dl) {
			stray = " stray-goroutines"
			break
		}
	}
	if err != nil {
		return "nooutput"
	}
	var recs []string
	for _, line := range bytes.Split(res, []byte{'\n'}) {
		if len(line) == 0 {
			continue
		}
		recs = append(recs, c17Canon(line))
	}
	if expectN >= 0 {
		return fmt.Sprintf("ok n=%d", len(recs)) + stray
	}
	sort.Strings(recs)
	return strings.Join(append([]string{"ok"}, recs...), " ") + stray
}

// c17Canon: one output line → canonical record. Binary data ONLY from the *64 fields (base64-decoded with Go's
// decoder); numbers through json.Number (exact for uint64). A field the consumer needs but cannot read is `?`.
func c17Canon(line []byte) string {
	dec := json.NewDecoder(bytes.NewReader(line))
	dec.UseNumber()
	var m map[string]interface{}
	if err := dec.Decode(&m); err != nil {
		return "?json"
	}
	str := func(k string) string {
		if s, ok := m[k].(string); ok {
			return hx([]byte(s))
		}
		return "?"
	}
	b64 := func(k string) string {
		if s, ok := m[k].(string); ok {
			if d, err := base64.StdEncoding.DecodeString(s); err == nil {
				return hx(d)
			}
		}
		return "?"
	}
	num := func(k string) string {
		if n, ok := m[k].(json.Number); ok {
			if v, err := strconv.ParseUint(string(n), 10, 64); err == nil {
				return strconv.FormatUint(v, 10)
			}
		}
		return "?"
	}
	ty, _ := m["type"].(string)
	if ty == "aux" {
		return fmt.Sprintf("aux:k=%s:v=%s", str("key"), str("value64"))
	}
	pre := fmt.Sprintf("%s:%s:%s:%s:%s", ty, num("db"), num("expireat"), b64("key64"), str("key"))
	switch ty {
	case "string":
		return pre + ":v=" + b64("value64")
	case "list":
		return pre + ":i=" + num("index") + ":v=" + b64("value64")
	case "hash":
		return pre + ":f=" + b64("field64") + ":ft=" + str("field") + ":v=" + b64("value64")
	case "set":
		return pre + ":m=" + b64("member64") + ":mt=" + str("member")
	case "zset":
		sc := "?"
		if n, ok := m["score"].(json.Number); ok {
			if v, err := strconv.ParseFloat(string(n), 64); err == nil {
				sc = fmt.Sprintf("%016x", math.Float64bits(v))
			}
		} else if t, ok := m["score"].(string); ok {
			// JSON has no number for the non-finite scores: they are printed the way Redis prints them
			switch t {
			case "inf":
				sc = fmt.Sprintf("%016x", math.Float64bits(math.Inf(1)))
			case "-inf":
				sc = fmt.Sprintf("%016x", math.Float64bits(math.Inf(-1)))
			case "nan":
				sc = fmt.Sprintf("%016x", math.Float64bits(math.NaN()))
			}
		}
		return pre + ":m=" + b64("member64") + ":mt=" + str("member") + ":s=" + sc
	}
	return "?type:" + hx([]byte(ty))
}
