package main

// C13 — key filtering of multi-key commands.
//
// Case lines (bytes as hex, "-" = empty byte string; prefix lists: "-" = empty list, elements joined by ",",
// the empty prefix written "_"):
//   d   <whitelist> <blacklist> <cmd> <arg>…          filter.HandleFilterKeyWithCommand(cmd, args) as it stands
//   w   <whitelist> <blacklist> <cmd> <arg>…          redis.ParseArgs([cmd, args…]) then HandleFilterKeyWithCommand,
//                                                     i.e. the pair of calls made by dbSync.parseSourceCommand
//   s   <whitelist> <blacklist> <cmd> <arg>…          the RESP encoding of [cmd, args…] through the real
//                                                     dbSync.parseSourceCommand; what it queues for the target
//   explicit-row:getMatchKeys(first,last,step)-model-tie <whitelist> <blacklist> <first> <last> <step> <arg>…
//                                                     getMatchKeys on an explicit row (model tie, incl. panics)
// Result lines: `drop` | `fwd <arg>…` | `panic` | `hang` | `parseerr`; for row: `ok <0|1> <arg>…` | `panic` | `hang`.

import (
	"fmt"
	"io/ioutil"
	"sort"
	"strconv"
	"strings"
	"sync"
	"time"

	"github.com/alibaba/RedisShake/pkg/libs/log"
	"github.com/alibaba/RedisShake/pkg/redis"
	conf "github.com/alibaba/RedisShake/redis-shake/configure"
	"github.com/alibaba/RedisShake/redis-shake/dbSync"
	"github.com/alibaba/RedisShake/redis-shake/filter"
)

// the long op name keeps these model-tie cases behind the spec-level d/w cases when ./check picks the shortest replay
const c13RowOp = "explicit-row:getMatchKeys(first,last,step)-model-tie"

func init() {
	props["C13"] = &prop{gen: genC13, run: runC13, init: func() {
		log.StdLog = log.New(ioutil.Discard, "") // parseSourceCommand logs every start and every end of input
		conf.Options.TargetDB = -1
	}}
}

// ---------------------------------------------------------------- generator

// Key positions the GENERATOR assumes, only to decide which pass/fail patterns to enumerate exhaustively
// (a third, independent copy; a mistake here costs coverage, never soundness).
var c13All = strings.Fields("del unlink sinterstore sunionstore sdiffstore pfmerge")
var c13AllButLast = strings.Fields("brpop blpop")
var c13FirstTwo = strings.Fields("brpoplpush rpoplpush smove rename renamenx")
var c13EverySecond = strings.Fields("mset msetnx")
var c13AfterSub = strings.Fields("bitop")
var c13Single = strings.Fields("set setnx setex psetex append setbit bitfield setrange incr decr rpush lpush rpushx lpushx " +
	"linsert rpop lpop lset ltrim lrem sadd srem spop zadd zincrby zrem zremrangebyscore zremrangebyrank zremrangebylex " +
	"hset hsetnx hmset hincrby hincrbyfloat hdel incrby decrby incrbyfloat getset move expire expireat pexpire pexpireat " +
	"persist restore restore-asking geoadd pfadd")

var c13NotInTable = []string{"get", "mget", "exists", "zunionstore", "zinterstore", "sort", "eval", "evalsha", "publish",
	"flushall", "flushdb", "select", "ping", "multi", "exec", "georadius", "xadd", "script", "swapdb", "", "se", "sett", "del ", "set\x00"}

func c13In(l []string, s string) bool {
	for _, x := range l {
		if x == s {
			return true
		}
	}
	return false
}

// positions of the keys for a command of the given arity, by the generator's own notion; nil = unknown command.
func c13KeyPos(cmd string, n int) ([]int, bool) {
	var p []int
	switch {
	case c13In(c13Single, cmd):
		p = []int{0}
	case c13In(c13FirstTwo, cmd):
		p = []int{0, 1}
	case c13In(c13All, cmd):
		for i := 0; i < n; i++ {
			p = append(p, i)
		}
	case c13In(c13AllButLast, cmd):
		for i := 0; i+1 < n; i++ {
			p = append(p, i)
		}
	case c13In(c13EverySecond, cmd):
		for i := 0; i < n; i += 2 {
			p = append(p, i)
		}
	case c13In(c13AfterSub, cmd):
		for i := 1; i < n; i++ {
			p = append(p, i)
		}
	default:
		return nil, false
	}
	var q []int
	for _, i := range p {
		if i < n {
			q = append(q, i)
		}
	}
	return q, true
}

type c13Cfg struct{ wl, bl []string }

var c13Cfgs = []c13Cfg{
	{wl: []string{"p:", "white"}},
	{bl: []string{"q:", "black"}},
	{wl: []string{"p:"}, bl: []string{"q:"}},  // blacklist decides, whitelist is ignored
	{wl: []string{"p:"}, bl: []string{"p:x"}}, // overlapping
	{wl: []string{"\xff\x00k", "p:", "pp"}},   // binary prefix, several prefixes
	{bl: []string{"q:", "q:q", "\x00"}},
	{wl: []string{"a"}, bl: []string{"q:", "redis"}},
}

// a key that passes / does not pass under cfg; `tag` makes every argument of a command distinct.
func (g *gen) c13Key(c c13Cfg, pass bool, tag string) string {
	k := g.c13KeyTry(c, pass, tag)
	if c13Passes(c, k) != pass { // keep the intended pattern exact whatever the prefix lists are
		switch {
		case pass:
			k = "p:y" + tag
		case len(c.bl) != 0:
			k = c.bl[0] + tag
		default:
			k = "q:" + tag
		}
	}
	return k
}

// the generator's own reading of the prefix rules (used only to shape inputs)
func c13Passes(c c13Cfg, k string) bool {
	if strings.HasPrefix(k, "redis-shake-checkpoint") {
		return false
	}
	if len(c.bl) != 0 {
		return !c13HasPrefix(k, c.bl)
	}
	if len(c.wl) != 0 {
		return c13HasPrefix(k, c.wl)
	}
	return true
}

func (g *gen) c13KeyTry(c c13Cfg, pass bool, tag string) string {
	r := g.r.Intn
	if len(c.bl) != 0 { // blacklist decides
		if pass {
			switch r(6) {
			case 0:
				return c.bl[0][:len(c.bl[0])-1] + "~" + tag // all but the last byte of a blacklisted prefix
			case 1:
				if len(c.wl) > 0 && !strings.HasPrefix(c.wl[0], c.bl[0]) && !c13HasPrefix(c.wl[0]+tag, c.bl) {
					return c.wl[0] + tag
				}
				return "x" + tag
			case 2:
				return "Q:" + tag
			case 3:
				return "x" + c.bl[0] + tag // prefix inside, not at the start
			default:
				return "p:" + "y" + tag
			}
		}
		switch r(5) {
		case 0:
			return "redis-shake-checkpoint" + tag
		case 1:
			return c.bl[r(len(c.bl))] // exactly the prefix (not distinct, deliberately)
		default:
			return c.bl[r(len(c.bl))] + tag
		}
	}
	// whitelist decides
	if pass {
		if r(6) == 0 {
			return c.wl[r(len(c.wl))]
		}
		return c.wl[r(len(c.wl))] + tag
	}
	switch r(7) {
	case 0:
		return "redis-shake-checkpoint" + tag
	case 1:
		return c.wl[0][:len(c.wl[0])-1] + "~" + tag
	case 2:
		return "x" + c.wl[0] + tag
	case 3:
		return strings.ToUpper(c.wl[len(c.wl)-1]) + "~" + tag
	case 4:
		return "redis-shake-checkpoint"
	default:
		return "q:" + tag
	}
}

func c13HasPrefix(k string, l []string) bool {
	for _, p := range l {
		if strings.HasPrefix(k, p) {
			return true
		}
	}
	return false
}

func c13List(l []string) string {
	if len(l) == 0 {
		return "-"
	}
	var s []string
	for _, x := range l {
		if x == "" {
			s = append(s, "_")
		} else {
			s = append(s, hx([]byte(x)))
		}
	}
	return strings.Join(s, ",")
}

func c13Line(op string, c c13Cfg, head string, args []string) string {
	var b strings.Builder
	fmt.Fprintf(&b, "%s %s %s %s", op, c13List(c.wl), c13List(c.bl), head)
	for _, a := range args {
		b.WriteByte(' ')
		b.WriteString(hx([]byte(a)))
	}
	return b.String()
}

func (g *gen) c13Case(cmd string) string { // random upper/mixed case spelling
	b := []byte(cmd)
	switch g.r.Intn(3) {
	case 0:
		return strings.ToUpper(cmd)
	case 1:
		for i := range b {
			if g.r.Intn(2) == 0 && b[i] >= 'a' && b[i] <= 'z' {
				b[i] -= 32
			}
		}
	default:
		if len(b) > 0 && b[0] >= 'a' && b[0] <= 'z' {
			b[0] -= 32
		}
	}
	return string(b)
}

// emit one d/w case for cmd with the given pass pattern (bit i of pat = argument i "looks passing").
func (g *gen) c13Emit(cmd string, n int, pat uint, forceCfg int) {
	c := c13Cfgs[g.r.Intn(len(c13Cfgs))]
	if forceCfg >= 0 {
		c = c13Cfgs[forceCfg]
	}
	args := make([]string, n)
	for i := 0; i < n; i++ {
		tag := fmt.Sprintf("%d%c", i, 'a'+byte(g.r.Intn(26)))
		args[i] = g.c13Key(c, pat&(1<<uint(i)) != 0, tag)
	}
	switch g.r.Intn(8) {
	case 0, 1:
		g.emit("%s", c13Line("w", c, hx([]byte(g.c13Case(cmd))), args))
	case 2, 3:
		g.emit("%s", c13Line("s", c, hx([]byte(g.c13Case(cmd))), args))
	default:
		g.emit("%s", c13Line("d", c, hx([]byte(cmd)), args))
	}
}

// names the incremental-sync loop treats specially before the key filter (C03/C06 territory)
func c13SyncSpecial(cmd string) bool {
	switch strings.ToLower(cmd) {
	case "", "select", "opinfo", "publish", "eval", "evalsha", "script":
		return true
	}
	return false
}

// genC13Par: several streams filtered at the same moment under one key filter
func genC13Par(g *gen) {
	n := g.pick(40, 600)
	for i := 0; i < n; i++ {
		wl, bl := "-", hx([]byte("drop:"))
		if i%3 == 0 {
			wl, bl = hx([]byte("keep:")), "-"
		}
		key := func() string {
			pre := []string{"keep:", "drop:", "other:"}[g.r.Intn(3)]
			return hx([]byte(pre + strconv.Itoa(g.r.Intn(100))))
		}
		var toks []string
		for c := 0; c < 2+g.r.Intn(5); c++ {
			var name string
			var args []string
			switch g.r.Intn(4) {
			case 0:
				name = "del"
				for k := 0; k < 2+g.r.Intn(30); k++ {
					args = append(args, key())
				}
			case 1:
				name = "mset"
				for k := 0; k < 1+g.r.Intn(12); k++ {
					args = append(args, key(), hx([]byte("v"+strconv.Itoa(k))))
				}
			case 2:
				name = "brpop"
				for k := 0; k < 1+g.r.Intn(8); k++ {
					args = append(args, key())
				}
				args = append(args, hx([]byte("0")))
			default:
				name = "unlink"
				for k := 0; k < 1+g.r.Intn(20); k++ {
					args = append(args, key())
				}
			}
			toks = append(toks, hx([]byte(name))+":"+strings.Join(args, ","))
		}
		g.emit("p %s %s %s", wl, bl, strings.Join(toks, " "))
	}
}

// streams through parseSourceCommand: key-addressed commands (all keys pass / some / none), SELECT, PING and commands without
// keys in every order — in particular right behind a command that was dropped
func genC13Seq(g *gen) {
	n := g.pick(250, 4000)
	for i := 0; i < n; i++ {
		kw, kb := "-", hx([]byte("drop:"))
		if i%3 == 0 {
			kw, kb = hx([]byte("keep:")), "-"
		}
		key := func(mode int) []byte {
			pre := []string{"keep:", "drop:", "other:"}[g.r.Intn(3)]
			switch mode {
			case 1: // passes
				pre = "keep:"
			case 2: // does not pass
				pre = "drop:"
			}
			return []byte(pre + strconv.Itoa(g.r.Intn(100)))
		}
		var cmds []c03SrcCmd
		db := 0
		for c := 0; c < 3+g.r.Intn(9); c++ {
			mode := g.r.Intn(3)
			switch g.r.Intn(9) {
			case 0:
				db = g.r.Intn(6)
				cmds = append(cmds, c03SrcCmd{name: "select", args: [][]byte{[]byte(strconv.Itoa(db))}})
			case 1:
				cmds = append(cmds, c03SrcCmd{name: "ping"})
			case 2:
				cmds = append(cmds, c03SrcCmd{name: []string{"flushdb", "flushall", "publish"}[g.r.Intn(3)]})
				if cmds[len(cmds)-1].name == "publish" {
					cmds[len(cmds)-1].args = [][]byte{[]byte("ch"), []byte("m")}
				}
			case 3:
				var a [][]byte
				for k := 0; k < 1+g.r.Intn(4); k++ {
					a = append(a, key(mode))
				}
				cmds = append(cmds, c03SrcCmd{name: []string{"del", "unlink"}[g.r.Intn(2)], args: a})
			case 4:
				var a [][]byte
				for k := 0; k < 1+g.r.Intn(3); k++ {
					a = append(a, key(mode), []byte("v"))
				}
				cmds = append(cmds, c03SrcCmd{name: "mset", args: a})
			default:
				cmds = append(cmds, c03SrcCmd{name: []string{"set", "incr", "lpush", "hset", "sadd"}[g.r.Intn(5)], args: [][]byte{key(mode), []byte("v")}})
				if n := cmds[len(cmds)-1].name; n == "incr" {
					cmds[len(cmds)-1].args = cmds[len(cmds)-1].args[:1]
				} else if n == "hset" {
					cmds[len(cmds)-1].args = append(cmds[len(cmds)-1].args, []byte("w"))
				}
			}
			if g.r.Intn(4) == 0 {
				cmds[len(cmds)-1].name = strings.ToUpper(cmds[len(cmds)-1].name)
			}
		}
		g.emit("seq tdb=-1,fw=-,fb=-,lua=0,kw=%s,kb=%s %d %d %s", kw, kb, []int{0, 0, 2}[g.r.Intn(3)], []int{0, 1000}[g.r.Intn(2)], c03FmtCmds(cmds))
	}
}

func genC13(g *gen) {
	genC13Seq(g)
	genC13Par(g)
	// the commands: what the running table holds, plus the 65 names of the command reference
	names := map[string]bool{}
	for _, r := range filter.VerifRedisCommands() {
		names[r.Name] = true
	}
	for _, l := range [][]string{c13Single, c13FirstTwo, c13All, c13AllButLast, c13EverySecond, c13AfterSub} {
		for _, n := range l {
			names[n] = true
		}
	}
	var cmds []string
	for n := range names {
		cmds = append(cmds, n)
	}
	sort.Strings(cmds)

	maxExh := uint(g.pick(6, 10)) // exhaustive over the key positions up to this many keys
	reps := g.pick(1, 3)          // each pattern under this many (random) configurations / entry points
	for _, cmd := range cmds {
		for n := 1; n <= g.pick(9, 12); n++ {
			pos, known := c13KeyPos(cmd, n)
			if !known {
				pos = nil
				for i := 0; i < n; i++ {
					pos = append(pos, i)
				}
			}
			k := uint(len(pos))
			spread := func(bits uint) uint { // key pattern -> argument pattern, non-key arguments random
				pat := uint(g.r.Intn(1 << uint(n)))
				for j, p := range pos {
					pat &^= 1 << uint(p)
					if bits&(1<<uint(j)) != 0 {
						pat |= 1 << uint(p)
					}
				}
				return pat
			}
			if k <= maxExh {
				for bits := uint(0); bits < 1<<k; bits++ {
					for t := 0; t < reps; t++ {
						g.c13Emit(cmd, n, spread(bits), -1)
					}
				}
			} else {
				g.c13Emit(cmd, n, spread(0), -1)
				g.c13Emit(cmd, n, spread(1<<k-1), -1)
				for t := 0; t < 40; t++ {
					g.c13Emit(cmd, n, spread(uint(g.r.Intn(1<<k))), -1)
				}
			}
		}
	}
	// every argument pattern (non-key arguments that look like failing keys included), arity <= 6
	sample := cmds
	if !g.thorough() {
		sample = []string{"set", "rename", "del", "unlink", "brpop", "mset", "bitop", "sinterstore", "hmset", "restore-asking"}
		for t := 0; t < 4; t++ {
			sample = append(sample, cmds[g.r.Intn(len(cmds))])
		}
	}
	for _, cmd := range sample {
		for n := 1; n <= g.pick(5, 6); n++ {
			for pat := uint(0); pat < 1<<uint(n); pat++ {
				g.c13Emit(cmd, n, pat, g.r.Intn(3))
			}
		}
	}
	// no key filter configured: unchanged, whatever the keys
	none := c13Cfg{}
	for _, cmd := range cmds {
		for _, n := range []int{0, 1 + g.r.Intn(3), 2 + 2*g.r.Intn(3)} {
			args := make([]string, n)
			for i := range args {
				args[i] = g.c13Key(c13Cfgs[g.r.Intn(2)], g.r.Intn(2) == 0, fmt.Sprint(i))
			}
			op, name := "d", cmd
			switch g.r.Intn(4) {
			case 0:
				op, name = "w", g.c13Case(cmd)
			case 1:
				op, name = "s", g.c13Case(cmd)
			}
			g.emit("%s", c13Line(op, none, hx([]byte(name)), args))
		}
	}
	// table commands with no argument at all, filter active
	for _, cmd := range cmds {
		g.emit("%s", c13Line("d", c13Cfgs[g.r.Intn(len(c13Cfgs))], hx([]byte(cmd)), nil))
	}
	// commands that are not key-addressed by the table: unchanged
	for _, cmd := range c13NotInTable {
		for n := 0; n <= 4; n++ {
			c := c13Cfgs[g.r.Intn(len(c13Cfgs))]
			args := make([]string, n)
			for i := range args {
				args[i] = g.c13Key(c, g.r.Intn(3) == 0, fmt.Sprint(i))
			}
			g.emit("%s", c13Line("d", c, hx([]byte(cmd)), args))
			g.emit("%s", c13Line("w", c, hx([]byte(g.c13Case(cmd))), args))
			if !c13SyncSpecial(cmd) {
				g.emit("%s", c13Line("s", c, hx([]byte(g.c13Case(cmd))), args))
			}
		}
	}
	// degenerate prefix lists: the empty prefix matches every key
	for _, c := range []c13Cfg{{wl: []string{""}}, {bl: []string{""}}, {wl: []string{"zz", ""}}, {wl: []string{""}, bl: []string{"q:"}},
		{wl: []string{"p:"}, bl: []string{"", "q:"}}} {
		for _, cmd := range []string{"set", "del", "mset", "rename", "blpop", "bitop", "unlink", "get"} {
			for n := 1; n <= 4; n++ {
				args := make([]string, n)
				for i := range args {
					args[i] = []string{"p:", "q:", "", "redis-shake-checkpoint", "x"}[g.r.Intn(5)] + fmt.Sprint(i)
					if g.r.Intn(8) == 0 {
						args[i] = ""
					}
				}
				g.emit("%s", c13Line("d", c, hx([]byte(cmd)), args))
			}
		}
	}
	// getMatchKeys on explicit rows (model tie beyond the table: wrong arities, odd rows, the rows as pinned)
	rows := [][3]int{{1, 1, 1}, {1, 2, 1}, {1, 0, 1}, {1, -1, 1}, {1, -2, 1}, {1, -1, 2}, {2, -1, 1}, {2, 0, 1}, {1, 1, 2}, {2, 2, 1}, {1, 3, 2}, {3, 0, 1}, {1, -1, 3}, {2, -1, 2}}
	for _, r := range rows {
		for n := 0; n <= 5; n++ {
			lim := uint(1) << uint(n)
			for pat := uint(0); pat < lim; pat++ {
				if !g.thorough() && n >= 4 && g.r.Intn(3) != 0 {
					continue
				}
				g.c13Row(r[0], r[1], r[2], n, pat)
			}
		}
	}
	for t := 0; t < g.pick(600, 6000); t++ {
		g.c13Row(g.r.Intn(5)-1, g.r.Intn(8)-4, 1+g.r.Intn(3), g.r.Intn(8), uint(g.r.Intn(256)))
	}
	// non-positive steps last: the ones that spin are bounded by the runner's timeout
	for t := 0; t < g.pick(30, 200); t++ {
		g.c13Row(g.r.Intn(4), g.r.Intn(7)-3, -g.r.Intn(3), g.r.Intn(5), 0xffff) // all keys pass: never spins
	}
	for t := 0; t < g.pick(3, 8); t++ {
		g.c13Row(1+g.r.Intn(2), g.r.Intn(5)-2, 0, 1+g.r.Intn(4), uint(g.r.Intn(16)))
	}
}

func (g *gen) c13Row(first, last, step, n int, pat uint) {
	c := c13Cfgs[g.r.Intn(3)]
	args := make([]string, n)
	for i := range args {
		args[i] = g.c13Key(c, pat&(1<<uint(i)) != 0, fmt.Sprintf("%d%c", i, 'a'+byte(g.r.Intn(26))))
	}
	g.emit("%s", c13Line(c13RowOp, c, fmt.Sprintf("%d %d %d", first, last, step), args))
}

// ---------------------------------------------------------------- runner

func c13ParseList(s string) []string {
	if s == "-" {
		return nil
	}
	var out []string
	for _, e := range strings.Split(s, ",") {
		if e == "_" {
			out = append(out, "")
		} else {
			out = append(out, string(unhx(e)))
		}
	}
	return out
}

func c13Args(f []string) [][]byte {
	args := make([][]byte, len(f))
	for i, a := range f {
		args[i] = append([]byte{}, unhx(a)...)
	}
	return args
}

func c13Render(head string, args [][]byte) string {
	var b strings.Builder
	b.WriteString(head)
	for _, a := range args {
		b.WriteByte(' ')
		b.WriteString(hx(a))
	}
	return b.String()
}

var c13Leaked = 0

// bounded: a row with a non-positive step can make the real loop spin forever.
func c13Bounded(f func() string) string {
	ch := make(chan string, 1)
	go func() {
		defer func() {
			if e := recover(); e != nil {
				ch <- "panic"
			}
		}()
		ch <- f()
	}()
	select {
	case r := <-ch:
		return r
	case <-time.After(1500 * time.Millisecond):
		c13Leaked++
		if c13Leaked > 24 {
			panic("too many spinning calls")
		}
		return "hang"
	}
}

func runC13(f []string) string {
	if len(f) < 4 {
		return "badcase"
	}
	if f[0] == "seq" {
		// seq <pcfg> <startDb> <base> <cmds>: a command STREAM through the real parseSourceCommand (the caller of the key filter
		// in incremental sync), same line format as C03's `parse`: the verdict on a command does not depend on its neighbours
		defer func() { conf.Options.FilterKeyWhitelist, conf.Options.FilterKeyBlacklist = nil, nil }()
		return c03RunParseCase(f)
	}
	conf.Options.FilterKeyWhitelist = c13ParseList(f[1])
	conf.Options.FilterKeyBlacklist = c13ParseList(f[2])
	switch f[0] {
	case "p":
		// p <wl> <bl> <cmd>:<arg>,<arg>… <cmd>:…    every command filtered 400 times in a goroutine of its own, all at once —
		// one parseSourceCommand goroutine per source node does exactly that; each must get its own answer every time
		type pc struct {
			cmd  string
			args [][]byte
		}
		var cs []pc
		for _, t := range f[3:] {
			p := strings.SplitN(t, ":", 2)
			if len(p) != 2 {
				return "badcase"
			}
			cs = append(cs, pc{string(unhx(p[0])), c13Args(strings.Split(p[1], ","))})
		}
		res := make([]string, len(cs))
		var wg sync.WaitGroup
		start := make(chan struct{})
		for i := range cs {
			wg.Add(1)
			go func(i int) {
				defer wg.Done()
				defer func() {
					if e := recover(); e != nil {
						res[i] = "panic"
					}
				}()
				<-start
				for it := 0; it < 400; it++ {
					args := make([][]byte, len(cs[i].args))
					copy(args, cs[i].args)
					na, reject := filter.HandleFilterKeyWithCommand(cs[i].cmd, args)
					r := "drop"
					if !reject {
						r = c13Render("fwd", na)
					}
					if it == 0 {
						res[i] = r
					} else if r != res[i] {
						res[i] = "unstable:" + res[i] + "/" + r
						return
					}
				}
			}(i)
		}
		close(start)
		wg.Wait()
		return strings.Join(res, " | ")
	case "d":
		cmd := string(unhx(f[3]))
		args := c13Args(f[4:])
		return c13Bounded(func() string {
			na, reject := filter.HandleFilterKeyWithCommand(cmd, args)
			if reject {
				return "drop"
			}
			return c13Render("fwd", na)
		})
	case "w":
		arr := redis.NewArray()
		arr.Append(redis.NewBulkBytes(unhx(f[3])))
		for _, a := range c13Args(f[4:]) {
			arr.Append(redis.NewBulkBytes(a))
		}
		return c13Bounded(func() string {
			cmd, args, err := redis.ParseArgs(arr)
			if err != nil {
				return "parseerr"
			}
			na, reject := filter.HandleFilterKeyWithCommand(cmd, args)
			if reject {
				return "drop"
			}
			return c13Render("fwd", na)
		})
	case "s":
		name := unhx(f[3])
		arr := redis.NewArray()
		arr.Append(redis.NewBulkBytes(name))
		for _, a := range c13Args(f[4:]) {
			arr.Append(redis.NewBulkBytes(a))
		}
		stream := redis.MustEncodeToBytes(arr)
		return c13Bounded(func() string {
			out, crashed := dbSync.VerifC13ParseSource(stream, 1)
			switch {
			case crashed:
				return "panic"
			case len(out) == 0:
				return "drop"
			case len(out) > 1:
				return "multi"
			case out[0].Cmd != strings.ToLower(string(name)):
				return "badname " + hx([]byte(out[0].Cmd))
			}
			return c13Render("fwd", out[0].Args)
		})
	case c13RowOp:
		if len(f) < 6 {
			return "badcase"
		}
		first, last, step := atoi(f[3]), atoi(f[4]), atoi(f[5])
		args := c13Args(f[6:])
		return c13Bounded(func() string {
			na, pass := filter.VerifGetMatchKeys(first, last, step, args)
			if pass {
				return c13Render("ok 1", na)
			}
			return c13Render("ok 0", na)
		})
	}
	return "badcase"
}
