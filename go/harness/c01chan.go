package main

import (
	"bufio"
	"bytes"
	"fmt"
	"strings"

	"github.com/alibaba/RedisShake/pkg/libs/atomic2"
	utils "github.com/alibaba/RedisShake/redis-shake/common"
)

// buffer of the bufio.Reader in front of the loader on the channel path (small: refills split the loader's requests)
const c01ChanBuf = 64

// the channel path used by sync/restore/decode: utils.NewRDBLoader (only fed well-formed files:
// an error there aborts the process from another goroutine)
func runC01chan(data []byte) string {
	var nread atomic2.Int64
	br := bufio.NewReaderSize(bytes.NewReader(data), c01ChanBuf)
	ch := utils.NewRDBLoader(br, &nread, 4)
	var sb strings.Builder
	sb.WriteString("h=ok")
	for e := range ch {
		fmt.Fprintf(&sb, " E[%d,%s,%d,%d,%d,%d,%d,%d,%s]", e.DB, hx(e.Key), e.Type, e.ExpireAt, e.IdleTime, e.Freq, e.NeedReadLen, e.RealMemberCount, valRepr(e.Value))
	}
	// bytes the loader consumed from the buffered reader = nread; unread = total - nread
	fmt.Fprintf(&sb, " end=ok:unread=%d", int64(len(data))-nread.Get())
	return sb.String()
}
