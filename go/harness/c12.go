package main

// C12: generator of logical values, compact trees (ziplist / intset / zipmap / quicklist / LZF wrappers) and whole
// files, with serializers written HERE (independent of the repo), and the runner of the real encoders, decoder, loader.
//
// case kinds (see lean/RSVerif/Drive/C12.lean for the syntax):
//   enc <value>              rdb.EncodeDump (external cupcake) + the in-repo cupcake encoder, both decoded back
//   cmp <type> <wrap> <tree> own serializer -> payload -> rdb.DecodeDump
//   ql <lenform> <nodes>     quicklist
//   dec <payload hex>        rdb.DecodeDump on arbitrary bytes (malformed stream)
//   file <objs>              rdb.NewEncoder / in-repo encoder -> rdb.NewLoader -> ObjEntry -> BinEntry
//   ff <bits> / pf <text>    strconv against the Lean stand-in

import (
	"bytes"
	"fmt"
	"math"
	"math/rand"
	"strconv"
	"strings"

	cupcake "github.com/alibaba/RedisShake/pkg/libs/cupcake/rdb"
	"github.com/alibaba/RedisShake/pkg/rdb"
)

func init() {
	props["C12"] = &prop{gen: genC12, run: runC12}
}

// ---------------------------------------------------------------- logical values

type c12Lval struct {
	kind   byte // 'S','L','T','H','Z'
	strs   [][]byte
	vals   [][]byte // hash values
	scores []uint64
}

// FNV-1a (a CRC would be 0 on every payload that carries its own CRC trailer)
func fnv12(v []byte) uint64 {
	h := uint64(0xcbf29ce484222325)
	for _, b := range v {
		h ^= uint64(b)
		h *= 0x100000001b3
	}
	return h
}

func digest12(v []byte) string {
	if len(v) <= 48 {
		return hx(v)
	}
	return fmt.Sprintf("%d:%016x", len(v), fnv12(v))
}

func clip12(s string) string {
	if len(s) <= 400 {
		return s
	}
	return fmt.Sprintf("#%d:%016x", len(s), fnv12([]byte(s)))
}

func (v *c12Lval) render() string {
	var sb strings.Builder
	sb.WriteByte(v.kind)
	sb.WriteByte(':')
	for i, s := range v.strs {
		if i > 0 && v.kind != 'S' {
			sb.WriteByte(',')
		}
		sb.WriteString(hx(s))
		switch v.kind {
		case 'H':
			sb.WriteByte('=')
			sb.WriteString(hx(v.vals[i]))
		case 'Z':
			fmt.Fprintf(&sb, "=%016x", v.scores[i])
		}
	}
	return sb.String()
}

func c12ParseLval(s string) *c12Lval {
	v := &c12Lval{kind: s[0]}
	body := s[2:]
	if v.kind == 'S' {
		v.strs = [][]byte{unhx(body)}
		return v
	}
	if body == "" {
		return v
	}
	for _, e := range strings.Split(body, ",") {
		switch v.kind {
		case 'H':
			p := strings.Split(e, "=")
			v.strs = append(v.strs, unhx(p[0]))
			v.vals = append(v.vals, unhx(p[1]))
		case 'Z':
			p := strings.Split(e, "=")
			v.strs = append(v.strs, unhx(p[0]))
			b, err := strconv.ParseUint(p[1], 16, 64)
			if err != nil {
				panic("bad score")
			}
			v.scores = append(v.scores, b)
		default:
			v.strs = append(v.strs, unhx(e))
		}
	}
	return v
}

func c12nz(b []byte) []byte {
	if b == nil {
		return []byte{}
	}
	return b
}

func (v *c12Lval) object() interface{} {
	switch v.kind {
	case 'S':
		return rdb.String(c12nz(v.strs[0]))
	case 'L':
		o := rdb.List{}
		for _, s := range v.strs {
			o = append(o, c12nz(s))
		}
		return o
	case 'T':
		o := rdb.Set{}
		for _, s := range v.strs {
			o = append(o, c12nz(s))
		}
		return o
	case 'H':
		o := rdb.Hash{}
		for i, s := range v.strs {
			o = append(o, &rdb.HashElement{Field: c12nz(s), Value: c12nz(v.vals[i])})
		}
		return o
	case 'Z':
		o := rdb.ZSet{}
		for i, s := range v.strs {
			o = append(o, &rdb.ZSetElement{Member: c12nz(s), Score: math.Float64frombits(v.scores[i])})
		}
		return o
	}
	panic("bad kind")
}

func c12RenderObject(o interface{}) string {
	v := &c12Lval{}
	switch x := o.(type) {
	case rdb.String:
		v.kind = 'S'
		v.strs = [][]byte{x}
	case rdb.List:
		v.kind = 'L'
		v.strs = x
	case rdb.Set:
		v.kind = 'T'
		v.strs = x
	case rdb.Hash:
		v.kind = 'H'
		for _, e := range x {
			v.strs = append(v.strs, e.Field)
			v.vals = append(v.vals, e.Value)
		}
	case rdb.ZSet:
		v.kind = 'Z'
		for _, e := range x {
			v.strs = append(v.strs, e.Member)
			v.scores = append(v.scores, math.Float64bits(e.Score))
		}
	default:
		return fmt.Sprintf("err:type-%T", o)
	}
	return v.render()
}

func errClass12(err error) string {
	s := err.Error()
	switch {
	case strings.Contains(s, "invalid dump length"), strings.Contains(s, "invalid version"), strings.Contains(s, "invalid CRC"):
		return "err:dump"
	case strings.Contains(s, "EOF"):
		return "err:eof"
	case strings.Contains(s, "strconv.ParseFloat"):
		return "err:float"
	case strings.Contains(s, "invalid zipmap item length"), strings.Contains(s, "unknown ziplist header"),
		strings.Contains(s, "unknown intset encoding"), strings.Contains(s, "unknown object type"), strings.Contains(s, "Redis Modules"):
		return "err:format"
	case strings.Contains(s, "position out of range"):
		return "err:seek"
	case strings.Contains(s, "invalid object"):
		return "err:adaptor"
	}
	return "err:other"
}

func c12DecodeRender(p []byte) string {
	o, err := rdb.DecodeDump(p)
	if err != nil {
		return errClass12(err)
	}
	return clip12(c12RenderObject(o))
}

// ---------------------------------------------------------------- own serializers

func trailer12(body []byte) []byte {
	b := append(append([]byte{}, body...), 6, 0)
	sum := crc64bitwise(0, b)
	for k := 0; k < 8; k++ {
		b = append(b, byte(sum>>(8*uint(k))))
	}
	return b
}

func le12(n int, v uint64) []byte {
	b := make([]byte, n)
	for i := 0; i < n; i++ {
		b[i] = byte(v >> (8 * uint(i)))
	}
	return b
}

func be12(n int, v uint64) []byte {
	b := le12(n, v)
	for i, j := 0, len(b)-1; i < j; i, j = i+1, j-1 {
		b[i], b[j] = b[j], b[i]
	}
	return b
}

func serLen12(form string, n int) []byte {
	switch form {
	case "6":
		return []byte{byte(n)}
	case "14":
		return []byte{0x40 | byte(n>>8), byte(n)}
	case "32":
		return append([]byte{0x80}, be12(4, uint64(n))...)
	case "64":
		return append([]byte{0x81}, be12(8, uint64(n))...)
	}
	panic("bad len form")
}

func c12MinForm(n int) string {
	switch {
	case n < 64:
		return "6"
	case n < 16384:
		return "14"
	}
	return "32"
}

// c12WiderForm picks the minimal form most of the time, otherwise a wider one
func c12WiderForm(r *rand.Rand, n int) string {
	forms := []string{"6", "14", "32", "64"}
	min := 0
	if n >= 64 {
		min = 1
	}
	if n >= 16384 {
		min = 2
	}
	if r.Intn(5) == 0 {
		return forms[min+r.Intn(4-min)]
	}
	return forms[min]
}

type c12ZlEntry struct {
	head string // s6 s14 s32 i4 i8 i16 i24 i32 i64
	big  bool
	s    []byte
	v    int64
}

func (e c12ZlEntry) text() string {
	h := e.head
	if e.big {
		h += "b"
	}
	if e.head[0] == 's' {
		return h + ":" + hx(e.s)
	}
	return fmt.Sprintf("%s:%d", h, e.v)
}

func c12ParseZlEntries(s string) []c12ZlEntry {
	var es []c12ZlEntry
	if s == "_" || s == "" {
		return es
	}
	for _, t := range strings.Split(s, ",") {
		p := strings.Split(t, ":")
		e := c12ZlEntry{head: p[0]}
		if strings.HasSuffix(e.head, "b") {
			e.big = true
			e.head = e.head[:len(e.head)-1]
		}
		if e.head[0] == 's' {
			e.s = unhx(p[1])
		} else {
			v, err := strconv.ParseInt(p[1], 10, 64)
			if err != nil {
				panic("bad int entry")
			}
			e.v = v
		}
		es = append(es, e)
	}
	return es
}

func c12SerZlEntry(prev int, e c12ZlEntry) []byte {
	var b []byte
	if e.big || prev >= 254 {
		b = append(b, 0xFE)
		b = append(b, le12(4, uint64(prev))...)
	} else {
		b = append(b, byte(prev))
	}
	switch e.head {
	case "s6":
		b = append(b, byte(len(e.s)))
		b = append(b, e.s...)
	case "s14":
		b = append(b, 0x40|byte(len(e.s)>>8), byte(len(e.s)))
		b = append(b, e.s...)
	case "s32":
		b = append(b, 0x80)
		b = append(b, be12(4, uint64(len(e.s)))...)
		b = append(b, e.s...)
	case "i4":
		b = append(b, byte(0xF1+e.v))
	case "i8":
		b = append(b, 0xFE, byte(e.v))
	case "i16":
		b = append(b, 0xC0)
		b = append(b, le12(2, uint64(e.v))...)
	case "i24":
		b = append(b, 0xF0)
		b = append(b, le12(3, uint64(e.v))...)
	case "i32":
		b = append(b, 0xD0)
		b = append(b, le12(4, uint64(e.v))...)
	case "i64":
		b = append(b, 0xE0)
		b = append(b, le12(8, uint64(e.v))...)
	default:
		panic("bad entry head " + e.head)
	}
	return b
}

func serZiplist12(es []c12ZlEntry) []byte {
	var body []byte
	prev := 0
	tail := 10
	for i, e := range es {
		if i == len(es)-1 {
			tail = 10 + len(body)
		}
		x := c12SerZlEntry(prev, e)
		prev = len(x)
		body = append(body, x...)
	}
	b := le12(4, uint64(10+len(body)+1))
	b = append(b, le12(4, uint64(tail))...)
	cnt := len(es)
	if cnt > 65535 {
		cnt = 65535 // the count saturates: 65535 = walk the entries (as Redis writes it)
	}
	b = append(b, le12(2, uint64(cnt))...)
	b = append(b, body...)
	return append(b, 0xFF)
}

func serIntset12(w int, xs []int64) []byte {
	b := le12(4, uint64(w))
	b = append(b, le12(4, uint64(len(xs)))...)
	for _, x := range xs {
		b = append(b, le12(w, uint64(x))...)
	}
	return b
}

type c12ZmPair struct{ k, v, free []byte }

func serZmLen12(n int) []byte {
	if n < 254 {
		return []byte{byte(n)}
	}
	return append([]byte{254}, le12(4, uint64(n))...)
}

func serZipmap12(ps []c12ZmPair) []byte {
	n := len(ps)
	if n > 254 {
		n = 254
	}
	b := []byte{byte(n)}
	for _, p := range ps {
		b = append(b, serZmLen12(len(p.k))...)
		b = append(b, p.k...)
		b = append(b, serZmLen12(len(p.v))...)
		b = append(b, byte(len(p.free)))
		b = append(b, p.v...)
		b = append(b, p.free...)
	}
	return append(b, 0xFF)
}

// LZF tokens: l<hex> literal, r<off>.<len> back reference
func serToks12(toks string) []byte {
	var b []byte
	if toks == "" || toks == "_" {
		return b
	}
	for _, t := range strings.Split(toks, "+") {
		if t[0] == 'l' {
			lit := unhx(t[1:])
			b = append(b, byte(len(lit)-1))
			b = append(b, lit...)
		} else {
			p := strings.Split(t[1:], ".")
			off, l := atoi(p[0]), atoi(p[1])
			if l-2 < 7 {
				b = append(b, byte((l-2)<<5)|byte((off-1)>>8), byte(off-1))
			} else {
				b = append(b, byte(7<<5)|byte((off-1)>>8), byte(l-2-7), byte(off-1))
			}
		}
	}
	return b
}

// wrap12 stores blob as an RDB string: r<form> or z<cf>-<uf>:<toks>
func wrap12(w string, blob []byte) []byte {
	if w[0] == 'r' {
		return append(serLen12(w[1:], len(blob)), blob...)
	}
	p := strings.SplitN(w[1:], ":", 2)
	forms := strings.Split(p[0], "-")
	comp := serToks12(p[1])
	b := []byte{0xC3}
	b = append(b, serLen12(forms[0], len(comp))...)
	b = append(b, serLen12(forms[1], len(blob))...)
	return append(b, comp...)
}

// tokenize produces a random valid LZF token stream that expands to blob
func tokenize12(r *rand.Rand, blob []byte) string {
	var toks []string
	i := 0
	for i < len(blob) {
		done := false
		if i > 0 && r.Intn(2) == 0 {
			// try a few offsets, keep the longest match
			bestOff, bestLen := 0, 0
			for try := 0; try < 6; try++ {
				maxoff := i
				if maxoff > 8192 {
					maxoff = 8192
				}
				off := 1 + r.Intn(maxoff)
				if try < 2 {
					off = 1 + r.Intn(min(maxoff, 4))
				}
				l := 0
				for i+l < len(blob) && l < 264 && blob[i+l] == blob[i+l-off] {
					l++
				}
				if l > bestLen {
					bestOff, bestLen = off, l
				}
			}
			if bestLen >= 3 {
				l := bestLen
				if r.Intn(3) == 0 {
					l = 3 + r.Intn(bestLen-2)
				}
				toks = append(toks, fmt.Sprintf("r%d.%d", bestOff, l))
				i += l
				done = true
			}
		}
		if !done {
			n := 1 + r.Intn(32)
			if r.Intn(4) == 0 {
				n = 32
			}
			if n > len(blob)-i {
				n = len(blob) - i
			}
			toks = append(toks, "l"+hx(blob[i:i+n]))
			i += n
		}
	}
	if len(toks) == 0 {
		return "_"
	}
	return strings.Join(toks, "+")
}

func genWrap12(r *rand.Rand, blob []byte, allowLzf bool) string {
	if allowLzf && len(blob) > 0 && len(blob) <= 1500 && r.Intn(3) == 0 {
		toks := tokenize12(r, blob)
		comp := serToks12(toks)
		return fmt.Sprintf("z%s-%s:%s", c12WiderForm(r, len(comp)), c12WiderForm(r, len(blob)), toks)
	}
	return "r" + c12WiderForm(r, len(blob))
}

// ---------------------------------------------------------------- generators

var intBoundaries12 = []int64{0, 1, -1, 12, 13, 127, 128, -128, -129, 255, 256, 32767, 32768, -32768, -32769, 65535, 65536,
	8388607, 8388608, -8388608, -8388609, 16777215, 2147483647, 2147483648, -2147483648, -2147483649, 4294967295, 4294967296,
	9223372036854775807, -9223372036854775808, 1000000000000}

func (g *gen) c12int() int64 {
	switch g.r.Intn(4) {
	case 0:
		return int64(g.r.Intn(2000)) - 1000
	case 1:
		return int64(g.r.Uint64())
	default:
		return intBoundaries12[g.r.Intn(len(intBoundaries12))]
	}
}

// c12str: arbitrary bytes, integer-looking strings at every boundary, near-integers, boundary lengths
func (g *gen) c12str(maxLen int) []byte {
	switch g.r.Intn(12) {
	case 0, 1, 2:
		return []byte(strconv.FormatInt(g.c12int(), 10))
	case 3:
		// not canonical: leading zeros, signs, spaces, other near misses
		base := strconv.FormatInt(g.c12int(), 10)
		switch g.r.Intn(9) {
		case 0:
			return []byte("0" + base)
		case 1:
			return []byte("+" + base)
		case 2:
			return []byte(" " + base)
		case 3:
			return []byte(base + " ")
		case 4:
			return []byte("-0")
		case 5:
			return []byte(base + "0")
		case 6:
			return []byte("-" + base)
		case 7:
			return []byte([]string{"", "-", "+", "0x10", "1e3", "1.0", "١", "2147483648", "-2147483649", "99999999999999999999"}[g.r.Intn(10)])
		default:
			return []byte(base + "\n")
		}
	case 4:
		n := []int{0, 1, 62, 63, 64, 65}[g.r.Intn(6)]
		return g.bytes(n)
	case 5:
		if maxLen >= 16385 {
			return g.bytes(16382 + g.r.Intn(4))
		}
		return g.bytes(g.r.Intn(maxLen + 1))
	default:
		n := g.r.Intn(24)
		if g.r.Intn(6) == 0 {
			n = g.r.Intn(maxLen + 1)
		}
		b := g.bytes(n)
		if g.r.Intn(3) == 0 {
			for i := range b {
				b[i] = "ab"[g.r.Intn(2)]
			}
		}
		return b
	}
}

var scoreBits12 = []uint64{0, 0x8000000000000000, 0x3FF0000000000000, 0xBFF0000000000000, 0x7FF0000000000000, 0xFFF0000000000000,
	0x7FF8000000000001, 0x7FF8000000000000, 0xFFF8000000000000, 0x7FF0000000000001, 0x7FFFFFFFFFFFFFFF, 0x0000000000000001,
	0x000FFFFFFFFFFFFF, 0x0010000000000000, 0x7FEFFFFFFFFFFFFF, 0x3FB999999999999A, 0x4340000000000000, 0x4340000000000001,
	0x400921FB54442D18, 0x3F50624DD2F1A9FC, 0x3EE4F8B588E368F1, 0x42D6BCC41E900000, 0x4341C37937E08000, 0x43EFFFFFFFFFFFFF}

func (g *gen) c12score() uint64 {
	switch g.r.Intn(4) {
	case 0:
		return g.r.Uint64()
	case 1:
		return math.Float64bits(float64(g.c12int()))
	case 2:
		return math.Float64bits(float64(g.r.Intn(2000)-1000) / []float64{1, 2, 10, 1000, 1e-5, 3e7}[g.r.Intn(6)])
	default:
		return scoreBits12[g.r.Intn(len(scoreBits12))]
	}
}

func (g *gen) c12count(max int) int {
	switch g.r.Intn(8) {
	case 0:
		return 0
	case 1:
		return 1
	default:
		return g.r.Intn(max + 1)
	}
}

func (g *gen) c12value(maxLen, maxColl int) *c12Lval {
	v := &c12Lval{kind: "SLTHZ"[g.r.Intn(5)]}
	if v.kind == 'S' {
		v.strs = [][]byte{g.c12str(maxLen)}
		return v
	}
	n := g.c12count(maxColl)
	for i := 0; i < n; i++ {
		v.strs = append(v.strs, g.c12str(maxLen))
		if v.kind == 'H' {
			v.vals = append(v.vals, g.c12str(maxLen))
		}
		if v.kind == 'Z' {
			v.scores = append(v.scores, g.c12score())
		}
	}
	return v
}

func (g *gen) c12entry() c12ZlEntry {
	e := c12ZlEntry{big: g.r.Intn(6) == 0}
	switch g.r.Intn(11) {
	case 0, 1, 2:
		n := []int{0, 1, 5, 62, 63, g.r.Intn(40)}[g.r.Intn(6)]
		e.head, e.s = []string{"s6", "s6", "s6", "s14", "s32"}[g.r.Intn(5)], g.bytes(n)
	case 3:
		n := []int{64, 65, 250, 252, 253, 254, 300, 16383}[g.r.Intn(8)]
		if n == 16383 && g.r.Intn(4) != 0 {
			n = 100
		}
		e.head, e.s = []string{"s14", "s14", "s32"}[g.r.Intn(3)], g.bytes(n)
	case 4:
		e.head, e.s = "s32", g.bytes([]int{16384, 16390, 20000, 3}[g.r.Intn(4)])
		if g.r.Intn(3) != 0 && len(e.s) > 7 {
			e.s = e.s[:7]
		}
	case 5:
		e.head, e.v = "i4", int64(g.r.Intn(13))
	case 6:
		e.head, e.v = "i8", []int64{-128, 127, 0, -1, 13, int64(g.r.Intn(256)) - 128}[g.r.Intn(6)]
	case 7:
		e.head, e.v = "i16", []int64{-32768, 32767, 128, -129, 0, int64(g.r.Intn(65536)) - 32768}[g.r.Intn(6)]
	case 8:
		e.head, e.v = "i24", []int64{-8388608, 8388607, 32768, -32769, -1, 0, 65536, -65536, int64(g.r.Intn(1<<24)) - (1 << 23)}[g.r.Intn(9)]
	case 9:
		e.head, e.v = "i32", []int64{-2147483648, 2147483647, 8388608, -8388609, -1, int64(int32(g.r.Uint32()))}[g.r.Intn(6)]
	default:
		e.head, e.v = "i64", []int64{math.MinInt64, math.MaxInt64, 2147483648, -2147483649, -1, 0, int64(g.r.Uint64())}[g.r.Intn(7)]
	}
	return e
}

// score entry of a ziplist-encoded sorted set: %.17g text, or an integer entry, or inf/-inf/nan
func (g *gen) c12scoreEntry() c12ZlEntry {
	switch g.r.Intn(6) {
	case 0:
		e := g.c12entry()
		for e.head[0] == 's' {
			e = g.c12entry()
		}
		return e
	case 1:
		return c12ZlEntry{head: "s6", s: []byte([]string{"inf", "-inf", "nan", "0", "-0", "1e3", "3.5", "1E+2", ".5", "5.", "0x1p-2", "1_0", "Infinity", "+Inf"}[g.r.Intn(14)])}
	default:
		b := g.c12score()
		f := math.Float64frombits(b)
		if math.IsNaN(f) {
			return c12ZlEntry{head: "s6", s: []byte("nan")}
		}
		if math.IsInf(f, 0) {
			if f > 0 {
				return c12ZlEntry{head: "s6", s: []byte("inf")}
			}
			return c12ZlEntry{head: "s6", s: []byte("-inf")}
		}
		return c12ZlEntry{head: "s6", s: []byte(strconv.FormatFloat(f, 'g', 17, 64))}
	}
}

func c12EntriesText(es []c12ZlEntry) string {
	if len(es) == 0 {
		return "_"
	}
	t := make([]string, len(es))
	for i, e := range es {
		t[i] = e.text()
	}
	return strings.Join(t, ",")
}

func (g *gen) c12ziplist(max int, pairs bool, scores bool) []c12ZlEntry {
	n := g.c12count(max)
	var es []c12ZlEntry
	for i := 0; i < n; i++ {
		es = append(es, g.c12entry())
		if pairs {
			if scores {
				es = append(es, g.c12scoreEntry())
			} else {
				es = append(es, g.c12entry())
			}
		}
	}
	return es
}

// c12farLzf: a ziplist with one long entry whose LZF form holds a back reference over a chosen distance — around 4096 (13-bit
// offsets use a fifth bit in the control byte), up to the format's maximum 8192 — of every length class
func (g *gen) c12farLzf() string {
	dist := []int{255, 256, 257, 4094, 4095, 4096, 4097, 4098, 5000, 6143, 6144, 8190, 8191, 8192}[g.r.Intn(14)]
	ml := []int{3, 4, 8, 9, 10, 100, 263, 264}[g.r.Intn(8)]
	if ml > dist {
		ml = dist
	}
	a := g.bytes(ml)
	filler := g.bytes(dist - ml) // A, then filler up to distance `dist`, then A again
	val := append(append(append([]byte{}, a...), filler...), a...)
	val = append(val, g.bytes(g.r.Intn(40))...)
	es := []c12ZlEntry{{head: "s32", s: val}}
	if g.r.Intn(2) == 0 {
		es = append(es, c12ZlEntry{head: "i4", v: 7})
	}
	blob := serZiplist12(es)
	// tokens: the blob up to the second copy of A as literals, the copy as ONE reference, the rest as literals
	start := 10 + 1 + 5 + len(a) + len(filler) // ziplist header, prevlen, s32 header
	var toks []string
	lit := func(b []byte) {
		for len(b) > 0 {
			n := 1 + g.r.Intn(32)
			if n > len(b) {
				n = len(b)
			}
			toks = append(toks, "l"+hx(b[:n]))
			b = b[n:]
		}
	}
	lit(blob[:start])
	toks = append(toks, fmt.Sprintf("r%d.%d", len(a)+len(filler), ml))
	lit(blob[start+ml:])
	comp := serToks12(strings.Join(toks, "+"))
	return fmt.Sprintf("cmp 10 z%s-%s:%s %s", c12WiderForm(g.r, len(comp)), c12WiderForm(g.r, len(blob)), strings.Join(toks, "+"), c12EntriesText(es))
}

// c12bigZiplist: entry counts around the point where the 16-bit count field saturates (65535 = "walk the entries")
func (g *gen) c12bigZiplist() string {
	n := []int{65534, 65535, 65536, 65537, 65535 + g.r.Intn(9000), 131072}[g.r.Intn(6)]
	t := []int{10, 13, 12}[g.r.Intn(3)]
	if t != 10 && n%2 == 1 {
		n++
	}
	es := make([]c12ZlEntry, n)
	for i := range es {
		switch {
		case t == 12 && i%2 == 1:
			es[i] = c12ZlEntry{head: "i4", v: int64(g.r.Intn(13))} // score
		case g.r.Intn(3) == 0:
			es[i] = c12ZlEntry{head: "s6", s: []byte{byte('a' + g.r.Intn(26)), byte(g.r.Intn(256))}}
		default:
			es[i] = c12ZlEntry{head: "i4", v: int64(g.r.Intn(13))}
		}
	}
	// a few entries of every other shape among them: strings long enough (encoded size >= 254) for the NEXT entry to carry the
	// 5-byte form of the previous-entry length, the 5-byte form in front of a short predecessor, every integer width
	for k := g.r.Intn(9); k > 0; k-- {
		i := g.r.Intn(n)
		if t == 12 && i%2 == 1 {
			i--
		}
		switch g.r.Intn(7) {
		case 0, 1:
			es[i] = c12ZlEntry{head: "s14", s: g.bytes(251 + g.r.Intn(200))}
		case 2:
			es[i] = c12ZlEntry{head: "s32", s: g.bytes(g.r.Intn(70))}
		case 3:
			es[i].big = true
		case 4:
			es[i] = c12ZlEntry{head: []string{"i8", "i16", "i24", "i32", "i64"}[g.r.Intn(5)], v: int64(g.r.Intn(100)) - 50}
		case 5:
			es[i] = c12ZlEntry{head: "s6", s: g.bytes(g.r.Intn(64))}
		default:
			es[i] = c12ZlEntry{head: "s14", s: g.bytes(64 + g.r.Intn(190))}
		}
	}
	blob := serZiplist12(es)
	return fmt.Sprintf("cmp %d %s %s", t, genWrap12(g.r, blob, false), c12EntriesText(es))
}

func (g *gen) c12cmp() string {
	var t int
	var tree string
	var blob []byte
	switch g.r.Intn(8) {
	case 0, 1:
		t = 10
		es := g.c12ziplist(12, false, false)
		tree, blob = c12EntriesText(es), serZiplist12(es)
	case 2:
		t = 12
		es := g.c12ziplist(6, true, true)
		tree, blob = c12EntriesText(es), serZiplist12(es)
	case 3:
		t = 13
		es := g.c12ziplist(6, true, false)
		tree, blob = c12EntriesText(es), serZiplist12(es)
	case 4, 5:
		t = 11
		w := []int{2, 4, 8}[g.r.Intn(3)]
		n := g.c12count(12)
		var xs []int64
		var ts []string
		for i := 0; i < n; i++ {
			var x int64
			switch w {
			case 2:
				x = []int64{-32768, 32767, 0, -1, 255, 256, int64(g.r.Intn(65536)) - 32768}[g.r.Intn(7)]
			case 4:
				x = []int64{-2147483648, 2147483647, 32768, -32769, -1, 65536, int64(int32(g.r.Uint32()))}[g.r.Intn(7)]
			default:
				x = []int64{math.MinInt64, math.MaxInt64, 2147483648, -2147483649, -1, 4294967296, int64(g.r.Uint64())}[g.r.Intn(7)]
			}
			xs = append(xs, x)
			ts = append(ts, fmt.Sprint(x))
		}
		tree, blob = fmt.Sprintf("%d:%s", w, strings.Join(ts, ",")), serIntset12(w, xs)
	default:
		t = 9
		n := g.c12count(6)
		if g.r.Intn(12) == 0 {
			n = []int{252, 253, 254, 255, 300}[g.r.Intn(5)]
		}
		var ps []c12ZmPair
		var ts []string
		for i := 0; i < n; i++ {
			sz := func() int {
				if n > 50 {
					return g.r.Intn(4)
				}
				if g.r.Intn(5) == 0 {
					return []int{0, 252, 253, 254, 255, 300, 70000}[g.r.Intn(7)]
				}
				return g.r.Intn(12)
			}
			fr := g.r.Intn(5)
			if g.r.Intn(3) == 0 {
				fr = 0
			}
			if g.r.Intn(30) == 0 {
				fr = 255
			}
			p := c12ZmPair{g.bytes(sz()), g.bytes(sz()), g.bytes(fr)}
			ps = append(ps, p)
			ts = append(ts, hx(p.k)+"="+hx(p.v)+"/"+hx(p.free))
		}
		tree, blob = strings.Join(ts, ","), serZipmap12(ps)
		if n == 0 {
			tree = "_"
		}
	}
	return fmt.Sprintf("cmp %d %s %s", t, genWrap12(g.r, blob, true), tree)
}

func (g *gen) c12ql() string {
	n := g.c12count(5)
	var ns []string
	for i := 0; i < n; i++ {
		es := g.c12ziplist(8, false, false)
		ns = append(ns, genWrap12(g.r, serZiplist12(es), true)+"|"+c12EntriesText(es))
	}
	s := strings.Join(ns, ";")
	if n == 0 {
		s = "_"
	}
	return fmt.Sprintf("ql %s %s", c12WiderForm(g.r, n), s)
}

func c12PayloadOfCmp(f []string) []byte {
	t := atoi(f[1])
	var blob []byte
	switch t {
	case 10, 12, 13:
		blob = serZiplist12(c12ParseZlEntries(f[3]))
	case 11:
		p := strings.Split(f[3], ":")
		var xs []int64
		if p[1] != "" {
			for _, x := range strings.Split(p[1], ",") {
				v, err := strconv.ParseInt(x, 10, 64)
				if err != nil {
					panic("bad intset member")
				}
				xs = append(xs, v)
			}
		}
		blob = serIntset12(atoi(p[0]), xs)
	case 9:
		var ps []c12ZmPair
		if f[3] != "_" {
			for _, e := range strings.Split(f[3], ",") {
				kv := strings.Split(e, "=")
				vf := strings.Split(kv[1], "/")
				ps = append(ps, c12ZmPair{unhx(kv[0]), unhx(vf[0]), unhx(vf[1])})
			}
		}
		blob = serZipmap12(ps)
	default:
		panic("bad compact type")
	}
	return trailer12(append([]byte{byte(t)}, wrap12(f[2], blob)...))
}

func c12PayloadOfQl(f []string) []byte {
	var ns []string
	if f[2] != "_" {
		ns = strings.Split(f[2], ";")
	}
	b := append([]byte{14}, serLen12(f[1], len(ns))...)
	for _, n := range ns {
		p := strings.SplitN(n, "|", 2)
		b = append(b, wrap12(p[0], serZiplist12(c12ParseZlEntries(p[1])))...)
	}
	return trailer12(b)
}

// plain payload from the harness' own serializer (used as a base for the malformed stream)
func (g *gen) c12plainPayload() []byte {
	str := func() []byte {
		switch g.r.Intn(6) {
		case 0:
			return []byte{0xC0, byte(g.r.Intn(128))}
		case 1:
			return []byte{0xC1, byte(g.r.Intn(128)), byte(g.r.Intn(128))}
		case 2:
			return []byte{0xC2, byte(g.r.Intn(128)), byte(g.r.Intn(128)), byte(g.r.Intn(128)), byte(g.r.Intn(128))}
		case 3:
			blob := g.c12asciiBytes(1 + g.r.Intn(30))
			return wrap12("z6-6:"+tokenize12(g.r, blob), blob)
		default:
			s := g.c12asciiBytes(g.r.Intn(10))
			return append([]byte{byte(len(s))}, s...)
		}
	}
	t := []byte{0, 1, 2, 3, 4, 5}[g.r.Intn(6)]
	b := []byte{t}
	if t == 0 {
		return trailer12(append(b, str()...))
	}
	n := g.r.Intn(4)
	b = append(b, byte(n))
	for i := 0; i < n; i++ {
		b = append(b, str()...)
		switch t {
		case 4:
			b = append(b, str()...)
		case 3:
			switch g.r.Intn(5) {
			case 0:
				b = append(b, 253)
			case 1:
				b = append(b, 254)
			case 2:
				b = append(b, 255)
			default:
				tx := []string{"1", "-2.5", "1e10", "inf", "nan", "0.1", "3", "1e999", "abc", ""}[g.r.Intn(10)]
				b = append(b, byte(len(tx)))
				b = append(b, tx...)
			}
		case 5:
			b = append(b, g.c12asciiBytes(8)...)
		}
	}
	return trailer12(b)
}

func (g *gen) c12asciiBytes(n int) []byte {
	b := make([]byte, n)
	for i := range b {
		b[i] = byte(32 + g.r.Intn(95))
	}
	return b
}

// small compact payload whose bytes stay below 0x80 or above 0xBF where possible (base of the malformed stream)
func (g *gen) c12smallCompact() []byte {
	ent := func() c12ZlEntry {
		switch g.r.Intn(8) {
		case 0:
			return c12ZlEntry{head: "i4", v: int64(g.r.Intn(13))}
		case 1:
			return c12ZlEntry{head: "i8", v: int64(g.r.Intn(100))}
		case 2:
			return c12ZlEntry{head: "i16", v: []int64{300, -300, 32767, -1}[g.r.Intn(4)]}
		case 3:
			return c12ZlEntry{head: "i24", v: []int64{70000, -70000, 8388607, -1}[g.r.Intn(4)]}
		case 4:
			return c12ZlEntry{head: "i32", v: []int64{2147483647, -2, 16777216}[g.r.Intn(3)]}
		case 5:
			return c12ZlEntry{head: "i64", v: []int64{math.MaxInt64, -3, 4294967296}[g.r.Intn(3)]}
		case 6:
			return c12ZlEntry{head: "s14", s: g.c12asciiBytes(g.r.Intn(6))}
		default:
			return c12ZlEntry{head: "s6", s: g.c12asciiBytes(g.r.Intn(8))}
		}
	}
	var t int
	var blob []byte
	switch g.r.Intn(6) {
	case 0:
		t = 10
		var es []c12ZlEntry
		for i := g.r.Intn(5); i > 0; i-- {
			es = append(es, ent())
		}
		blob = serZiplist12(es)
	case 1:
		t = []int{12, 13}[g.r.Intn(2)]
		var es []c12ZlEntry
		for i := g.r.Intn(4); i > 0; i-- {
			es = append(es, ent())
			if t == 12 {
				es = append(es, c12ZlEntry{head: "s6", s: []byte([]string{"1", "2.5", "-inf", "1e3", "x"}[g.r.Intn(5)])})
			} else {
				es = append(es, ent())
			}
		}
		blob = serZiplist12(es)
	case 2:
		t = 11
		w := []int{2, 4, 8}[g.r.Intn(3)]
		var xs []int64
		for i := g.r.Intn(5); i > 0; i-- {
			xs = append(xs, []int64{0, 1, -1, 300, -300, 32767}[g.r.Intn(6)])
		}
		blob = serIntset12(w, xs)
	case 3, 4:
		t = 9
		var ps []c12ZmPair
		for i := g.r.Intn(4); i > 0; i-- {
			ps = append(ps, c12ZmPair{g.c12asciiBytes(g.r.Intn(5)), g.c12asciiBytes(g.r.Intn(6)), g.c12asciiBytes(g.r.Intn(3))})
		}
		blob = serZipmap12(ps)
		if g.r.Intn(4) == 0 && len(blob) > 0 {
			blob[0] = byte(254 + g.r.Intn(2)) // force the counting pass
		}
	default:
		n := g.r.Intn(3)
		b := []byte{14, byte(n)}
		for i := 0; i < n; i++ {
			var es []c12ZlEntry
			for j := g.r.Intn(4); j > 0; j-- {
				es = append(es, ent())
			}
			z := serZiplist12(es)
			b = append(b, wrap12("r"+c12MinForm(len(z)), z)...)
		}
		return trailer12(b)
	}
	w := "r" + c12MinForm(len(blob))
	if g.r.Intn(4) == 0 && len(blob) > 0 {
		w = "z6-6:" + tokenize12(g.r, blob)
		if len(serToks12(w[5:])) >= 64 || len(blob) >= 64 {
			w = "r" + c12MinForm(len(blob))
		}
	}
	return trailer12(append([]byte{byte(t)}, wrap12(w, blob)...))
}

func dangerous12(p []byte) bool {
	for _, b := range p {
		if b >= 0x80 && b <= 0xBF {
			return true
		}
	}
	return false
}

// mutate a valid payload (body only), keep the trailer valid; never leave a byte in 0x80..0xBF anywhere, so that no
// 32-bit length can arise (a multi-GiB allocation would not be a property violation, just a slow case)
func (g *gen) c12mutant() []byte {
	for {
		var p []byte
		if g.r.Intn(3) == 0 {
			p = g.c12plainPayload()
		} else {
			p = g.c12smallCompact()
		}
		body := append([]byte{}, p[:len(p)-10]...)
		switch g.r.Intn(6) {
		case 0:
			body = body[:1+g.r.Intn(len(body))]
		case 1, 2:
			for k := 1 + g.r.Intn(2); k > 0; k-- {
				body[g.r.Intn(len(body))] ^= byte(1 << uint(g.r.Intn(8)))
			}
		case 3:
			body[g.r.Intn(len(body))] = byte(g.r.Intn(256))
		case 4:
			i := g.r.Intn(len(body))
			body = append(body[:i], append([]byte{byte(g.r.Intn(128))}, body[i:]...)...)
		default:
			// unchanged: valid payload through the `dec` path
		}
		if g.r.Intn(10) == 0 {
			body[0] = byte(g.r.Intn(20))
		}
		for tries := 0; tries < 60; tries++ {
			q := trailer12(body)
			if !dangerous12(q) {
				if g.r.Intn(25) == 0 {
					q[len(q)-1-g.r.Intn(10)] ^= 0x40 // broken trailer
					if dangerous12(q) {
						break
					}
				}
				return q
			}
			if dangerous12(body) {
				break
			}
			// re-roll the checksum by appending a filler byte (readers ignore trailing bytes)
			body = append(body, byte(g.r.Intn(128)))
		}
	}
}

var handDec12 = []string{
	// 64-bit length form: LOW 32 bits count; 0x82: treated as the 32-bit form
	"00" + "81" + "0000000100000002" + "6162",
	"00" + "82" + "00000003" + "616263",
	"01" + "81" + "0000000000000002" + "0161" + "0162",
	// encoded string with an unknown encoding (0xC4): raw read of 4 bytes
	"00" + "c4" + "61626364",
	"00" + "ff" + "61626364",
	// LZF: short stream leaves zeros; encoded flags of clen/ulen ignored
	"00" + "c3" + "03" + "08" + "02616263",
	"00" + "c3" + "c3" + "08" + "02616263",
	"00" + "c3" + "03" + "00" + "02616263",           // output beyond the buffer: panic
	"00" + "c3" + "02" + "08" + "20ff",               // back reference before the start: panic
	"00" + "c3" + "04" + "09" + "0061" + "e001" + "", // truncated long reference: panic
	"00" + "c3" + "05" + "0a" + "0061" + "e00100",
	// quicklist: errors of nodes are dropped
	"0e" + "02" + "03616263" + "0b0b0000000a000000010000" + "0161" + "ff",
	"0e" + "03" + "0b0b0000000a000000020000" + "0161" + "ff",
	"0e" + "01" + "c3" + "01" + "05" + "20ff",
	// zset with a float that does not parse / overflows
	"03" + "01" + "0161" + "03616263",
	"03" + "01" + "0161" + "05" + "3165393939",
	"03" + "01" + "0161" + "06" + "31652d393939",
	"03" + "01" + "0161" + "03" + "315f30",
	"03" + "01" + "0161" + "06" + "307831702d32",
	// modules, unknown types
	"06" + "00", "07" + "00", "0f" + "00", "08" + "00",
	// ziplist: int24 with one and two bytes left, 0xFF header, unknown header, prevlen 254 near the end
	"0a" + "0d" + "0d0000000a000000010000" + "00f0" + "7f",
	"0a" + "0e" + "0e0000000a000000010000" + "00f0" + "01ff",
	"0a" + "0c" + "0c0000000a000000010000" + "00f0",
	"0a" + "0c" + "0c0000000a000000010000" + "00ff",
	"0a" + "0c" + "0c0000000a000000010000" + "00c1",
	"0a" + "0e" + "0e0000000a000000010000" + "fe000000" + "",
	"0a" + "0a" + "0a0000000a000000ffff",
	"0a" + "05" + "0a00000000",
	// intset: encodings
	"0b" + "08" + "0300000000000000",
	"0b" + "0a" + "0200000002000000" + "0100",
	"0b" + "0a" + "0200000001000000" + "ffff",
	// zipmap: big length forms, end marker as first item, free byte
	"09" + "04" + "01" + "fd" + "ff" + "ff",
	"09" + "03" + "00ff",
	"09" + "02" + "01ff",
	"09" + "08" + "01" + "0161" + "0102" + "62" + "7878" + "ff",
}

func (g *gen) c12file() string {
	n := g.r.Intn(6)
	var objs []string
	db := 0
	for i := 0; i < n; i++ {
		if g.r.Intn(3) == 0 {
			db = []int{0, 1, 15, 63, 64, 300, 16383, 16384, 70000}[g.r.Intn(9)]
		}
		var ex uint64
		switch g.r.Intn(4) {
		case 0:
			ex = []uint64{1, 1600000000000, 1<<63 + 5, math.MaxUint64, g.r.Uint64()}[g.r.Intn(5)]
		}
		maxLen := 40
		if g.r.Intn(40) == 0 {
			maxLen = 17000
		}
		v := g.c12value(maxLen, 5)
		objs = append(objs, fmt.Sprintf("%d/%s/%d/%s", db, hx(g.c12str(40)), ex, v.render()))
	}
	if n == 0 {
		return "file _"
	}
	return "file " + strings.Join(objs, ";")
}

func genC12(g *gen) {
	// --- dump round trip of logical values
	n := g.pick(1500, 60000)
	for i := 0; i < n; i++ {
		maxLen, maxColl := 40, 8
		switch {
		case i%60 == 0:
			maxLen, maxColl = 17000, 3
		case i%61 == 0:
			maxLen, maxColl = 3, []int{63, 64, 65, 16383, 16384}[g.r.Intn(5)]
		}
		v := g.c12value(maxLen, maxColl)
		if maxColl > 100 {
			// force the count itself to the boundary
			for len(v.strs) < maxColl && v.kind != 'S' {
				v.strs = append(v.strs, g.c12str(3))
				if v.kind == 'H' {
					v.vals = append(v.vals, g.c12str(3))
				}
				if v.kind == 'Z' {
					v.scores = append(v.scores, g.c12score())
				}
			}
		}
		g.emit("enc %s", v.render())
	}
	// every special score once, every integer boundary as a string once
	for _, b := range scoreBits12 {
		g.emit("enc Z:6d=%016x", b)
	}
	for _, x := range intBoundaries12 {
		for _, d := range []int64{-1, 0, 1} {
			s := strconv.FormatInt(x+d, 10)
			if (d == 1 && x == math.MaxInt64) || (d == -1 && x == math.MinInt64) {
				continue
			}
			g.emit("enc S:%s", hx([]byte(s)))
			g.emit("enc L:%s,%s", hx([]byte("0"+s)), hx([]byte("+"+s)))
		}
	}
	// --- compact encodings
	n = g.pick(1800, 80000)
	for i := 0; i < n; i++ {
		g.emit("%s", g.c12cmp())
	}
	// LZF back references over long distances
	for i, nb := 0, g.pick(40, 400); i < nb; i++ {
		g.emit("%s", g.c12farLzf())
	}
	// ziplists whose 16-bit count field saturates
	for i, nb := 0, g.pick(4, 24); i < nb; i++ {
		g.emit("%s", g.c12bigZiplist())
	}
	// every ziplist header with every boundary value, in one list each
	for _, h := range []struct {
		head string
		vals []int64
	}{{"i4", []int64{0, 1, 12}}, {"i8", []int64{-128, -1, 0, 127}}, {"i16", []int64{-32768, -129, 128, 32767}},
		{"i24", []int64{-8388608, -32769, -1, 32768, 8388607}}, {"i32", []int64{-2147483648, -8388609, 8388608, 2147483647}},
		{"i64", []int64{math.MinInt64, -2147483649, 2147483648, math.MaxInt64}}} {
		var es []c12ZlEntry
		for _, v := range h.vals {
			es = append(es, c12ZlEntry{head: h.head, v: v})
		}
		g.emit("cmp 10 r%s %s", c12MinForm(len(serZiplist12(es))), c12EntriesText(es))
	}
	// zipmap item lengths around the marker values (D22)
	for _, l := range []int{251, 252, 253, 254, 255, 256, 65536} {
		k := bytes.Repeat([]byte{'k'}, l)
		v := bytes.Repeat([]byte{'v'}, l)
		for _, p := range []c12ZmPair{{[]byte("f"), v, nil}, {k, []byte("x"), nil}, {k, v, []byte("??")}} {
			blob := serZipmap12([]c12ZmPair{p})
			g.emit("cmp 9 r%s %s=%s/%s", c12MinForm(len(blob)), hx(p.k), hx(p.v), hx(p.free))
		}
	}
	// zipmaps with 253..256 pairs (count byte saturates at 254: counting pass)
	for _, c := range []int{253, 254, 255, 256} {
		var ts []string
		var ps []c12ZmPair
		for i := 0; i < c; i++ {
			p := c12ZmPair{[]byte(fmt.Sprintf("k%d", i)), []byte(fmt.Sprintf("%d", i*i)), g.bytes(i % 3)}
			ps = append(ps, p)
			ts = append(ts, hx(p.k)+"="+hx(p.v)+"/"+hx(p.free))
		}
		g.emit("cmp 9 r%s %s", c12MinForm(len(serZipmap12(ps))), strings.Join(ts, ","))
	}
	n = g.pick(300, 10000)
	for i := 0; i < n; i++ {
		g.emit("%s", g.c12ql())
	}
	// --- malformed stream
	for _, h := range handDec12 {
		g.emit("dec %s", hx(trailer12(unhx(h))))
	}
	n = g.pick(2500, 120000)
	for i := 0; i < n; i++ {
		g.emit("dec %s", hx(g.c12mutant()))
	}
	for i := 0; i < g.pick(30, 300); i++ {
		g.emit("dec %s", hx(g.bytes(g.r.Intn(14))))
	}
	// --- whole files
	n = g.pick(400, 15000)
	for i := 0; i < n; i++ {
		g.emit("%s", g.c12file())
	}
	// --- float text codec
	finite := func(b uint64) bool { return (b>>52)&0x7ff != 0x7ff }
	for _, b := range scoreBits12 {
		if finite(b) {
			g.emit("ff %016x", b)
		}
	}
	n = g.pick(1500, 1000000)
	for i := 0; i < n; i++ {
		if b := g.c12score(); finite(b) {
			g.emit("ff %016x", b)
		}
	}
	for _, t := range []string{"", "+", "-", ".", "e5", "1e", "1e+", "1.", ".5", "+.5e-3", "inf", "-inf", "+Inf", "INFINITY", "infin", "infinityx", "nan", "NaN", "+nan", "-nan",
		"0x", "0x1", "0x1p", "0x1p4", "0X1.8P-1", "0x.8p1", "0x1_0p0", "1_000", "_1", "1_", "1__0", "1_.5", "1e1_0", "1e_1", "0_1", "0b1", "1e400", "-1e400", "1e-400",
		"1e309", "1.7976931348623157e308", "1.7976931348623159e308", "1.797693134862315808e308", "4.9406564584124654e-324", "2.4703282292062327e-324",
		"2.4703282292062328e-324", "2.2250738585072014e-308", "2.2250738585072011e-308", "9007199254740993", "9007199254740992.5", "9007199254740993.0000000001",
		"0.000000000000000000000000000000000000000001", "123456789012345678901234567890", "1e23", "8.41e21", "00001", "-0", "-0.0e-999", "0e99999", "1e99999", "1e-99999",
		"1e100000", "1 ", " 1", "1\n", "1.5.5", "1e5e5", "--1", "١", "5e-324", "3e-324", "1.0000000000000002", "1.00000000000000011102230246251565404236316680908203125",
		"1.00000000000000011102230246251565404236316680908203126", "0x1.fffffffffffffp1023", "0x1.fffffffffffff8p1023", "0x1p-1074", "0x1p-1075", "0x1.8p-1075", "0x1p99999", "0x1p-99999"} {
		g.emit("pf %s", hx([]byte(t)))
	}
	n = g.pick(300, 100000)
	for i := 0; i < n; i++ {
		// random decimal texts
		var sb strings.Builder
		if g.r.Intn(3) == 0 {
			sb.WriteByte("+-"[g.r.Intn(2)])
		}
		for k := g.r.Intn(20); k > 0; k-- {
			sb.WriteByte(byte('0' + g.r.Intn(10)))
		}
		if g.r.Intn(2) == 0 {
			sb.WriteByte('.')
			for k := g.r.Intn(25); k > 0; k-- {
				sb.WriteByte(byte('0' + g.r.Intn(10)))
			}
		}
		if g.r.Intn(2) == 0 {
			sb.WriteByte("eE"[g.r.Intn(2)])
			if g.r.Intn(2) == 0 {
				sb.WriteByte("+-"[g.r.Intn(2)])
			}
			fmt.Fprintf(&sb, "%d", g.r.Intn([]int{5, 30, 330, 400}[g.r.Intn(4)]))
		}
		g.emit("pf %s", hx([]byte(sb.String())))
	}
}

// ---------------------------------------------------------------- runner

// the in-repo cupcake encoder driven exactly like pkg/rdb/encoder.go drives the external one
func c12InrepoEncodeValue(enc *cupcake.Encoder, v *c12Lval, withType bool, key []byte) {
	t := map[byte]byte{'S': 0, 'L': 1, 'T': 2, 'Z': 3, 'H': 4}[v.kind]
	if withType {
		enc.EncodeType(cupcake.ValueType(t))
	}
	if key != nil {
		enc.EncodeString(key)
	}
	if v.kind == 'S' {
		enc.EncodeString(c12nz(v.strs[0]))
		return
	}
	enc.EncodeLength(uint32(len(v.strs)))
	for i, s := range v.strs {
		enc.EncodeString(c12nz(s))
		switch v.kind {
		case 'H':
			enc.EncodeString(c12nz(v.vals[i]))
		case 'Z':
			enc.EncodeFloat(math.Float64frombits(v.scores[i]))
		}
	}
}

func runC12(f []string) string {
	switch f[0] {
	case "enc":
		v := c12ParseLval(f[1])
		p, err := rdb.EncodeDump(v.object())
		if err != nil {
			return "encerr"
		}
		var b bytes.Buffer
		enc := cupcake.NewEncoder(&b)
		c12InrepoEncodeValue(enc, v, true, nil)
		enc.EncodeDumpFooter()
		return fmt.Sprintf("ext=%s inrepo=%s v=%s v2=%s", digest12(p), digest12(b.Bytes()), c12DecodeRender(p), c12DecodeRender(b.Bytes()))
	case "cmp":
		p := c12PayloadOfCmp(f)
		return fmt.Sprintf("p=%s v=%s", digest12(p), c12DecodeRender(p))
	case "ql":
		p := c12PayloadOfQl(f)
		return fmt.Sprintf("p=%s v=%s", digest12(p), c12DecodeRender(p))
	case "dec":
		return "v=" + c12DecodeRender(unhx(f[1]))
	case "file":
		type obj struct {
			db  uint32
			key []byte
			ex  uint64
			v   *c12Lval
		}
		var objs []obj
		if f[1] != "_" {
			for _, o := range strings.Split(f[1], ";") {
				p := strings.SplitN(o, "/", 4)
				ex, err := strconv.ParseUint(p[2], 10, 64)
				if err != nil {
					panic("bad expire")
				}
				objs = append(objs, obj{uint32(atoi(p[0])), c12nz(unhx(p[1])), ex, c12ParseLval(p[3])})
			}
		}
		// pkg/rdb.Encoder (external cupcake)
		var b1 bytes.Buffer
		e1 := rdb.NewEncoder(&b1)
		if err := e1.EncodeHeader(); err != nil {
			return "encerr"
		}
		for _, o := range objs {
			if err := e1.EncodeObject(o.db, o.key, o.ex, o.v.object()); err != nil {
				return "encerr"
			}
		}
		if err := e1.EncodeFooter(); err != nil {
			return "encerr"
		}
		// in-repo cupcake encoder, same call sequence as Encoder.EncodeObject
		var b2 bytes.Buffer
		e2 := cupcake.NewEncoder(&b2)
		e2.EncodeHeader()
		cur := int64(-1)
		for _, o := range objs {
			if cur == -1 || uint32(cur) != o.db {
				cur = int64(o.db)
				e2.EncodeDatabase(int(o.db))
			}
			if o.ex != 0 {
				e2.EncodeExpiry(o.ex)
			}
			c12InrepoEncodeValue(e2, o.v, true, o.key)
		}
		e2.EncodeFooter()
		// load it back
		l := rdb.NewLoader(bytes.NewReader(b1.Bytes()))
		if err := l.Header(); err != nil {
			return fmt.Sprintf("f=%s f2=%s end=hdrerr", digest12(b1.Bytes()), digest12(b2.Bytes()))
		}
		var out []string
		rebin := "same"
		// the records are looked at only after the loader has read the whole file and its footer — as the tool does, whose loader
		// goroutine runs ahead of the consumers by up to a channel's length: a record must not change once it has been handed out
		var held []*rdb.BinEntry
		loadErr := false
		for {
			e, err := l.NextBinEntry()
			if err != nil {
				loadErr = true
				break
			}
			if e == nil {
				break
			}
			held = append(held, e)
		}
		footerErr := false
		if !loadErr {
			footerErr = l.Footer() != nil
		}
		for _, e := range held {
			oe, err := e.ObjEntry()
			if err != nil {
				out = append(out, fmt.Sprintf("%d/%s/%d/%s", e.DB, hx(e.Key), e.ExpireAt, errClass12(err)))
				continue
			}
			out = append(out, fmt.Sprintf("%d/%s/%d/%s", oe.DB, hx(oe.Key), oe.ExpireAt, clip12(c12RenderObject(oe.Value))))
			be, err := oe.BinEntry()
			if err != nil || !bytes.Equal(be.Value, e.Value) || be.DB != e.DB || !bytes.Equal(be.Key, e.Key) || be.ExpireAt != e.ExpireAt || be.Type != e.Type {
				rebin = "diff"
			}
		}
		if loadErr {
			return fmt.Sprintf("f=%s f2=%s end=err objs=%s", digest12(b1.Bytes()), digest12(b2.Bytes()), strings.Join(out, ";"))
		}
		end := "ok"
		if footerErr {
			end = "err"
		}
		return fmt.Sprintf("f=%s f2=%s end=%s objs=%s rebin=%s", digest12(b1.Bytes()), digest12(b2.Bytes()), end, strings.Join(out, ";"), rebin)
	case "ff":
		bits, err := strconv.ParseUint(f[1], 16, 64)
		if err != nil {
			return "badcase"
		}
		t := strconv.FormatFloat(math.Float64frombits(bits), 'g', 17, 64)
		back := "err"
		if x, err := strconv.ParseFloat(t, 64); err == nil {
			back = fmt.Sprintf("%016x", math.Float64bits(x))
		}
		return fmt.Sprintf("t=%s back=%s", hx([]byte(t)), back)
	case "pf":
		x, err := strconv.ParseFloat(string(unhx(f[1])), 64)
		if err != nil {
			return "b=err"
		}
		return fmt.Sprintf("b=%016x", math.Float64bits(x))
	}
	return "badcase"
}
