package main

// C10 — RESP codec: case generator and runner of the REAL pkg/redis code.
//
// Value trees travel in Polish notation, tokens separated by ',':
//   S<hex> simple string   E<hex> error   I<decimal> integer   Bn nil bulk   B<hex> bulk ("-" = empty)
//   An nil array           A<k> array, followed by its k items
// Case kinds (one line each):
//   enc  <tree>                     EncodeToBytes, then DecodeFromBytes of the result
//   dec  <hex> <seed> <bufsize>     the byte stream is served by a reader returning random fragment sizes to a
//                                   bufio.Reader of the given size (0 = default); values are pulled with
//                                   MustDecodeOpt until it aborts; per value: tree@offset/unread; then the error class
//   args <tree>                     ParseArgs
//   chg  <Bcmd> <Barg,Barg,…|->     ChangeArgsToResp, then ParseArgs of it
//   itos <decimal>                  the encoder's decimal renderer (imap table / strconv)
//   pint <hex>                      strconv.ParseInt(text, 10, 64) — the trusted-base function the model re-states

import (
	"bufio"
	"bytes"
	"fmt"
	"io"
	"io/ioutil"
	"math"
	"math/big"
	"math/rand"
	"runtime"
	"strconv"
	"strings"

	"github.com/alibaba/RedisShake/pkg/libs/errors"
	"github.com/alibaba/RedisShake/pkg/libs/log"
	"github.com/alibaba/RedisShake/pkg/redis"
)

func init() {
	props["C10"] = &prop{gen: genC10, run: runC10, init: func() {
		log.StdLog = log.New(ioutil.Discard, "") // MustDecodeOpt logs a stack trace before aborting
	}}
}

// ------------------------------------------------------------------ trees (generator side: own serializer)

type c10node struct {
	kind byte // S E I B A
	data []byte
	n    int64
	null bool
	kids []*c10node
}

func (t *c10node) tokens(out *[]string) {
	switch t.kind {
	case 'S', 'E':
		*out = append(*out, string(t.kind)+hx(t.data))
	case 'I':
		*out = append(*out, "I"+strconv.FormatInt(t.n, 10))
	case 'B':
		if t.null {
			*out = append(*out, "Bn")
		} else {
			*out = append(*out, "B"+hx(t.data))
		}
	case 'A':
		if t.null {
			*out = append(*out, "An")
		} else {
			*out = append(*out, "A"+strconv.Itoa(len(t.kids)))
			for _, k := range t.kids {
				k.tokens(out)
			}
		}
	}
}

func (t *c10node) String() string {
	var toks []string
	t.tokens(&toks)
	return strings.Join(toks, ",")
}

// wire is the generator's own RESP serializer (never the repo's): the expected bytes are computed by the
// Lean specification, this one only builds inputs.
func (t *c10node) wire(b *bytes.Buffer) {
	switch t.kind {
	case 'S':
		b.WriteByte('+')
		b.Write(t.data)
		b.WriteString("\r\n")
	case 'E':
		b.WriteByte('-')
		b.Write(t.data)
		b.WriteString("\r\n")
	case 'I':
		fmt.Fprintf(b, ":%d\r\n", t.n)
	case 'B':
		if t.null {
			b.WriteString("$-1\r\n")
		} else {
			fmt.Fprintf(b, "$%d\r\n", len(t.data))
			b.Write(t.data)
			b.WriteString("\r\n")
		}
	case 'A':
		if t.null {
			b.WriteString("*-1\r\n")
		} else {
			fmt.Fprintf(b, "*%d\r\n", len(t.kids))
			for _, k := range t.kids {
				k.wire(b)
			}
		}
	}
}

func (t *c10node) bytes() []byte {
	var b bytes.Buffer
	t.wire(&b)
	return b.Bytes()
}

var c10edgeInts = []int64{
	-1025, -1024, -1023, -1, 0, 1, 9, 10, 11, 99, 100, 101, 999, 1000, 1023, 1024, 1025,
	523263, 523264, 523265, 524286, 524287, 524288, 524289, 525311, 525312, 525313,
	math.MaxInt64, math.MaxInt64 - 1, math.MinInt64, math.MinInt64 + 1, math.MaxInt32, math.MinInt32,
	1 << 32, -(1 << 32), 999999999999999999, 1000000000000000000, -999999999999999999, -1000000000000000000,
}

func (g *gen) c10int() int64 {
	switch g.r.Intn(6) {
	case 0, 1:
		return c10edgeInts[g.r.Intn(len(c10edgeInts))]
	case 2:
		return int64(g.r.Intn(525312+2048)) - 2048 // inside / around the pre-rendered table
	case 3:
		return 523263 + int64(g.r.Intn(524289-523263+1))
	case 4:
		bits := uint(g.r.Intn(64))
		v := int64(g.r.Uint64() >> (63 - bits) >> 1)
		if g.r.Intn(2) == 0 {
			v = -v
		}
		return v
	}
	return int64(g.r.Uint64())
}

// text without LF (simple strings / errors); CR, spaces and high bytes are allowed
func (g *gen) c10text(n int) []byte {
	b := g.bytes(n)
	for i := range b {
		switch g.r.Intn(8) {
		case 0:
			b[i] = '\r'
		case 1:
			b[i] = ' '
		case 2:
			b[i] = byte('a' + g.r.Intn(26))
		}
		if b[i] == '\n' {
			b[i] = 'n'
		}
	}
	return b
}

func (g *gen) c10payload() []byte {
	var n int
	switch g.r.Intn(12) {
	case 0:
		n = 0
	case 1:
		n = 1
	case 2:
		n = 2
	case 3:
		n = []int{14, 15, 16, 17, 18, 4093, 4094, 4095, 4096, 4097, 4098}[g.r.Intn(11)]
	case 4:
		if g.thorough() && g.r.Intn(4) == 0 {
			n = 60000 + g.r.Intn(20000)
		} else {
			n = g.r.Intn(600)
		}
	default:
		n = g.r.Intn(24)
	}
	b := g.bytes(n)
	for i := range b { // binary payloads rich in CR / LF / type bytes
		if g.r.Intn(6) == 0 {
			b[i] = "\r\n\r\n $*+-:0"[g.r.Intn(11)]
		}
	}
	return b
}

func (g *gen) c10tree(depth int) *c10node {
	k := g.r.Intn(10)
	if depth <= 0 && k >= 6 {
		k = g.r.Intn(6)
	}
	switch {
	case k == 0:
		return &c10node{kind: 'S', data: g.c10text(g.r.Intn(12))}
	case k == 1:
		return &c10node{kind: 'E', data: g.c10text(g.r.Intn(12))}
	case k == 2 || k == 3:
		return &c10node{kind: 'I', n: g.c10int()}
	case k == 4 || k == 5:
		if g.r.Intn(8) == 0 {
			return &c10node{kind: 'B', null: true}
		}
		return &c10node{kind: 'B', data: g.c10payload()}
	}
	if g.r.Intn(10) == 0 {
		return &c10node{kind: 'A', null: true}
	}
	n := g.r.Intn(5)
	if g.r.Intn(10) == 0 {
		n = 0
	}
	t := &c10node{kind: 'A'}
	for i := 0; i < n; i++ {
		t.kids = append(t.kids, g.c10tree(depth-1))
	}
	return t
}

// a deep chain: array in array … down to `depth`
func (g *gen) c10chain(depth int) *c10node {
	t := g.c10tree(0)
	for i := 0; i < depth; i++ {
		p := &c10node{kind: 'A'}
		for j, at := 0, g.r.Intn(3); j < 3; j++ {
			if j == at {
				p.kids = append(p.kids, t)
			} else if g.r.Intn(2) == 0 {
				p.kids = append(p.kids, g.c10tree(0))
			}
		}
		t = p
	}
	return t
}

func (g *gen) c10command() *c10node {
	t := &c10node{kind: 'A'}
	names := []string{"SET", "get", "PiNg", "select", "HSET", "del", "ZADD", "x", "MULTI"}
	t.kids = append(t.kids, &c10node{kind: 'B', data: []byte(names[g.r.Intn(len(names))])})
	for i, n := 0, g.r.Intn(5); i < n; i++ {
		t.kids = append(t.kids, &c10node{kind: 'B', data: g.c10payload()})
	}
	return t
}

// inline (space separated, non-RESP) command line incl. its terminator
func (g *gen) c10inline() []byte {
	var b bytes.Buffer
	first := "PpGgSsxyz_!~\r \x00\x7f\xff\"0159"
	words := g.r.Intn(5)
	switch g.r.Intn(12) {
	case 0: // empty line
		return []byte("\r\n")
	case 1: // only spaces
		b.WriteString(strings.Repeat(" ", 1+g.r.Intn(4)))
		b.WriteString("\r\n")
		return b.Bytes()
	}
	b.WriteByte(first[g.r.Intn(len(first))])
	for i := 0; i <= words; i++ {
		for j, n := 0, g.r.Intn(7); j < n; j++ {
			c := g.bytes(1)[0]
			if g.r.Intn(3) > 0 {
				c = byte('a' + g.r.Intn(26))
			}
			if c == '\n' {
				c = '\r'
			}
			b.WriteByte(c)
		}
		if i < words {
			b.WriteString(strings.Repeat(" ", 1+g.r.Intn(3)/2))
		}
	}
	if g.r.Intn(6) == 0 {
		b.WriteByte(' ')
	}
	if g.r.Intn(4) == 0 && b.Len() > 4000 {
		b.Truncate(4000)
	}
	switch g.r.Intn(14) {
	case 0:
		b.WriteString("\n") // missing CR
	case 1:
		// no terminator at all (truncated line)
	default:
		b.WriteString("\r\n")
	}
	return b.Bytes()
}

// c10dangerous: a length field that would make the real decoder allocate more than the harness can afford
// (or hit the Go runtime's platform-dependent makeslice limit, which the model does not describe).
// Kept: lengths up to 2^24, and for '$' the two values whose `n+2` overflows int64 (modelled).
func c10dangerous(s []byte) bool {
	lim := big.NewInt(1 << 24)
	top := new(big.Int).Lsh(big.NewInt(1), 63)
	wrap := new(big.Int).Sub(top, big.NewInt(2))
	for i := 0; i < len(s); i++ {
		if s[i] != '$' && s[i] != '*' {
			continue
		}
		j := i + 1
		if j < len(s) && s[j] == '+' {
			j++
		}
		k := j
		for k < len(s) && s[k] >= '0' && s[k] <= '9' {
			k++
		}
		if k-j < 8 {
			continue
		}
		v, _ := new(big.Int).SetString(string(s[j:k]), 10)
		if v.Cmp(lim) <= 0 || v.Cmp(top) >= 0 {
			continue
		}
		if s[i] == '$' && v.Cmp(wrap) >= 0 {
			continue
		}
		return true
	}
	return false
}

func (g *gen) c10dec(stream []byte) {
	if c10dangerous(stream) {
		return
	}
	size := 0
	switch g.r.Intn(4) {
	case 0:
		size = 16
	case 1:
		size = 16 + g.r.Intn(64)
	}
	g.emit("dec %s %d %d", hx(stream), g.r.Int63n(1<<31), size)
}

func (g *gen) c10newlines(b *bytes.Buffer) {
	if g.r.Intn(3) == 0 {
		b.WriteString(strings.Repeat("\n", 1+g.r.Intn(3)))
	}
}

// values around the sizes at which a decoder might switch to another way of reading (64 KiB, 1 MiB and the bufio sizes),
// alone, behind keep-alives, inside a command array and followed by another value; some cut short or with a bad terminator
func (g *gen) c10big() {
	sizes := []int{4094, 4096, 4097, 8190, 8192, 65533, 65534, 65535, 65536, 65537, 65538, 70000, 131072, 262145}
	if g.thorough() {
		sizes = append(sizes, 1048573, 1048574, 1048575, 1048576, 1048577, 1048578, 1100000, 2097153, 4194305, 16777217, 20000000)
	} else {
		sizes = append(sizes, 1048574, 1048575, 1048576, 1048578, 2097153)
	}
	for i, n := range sizes {
		a := 1 + 2*g.r.Intn(100)
		hdr := fmt.Sprintf("$%d\r\n", n)
		body := fmt.Sprintf("r%dx%d", n, a)
		tail := "h" + hx([]byte("\r\n"))
		next := "h" + hx([]byte(":7\r\n"))
		bufsz := []int{0, 16, 64}[i%3]
		seed := g.r.Int63n(1 << 31)
		g.emit("decbig h%s+%s+%s %d %d", hx([]byte(hdr)), body, tail, seed, bufsz)
		g.emit("decbig h%s+%s+%s+%s %d %d", hx([]byte("\n\n"+hdr)), body, tail, next, seed, bufsz)
		g.emit("decbig h%s+%s+%s+%s %d %d", hx([]byte("*3\r\n$3\r\nset\r\n$1\r\nk\r\n"+hdr)), body, tail, next, seed, bufsz)
		switch i % 3 {
		case 0: // cut inside the value
			g.emit("decbig h%s+r%dx%d %d %d", hx([]byte(hdr)), n-1-g.r.Intn(3), a, seed, bufsz)
		case 1: // cut inside the terminator
			g.emit("decbig h%s+%s+h0d %d %d", hx([]byte(hdr)), body, seed, bufsz)
		case 2: // wrong terminator
			g.emit("decbig h%s+%s+h0d0d+%s %d %d", hx([]byte(hdr)), body, next, seed, bufsz)
		}
	}
}

// arrays of many elements (around 1024, a size at which a decoder might stop pre-allocating from the header), flat and nested,
// followed by another value
func (g *gen) c10wide() {
	for _, n := range g.pickInts([]int{1023, 1024, 1025, 1026, 2049, 5000}, []int{255, 256, 257, 1023, 1024, 1025, 1026, 2047, 2048, 2049, 4097, 5000, 65537, 200000}) {
		elem := []string{":1\r\n", "$1\r\nx\r\n", "$-1\r\n", "+a\r\n"}[g.r.Intn(4)]
		hdr := fmt.Sprintf("*%d\r\n", n)
		next := "h" + hx([]byte(":7\r\n"))
		seed := g.r.Int63n(1 << 31)
		g.emit("decbig h%s+m%dx%s+%s %d 0", hx([]byte(hdr)), n, hx([]byte(elem)), next, seed)
		g.emit("decbig h%s+m%dx%s+%s %d 16", hx([]byte("*2\r\n:5\r\n"+hdr)), n, hx([]byte(elem)), next, seed)
		g.emit("decbig h%s+m%dx%s %d 0", hx([]byte(hdr)), n-1, hx([]byte(elem)), seed) // one element short
	}
}

func genC10(g *gen) {
	g.c10big()
	g.c10wide()
	// --- 0. the D13 witness and a few fixed shapes, always first
	for _, s := range []string{"PING\r\n", "PING\r\n:1\r\n", "\n\nSET a  b \r\n\n+OK\r\n", "\r\n", "   \r\n:5\r\n", "x\n", "*1\r\n$4\r\nPING\r\n",
		"$-1\r\n*-1\r\n$0\r\n\r\n*0\r\n", "*2\r\n\n:1\r\n\n:2\r\n", "*1\r\nPING\r\n", "*1\r\n\r\n", "$-2\r\n", "*-2\r\n", "$x\r\n", "*1x\r\n", ":\r\n", ":+\r\n", ":-\r\n",
		":+5\r\n", ":-0\r\n", ":007\r\n", ":9223372036854775807\r\n", ":9223372036854775808\r\n", ":-9223372036854775808\r\n", ":-9223372036854775809\r\n",
		":99999999999999999999999\r\n", ":1_0\r\n", ": 1\r\n", ":0x10\r\n", "+a\rb\r\n", "+a\r\r\n", "+\n", "+a\n", "$3\r\nab\r\n\r\n", "$3\r\nabcd\r\n", "$3\r\nabc\n\r",
		"$9223372036854775806\r\nab", "$9223372036854775807\r\nab", "$+3\r\nabc\r\n", "$03\r\nabc\r\n", "*+1\r\n:1\r\n", "*01\r\n:1\r\n", "+OK\r\n\n", "\n", ""} {
		g.c10dec([]byte(s))
	}

	// --- 1. encoder / round trip on trees
	nt := g.pick(700, 12000)
	var pool []*c10node
	for i := 0; i < nt; i++ {
		var t *c10node
		switch {
		case i%17 == 0:
			t = g.c10chain(1 + g.r.Intn(6))
		case i%5 == 0:
			t = g.c10command()
		default:
			t = g.c10tree(g.r.Intn(7))
		}
		pool = append(pool, t)
		g.emit("enc %s", t)
	}
	for _, v := range c10edgeInts {
		g.emit("enc I%d", v)
		g.emit("itos %d", v)
	}
	// trees that are NOT well formed (LF inside a simple string): the encoder does not check, the decoder splits there
	for i := 0; i < g.pick(20, 200); i++ {
		d := g.c10text(1 + g.r.Intn(8))
		d[g.r.Intn(len(d))] = '\n'
		g.emit("enc %s", &c10node{kind: "SE"[g.r.Intn(2)], data: d})
	}

	// --- 2. decimal renderer across the table boundaries
	if g.thorough() {
		for v := int64(-1100); v <= 525400; v++ {
			g.emit("itos %d", v)
		}
	} else {
		for v := int64(-1030); v <= -1018; v++ {
			g.emit("itos %d", v)
		}
		for v := int64(524280); v <= 524295; v++ {
			g.emit("itos %d", v)
		}
	}
	for i := 0; i < g.pick(1500, 30000); i++ {
		g.emit("itos %d", g.c10int())
	}

	// --- 3. integer texts (strconv.ParseInt is trusted; the model restates it)
	digits := "0123456789"
	for i := 0; i < g.pick(1500, 30000); i++ {
		var s []byte
		switch g.r.Intn(5) {
		case 0:
			s = []byte(strconv.FormatInt(g.c10int(), 10))
		case 1: // around the 64-bit limits
			v := new(big.Int).Lsh(big.NewInt(1), 63)
			v.Add(v, big.NewInt(int64(g.r.Intn(7)-3)))
			if g.r.Intn(2) == 0 {
				v.Neg(v)
			}
			s = []byte(v.String())
		case 2: // sign / zeros / long digit runs
			s = []byte([]string{"", "+", "-", "+-1", "-+1", "--1"}[g.r.Intn(6)])
			for j, n := 0, g.r.Intn(26); j < n; j++ {
				s = append(s, digits[g.r.Intn(10)])
			}
		default: // one foreign byte somewhere in a number
			s = []byte(strconv.FormatInt(g.c10int(), 10))
			s[g.r.Intn(len(s))] = "+-_ .ex/:\x00\xff\r"[g.r.Intn(12)]
		}
		g.emit("pint %s", hx(s))
	}

	// --- 4. streams: values, inline lines, keep-alive newlines, through a fragmenting reader
	ns := g.pick(1500, 25000)
	for i := 0; i < ns; i++ {
		var b bytes.Buffer
		for j, n := 0, 1+g.r.Intn(5); j < n; j++ {
			g.c10newlines(&b)
			switch g.r.Intn(10) {
			case 0, 1, 2:
				b.Write(g.c10inline())
			case 3:
				b.Write(g.c10command().bytes())
			default:
				b.Write(pool[g.r.Intn(len(pool))].bytes())
			}
		}
		g.c10newlines(&b)
		if g.r.Intn(8) == 0 { // tail garbage / truncation
			b.Truncate(g.r.Intn(b.Len() + 1))
		}
		g.c10dec(b.Bytes())
	}
	// inline lines on their own (D13 region), incl. long ones crossing the bufio buffer
	for i := 0; i < g.pick(400, 6000); i++ {
		var b bytes.Buffer
		g.c10newlines(&b)
		l := g.c10inline()
		if i%25 == 0 {
			l = append([]byte("k"), bytes.Repeat([]byte("ab c"), 1100+g.r.Intn(50))...)
			l = append(l, "\r\n"...)
		}
		b.Write(l)
		if g.r.Intn(2) == 0 {
			b.WriteString(":7\r\n")
		}
		g.c10dec(b.Bytes())
	}

	// --- 5. every single-byte corruption and every truncation of small encodings
	nc := g.pick(200, 260)
	subs := []byte{'\n', '\r', ' ', '0', '1', '9', '-', '+', ':', '$', '*', 'x', 0, 255}
	for i := 0; i < nc; i++ {
		var t *c10node
		for {
			switch g.r.Intn(4) {
			case 0:
				t = g.c10command()
			case 1:
				t = g.c10chain(1 + g.r.Intn(3))
			default:
				t = g.c10tree(2)
			}
			if n := len(t.bytes()); n >= 4 && n <= g.pick(40, 60) {
				break
			}
		}
		e := t.bytes()
		sentinel := []byte(nil)
		if i%2 == 0 {
			sentinel = []byte(":7\r\n")
		}
		for pos := 0; pos < len(e); pos++ {
			var cand []byte
			if g.thorough() || i < 12 {
				for v := 0; v < 256; v++ {
					cand = append(cand, byte(v))
				}
			} else {
				cand = append(append([]byte{}, subs...), e[pos]^1, e[pos]^0x80, e[pos]+1, e[pos]-1)
			}
			seen := map[byte]bool{e[pos]: true}
			for _, v := range cand {
				if seen[v] {
					continue
				}
				seen[v] = true
				m := append([]byte{}, e...)
				m[pos] = v
				g.c10dec(append(m, sentinel...))
			}
			// truncation at pos, one byte deleted at pos, one byte inserted at pos
			g.c10dec(e[:pos])
			g.c10dec(append(append(append([]byte{}, e[:pos]...), e[pos+1:]...), sentinel...))
			g.c10dec(append(append(append(append([]byte{}, e[:pos]...), subs[g.r.Intn(len(subs))]), e[pos:]...), sentinel...))
		}
	}

	// --- 6. command extraction
	for i := 0; i < g.pick(500, 8000); i++ {
		var t *c10node
		switch g.r.Intn(6) {
		case 0:
			t = g.c10tree(2)
		case 1:
			t = g.c10command()
			t.kids[g.r.Intn(len(t.kids))] = g.c10tree(1)
		case 2:
			t = g.c10command()
			t.kids[0] = &c10node{kind: 'B', null: g.r.Intn(2) == 0}
		default:
			t = g.c10command()
			if g.r.Intn(4) == 0 {
				t.kids[len(t.kids)-1] = &c10node{kind: 'B', null: true}
			}
		}
		// command names are ASCII: strings.ToLower's Unicode mapping (and its U+FFFD substitution for invalid
		// UTF-8) is outside the model
		if t.kind == 'A' && len(t.kids) > 0 && t.kids[0].kind == 'B' {
			for j := range t.kids[0].data {
				t.kids[0].data[j] &= 0x7f
			}
		}
		g.emit("args %s", t)
		c := g.c10command()
		var toks []string
		for _, k := range c.kids[1:] {
			if g.r.Intn(7) == 0 {
				k = &c10node{kind: 'B', null: true}
			}
			toks = append(toks, k.String())
		}
		a := strings.Join(toks, ",")
		if a == "" {
			a = "-"
		}
		cmd := c.kids[0]
		if g.r.Intn(12) == 0 {
			cmd = &c10node{kind: 'B', null: g.r.Intn(2) == 0}
		}
		g.emit("chg %s %s", cmd, a)
	}
}

// ------------------------------------------------------------------ runner (real code)

func c10parse(toks []string, pos *int) redis.Resp {
	if *pos >= len(toks) {
		panic("short tree")
	}
	t := toks[*pos]
	*pos++
	switch t[0] {
	case 'S':
		return &redis.String{Value: c10bytes(t[1:])}
	case 'E':
		return &redis.Error{Value: c10bytes(t[1:])}
	case 'I':
		v, err := strconv.ParseInt(t[1:], 10, 64)
		if err != nil {
			panic("bad int token")
		}
		return redis.NewInt(v)
	case 'B':
		if t == "Bn" {
			return redis.NewBulkBytes(nil)
		}
		return redis.NewBulkBytes(c10bytes(t[1:]))
	case 'A':
		if t == "An" {
			return &redis.Array{}
		}
		n := atoi(t[1:])
		a := &redis.Array{Value: make([]redis.Resp, n)}
		for i := 0; i < n; i++ {
			a.Value[i] = c10parse(toks, pos)
		}
		return a
	}
	panic("bad token")
}

// non-nil even when empty ("-")
func c10bytes(h string) []byte {
	b := unhx(h)
	if b == nil {
		b = []byte{}
	}
	return b
}

func c10render(r redis.Resp, out *[]string) {
	switch x := r.(type) {
	case *redis.String:
		*out = append(*out, "S"+hx(x.Value))
	case *redis.Error:
		*out = append(*out, "E"+hx(x.Value))
	case *redis.Int:
		*out = append(*out, "I"+strconv.FormatInt(x.Value, 10))
	case *redis.BulkBytes:
		if x.Value == nil {
			*out = append(*out, "Bn")
		} else {
			*out = append(*out, "B"+hx(x.Value))
		}
	case *redis.Array:
		if x.Value == nil {
			*out = append(*out, "An")
		} else {
			*out = append(*out, "A"+strconv.Itoa(len(x.Value)))
			for _, k := range x.Value {
				c10render(k, out)
			}
		}
	default:
		*out = append(*out, fmt.Sprintf("?%T", r))
	}
}

// decbig: the stream is given as pieces joined by '+': h<hex> = those bytes, r<n>x<a> = n bytes, the i-th being
// (i*a + i/256) mod 256; values of more than 64 bytes are printed as #<len>:<fnv1a>
func c10expand(spec string) []byte {
	var out []byte
	for _, p := range strings.Split(spec, "+") {
		switch p[0] {
		case 'h':
			out = append(out, unhx(p[1:])...)
		case 'r':
			f := strings.Split(p[1:], "x")
			n, a := atoi(f[0]), atoi(f[1])
			for i := 0; i < n; i++ {
				out = append(out, byte(i*a+i/256))
			}
		case 'm': // m<count>x<hex>: the bytes <hex>, <count> times
			f := strings.Split(p[1:], "x")
			chunk := unhx(f[1])
			for i := atoi(f[0]); i > 0; i-- {
				out = append(out, chunk...)
			}
		default:
			panic("bad piece " + p)
		}
	}
	return out
}

func unhx0(kind, s string) []byte {
	if kind == "decbig" {
		return c10expand(s)
	}
	return unhx(s)
}

func c10showBig(r redis.Resp) string {
	var toks []string
	c10render(r, &toks)
	for i, t := range toks {
		if (t[0] == 'B' || t[0] == 'S' || t[0] == 'E') && len(t) > 129 {
			v := unhx(t[1:])
			toks[i] = fmt.Sprintf("%c#%d:%016x", t[0], len(v), fnv1a(v))
		}
	}
	return strings.Join(toks, ",")
}

func c10show(r redis.Resp) string {
	var toks []string
	c10render(r, &toks)
	return strings.Join(toks, ",")
}

// c10errClass maps a decoder error to the small enum the model uses. Sentinel errors are recognised by
// identity/text through errors.Equal, EOFs and strconv errors by type; whatever else the decoder returns is its
// only formatted error ("bad resp type …"), so the wording of that message is not an observable.
func c10errClass(err error) string {
	c := errors.Cause(err)
	switch {
	case c == io.EOF || c == io.ErrUnexpectedEOF:
		return "eof"
	case errors.Equal(err, redis.ErrBadRespCRLFEnd):
		return "crlf"
	case errors.Equal(err, redis.ErrBadRespBytesLen):
		return "byteslen"
	case errors.Equal(err, redis.ErrBadRespArrayLen):
		return "arraylen"
	}
	if _, ok := c.(*strconv.NumError); ok {
		return "badint"
	}
	return "badtype"
}

// c10fragReader hands the stream out in random fragment sizes (occasionally an isolated empty read, and
// sometimes the final bytes together with io.EOF) and counts what it has delivered.
type c10fragReader struct {
	data      []byte
	pos       int
	r         *rand.Rand
	lastEmpty bool
}

func (f *c10fragReader) Read(p []byte) (int, error) {
	if f.pos >= len(f.data) {
		return 0, io.EOF
	}
	if !f.lastEmpty && f.r.Intn(9) == 0 {
		f.lastEmpty = true
		return 0, nil
	}
	f.lastEmpty = false
	n := 1 + f.r.Intn(7)
	if f.r.Intn(4) == 0 {
		n = 1 + f.r.Intn(5000)
	}
	if n > len(p) {
		n = len(p)
	}
	if n > len(f.data)-f.pos {
		n = len(f.data) - f.pos
	}
	copy(p, f.data[f.pos:f.pos+n])
	f.pos += n
	if f.pos == len(f.data) && f.r.Intn(2) == 0 {
		return n, io.EOF
	}
	return n, nil
}

// one value through the exported entry point; ok=false when it aborted (log.PanicError -> VerifExit)
func c10must(d *redis.Decoder) (r redis.Resp, off int64, class string) {
	defer func() {
		if e := recover(); e != nil {
			if _, isRt := e.(runtime.Error); isRt {
				class = "alloc"
			} else if _, isExit := e.(log.VerifExit); isExit {
				class = "abort"
			} else {
				panic(e)
			}
		}
	}()
	r, off = redis.MustDecodeOpt(d)
	return r, off, ""
}

func c10hook(d *redis.Decoder) (r redis.Resp, off int64, err error, class string) {
	defer func() {
		if e := recover(); e != nil {
			if _, isRt := e.(runtime.Error); isRt {
				class = "alloc"
			} else {
				panic(e)
			}
		}
	}()
	r, off, err = redis.VerifC10Decode(d)
	return
}

func c10parseArgs(r redis.Resp) string {
	cmd, args, err := redis.ParseArgs(r)
	if err != nil {
		return "!err" // ParseArgs errors are free-form messages: only "refused" is compared
	}
	var toks []string
	for _, a := range args {
		if a == nil {
			toks = append(toks, "Bn")
		} else {
			toks = append(toks, "B"+hx(a))
		}
	}
	s := strings.Join(toks, ",")
	if s == "" {
		s = "-"
	}
	return "ok:" + hx([]byte(cmd)) + ":" + s
}

func runC10(f []string) string {
	switch f[0] {
	case "enc":
		pos := 0
		t := c10parse(strings.Split(f[1], ","), &pos)
		b, err := redis.EncodeToBytes(t)
		if err != nil {
			return "!encode"
		}
		back, err := redis.DecodeFromBytes(b)
		if err != nil {
			return hx(b) + " !" + c10errClass(err)
		}
		return hx(b) + " " + c10show(back)
	case "dec", "decbig":
		data := unhx0(f[0], f[1])
		show := c10show
		if f[0] == "decbig" {
			show = c10showBig
		}
		seed, _ := strconv.ParseInt(f[2], 10, 64)
		fr := &c10fragReader{data: data, r: rand.New(rand.NewSource(seed))}
		var br *bufio.Reader
		if size := atoi(f[3]); size == 0 {
			br = bufio.NewReader(fr)
		} else {
			br = bufio.NewReaderSize(fr, size)
		}
		d := redis.NewDecoder(br)
		var out []string
		count := 0
		abortClass := ""
		// the decoded values are rendered only after the whole stream has been read — as the tool does, which queues what it
		// decodes while the reader goes on: a value must not change once it has been returned
		type held struct {
			r           redis.Resp
			off         int64
			unread      int
		}
		var hs []held
		for {
			r, off, class := c10must(d)
			if class != "" {
				abortClass = class
				break
			}
			hs = append(hs, held{r, off, len(data) - fr.pos + br.Buffered()})
			count++
		}
		for _, h := range hs {
			out = append(out, fmt.Sprintf("%s@%d/%d", show(h.r), h.off, h.unread))
		}
		// the error class, from a second decoder over the same bytes (MustDecodeOpt hides the error)
		d2 := redis.NewDecoder(bufio.NewReader(bytes.NewReader(data)))
		class := "?"
		for i := 0; i <= count; i++ {
			_, _, err, rt := c10hook(d2)
			if i < count && (err != nil || rt != "") {
				class = "inconsistent-early-error"
				break
			}
			if i == count {
				switch {
				case rt != "":
					class = rt
				case err == nil:
					class = "inconsistent-no-error"
				default:
					class = c10errClass(err)
				}
			}
		}
		if (abortClass == "alloc") != (class == "alloc") {
			class = "inconsistent-" + abortClass + "-" + class
		}
		out = append(out, "!"+class)
		return strings.Join(out, ";")
	case "args":
		pos := 0
		return c10parseArgs(c10parse(strings.Split(f[1], ","), &pos))
	case "chg":
		tobytes := func(tok string) []byte {
			if tok == "Bn" {
				return nil
			}
			return c10bytes(tok[1:])
		}
		var args [][]byte
		if f[2] != "-" {
			for _, tok := range strings.Split(f[2], ",") {
				args = append(args, tobytes(tok))
			}
		}
		r := redis.ChangeArgsToResp(tobytes(f[1]), args)
		return c10show(r) + " " + c10parseArgs(r)
	case "itos":
		v, err := strconv.ParseInt(f[1], 10, 64)
		if err != nil {
			return "badcase"
		}
		return hx([]byte(redis.VerifC10Itos(v)))
	case "pint":
		v, err := strconv.ParseInt(string(unhx(f[1])), 10, 64)
		if err != nil {
			return "!badint"
		}
		return fmt.Sprintf("ok:%d", v)
	}
	return "badcase"
}
