package main

// C07: trace validation of the parallel full-sync / restore worker pools.
//
// The REAL `syncRDBFile` (dbSync) and `restoreRDBFile` (restore mode) are run with conf.Options.Parallel in 1..8 over an RDB
// file serialised here, against a loopback RESP server ("fake target") that
//   * keeps nothing but a log: every command of every connection in the one global order in which it was processed,
//   * delays its replies per connection by seeded small amounts (so the goroutine interleaving varies with the seed),
//   * can answer the RESTORE of one chosen key with an error (error_reported),
//   * can hold back the processing of one command word (used to make the DEL/HSET race of D12 reproducible).
// The result line is the raw trace; `rsdriver C07` (lean/RSVerif/Drive/C07.lean) decides whether it is a behaviour the
// proved model allows (db discipline, each entry once, per-connection order, result, value equality).
//
// case line:  <trace|chunk> <sync|restore> P=<n> tdb=<-1|d> kx=<rewrite|none|ignore> lua=<0|1> fail=<keyhex|-> dseed=<n>
//             slow=<word:ms|-> vlen=<n> fdb=<b|w:d,d|-> fkey=<b|w:hex,hex|-> fslot=<n,n|-> E=<entry;entry;…|->
//   entry  =  db:keyhex:kind:expire:FLAGS:fieldhex,fieldhex     kind 0 string, 1 lua aux, 2 big hash (first chunk), 3 continuation chunk
//   FLAGS  =  three 0/1 digits: filtered by db / by key / by slot — fixed by construction of the filter lists
// result line: res=<ok|err|nores|timeout|panic> T=<conn:word:keyhex:arghex:ok,…|->      (select: conn:select:<db>:-:1)

import (
	"bufio"
	"bytes"
	"fmt"
	"io"
	"math/rand"
	"net"
	"os"
	"os/exec"
	"path/filepath"
	"sort"
	"strconv"
	"strings"
	"sync"
	"time"

	"github.com/alibaba/RedisShake/pkg/libs/log"
	run "github.com/alibaba/RedisShake/redis-shake"
	conf "github.com/alibaba/RedisShake/redis-shake/configure"
	"github.com/alibaba/RedisShake/redis-shake/dbSync"
)

func init() {
	props["C07"] = &prop{gen: genC07, run: runC07, init: func() { log.SetLevel(log.LEVEL_NONE) }}
}

// ---------------------------------------------------------------- entries and their RDB serialisation

type c07Entry struct {
	db     int
	key    []byte
	kind   int
	exp    bool
	flags  string
	fields [][]byte
}

func c07Len(n int) []byte {
	switch {
	case n < 64:
		return []byte{byte(n)}
	case n < 16384:
		return []byte{0x40 | byte(n>>8), byte(n)}
	default:
		return []byte{0x80, byte(n >> 24), byte(n >> 16), byte(n >> 8), byte(n)}
	}
}

func c07Str(s []byte) []byte { return append(c07Len(len(s)), s...) }

// value stored under a hash field: vlen bytes derived from the field name
func c07FieldValue(f []byte, vlen int) []byte {
	v := make([]byte, vlen)
	for i := range v {
		if len(f) > 0 {
			v[i] = 'a' + f[i%len(f)]%26
		} else {
			v[i] = 'z'
		}
	}
	return v
}

const c07ExpireAtMs = uint64(4102444800000) // 2100-01-01, always in the future

func c07RDB(es []c07Entry, vlen int) []byte {
	b := []byte("REDIS0007")
	cur := -1
	for i := 0; i < len(es); i++ {
		e := es[i]
		if e.kind == 3 {
			continue // serialised as part of the hash that starts with the preceding kind-2 entry
		}
		if e.db != cur {
			b = append(b, 0xfe)
			b = append(b, c07Len(e.db)...)
			cur = e.db
		}
		if e.exp && e.kind != 1 {
			b = append(b, 0xfc)
			for k := 0; k < 8; k++ {
				b = append(b, byte(c07ExpireAtMs>>(8*uint(k))))
			}
		}
		switch e.kind {
		case 0:
			b = append(b, 0)
			b = append(b, c07Str(e.key)...)
			b = append(b, c07Str(append([]byte("v:"), e.key...))...)
		case 1:
			b = append(b, 0xfa)
			b = append(b, c07Str(e.key)...)
			b = append(b, c07Str(e.fields[0])...)
		case 2:
			fields := append([][]byte{}, e.fields...)
			for j := i + 1; j < len(es) && es[j].kind == 3 && es[j].db == e.db && bytes.Equal(es[j].key, e.key); j++ {
				fields = append(fields, es[j].fields...)
			}
			b = append(b, 4)
			b = append(b, c07Str(e.key)...)
			b = append(b, c07Len(len(fields))...)
			for _, f := range fields {
				b = append(b, c07Str(f)...)
				b = append(b, c07Str(c07FieldValue(f, vlen))...)
			}
		case 4:
			// a list in the quicklist encoding (one node), large enough for the element-wise route
			var body []byte
			prev := 0
			tail := 10
			for j, f := range e.fields {
				if j == len(e.fields)-1 {
					tail = 10 + len(body)
				}
				x := append([]byte{byte(prev), byte(len(f))}, f...)
				prev = len(x)
				body = append(body, x...)
			}
			le := func(n, w int) []byte {
				o := make([]byte, w)
				for k := 0; k < w; k++ {
					o[k] = byte(n >> (8 * uint(k)))
				}
				return o
			}
			zl := append(append(append(le(10+len(body)+1, 4), le(tail, 4)...), le(len(e.fields), 2)...), body...)
			zl = append(zl, 0xff)
			b = append(b, 14)
			b = append(b, c07Str(e.key)...)
			b = append(b, c07Len(1)...)
			b = append(b, c07Str(zl)...)
		}
	}
	b = append(b, 0xff)
	sum := crc64bitwise(0, b)
	for k := 0; k < 8; k++ {
		b = append(b, byte(sum>>(8*uint(k))))
	}
	return b
}

func c07ParseEntries(s string) []c07Entry {
	if s == "-" || s == "" {
		return nil
	}
	var es []c07Entry
	for _, it := range strings.Split(s, ";") {
		p := strings.Split(it, ":")
		if len(p) != 6 {
			panic("bad entry " + it)
		}
		e := c07Entry{db: atoi(p[0]), key: unhx(p[1]), kind: atoi(p[2]), exp: p[3] == "1", flags: p[4]}
		if p[5] != "-" {
			for _, f := range strings.Split(p[5], ",") {
				e.fields = append(e.fields, unhx(f))
			}
		}
		es = append(es, e)
	}
	return es
}

func (e c07Entry) String() string {
	fs := "-"
	if len(e.fields) > 0 {
		var parts []string
		for _, f := range e.fields {
			parts = append(parts, hx(f))
		}
		fs = strings.Join(parts, ",")
	}
	x := 0
	if e.exp {
		x = 1
	}
	return fmt.Sprintf("%d:%s:%d:%d:%s:%s", e.db, hx(e.key), e.kind, x, e.flags, fs)
}

// CRC16/XMODEM as used by Redis Cluster, written here so that slot flags do not depend on repo code
func c07Slot(key []byte) int {
	// the hash-tag rule of the Redis Cluster specification: the text between the first '{' and the first '}' after it, if not empty
	if i := bytes.IndexByte(key, '{'); i >= 0 {
		if j := bytes.IndexByte(key[i+1:], '}'); j > 0 {
			key = key[i+1 : i+1+j]
		}
	}
	var crc uint16
	for _, b := range key {
		crc ^= uint16(b) << 8
		for i := 0; i < 8; i++ {
			if crc&0x8000 != 0 {
				crc = crc<<1 ^ 0x1021
			} else {
				crc <<= 1
			}
		}
	}
	return int(crc & 0x3fff)
}

// ---------------------------------------------------------------- fake target

type c07Item struct {
	conn int
	word string
	key  []byte
	arg  []byte
	db   int
	ok   bool
}

type c07Session struct {
	mu       sync.Mutex
	items    []c07Item
	nconn    int
	failKey  []byte
	noSelect int // >= 0: SELECT of this database is refused ("-ERR DB index is out of range"), -1 / 0-value+flag: none
	hasNoSel bool
	dseed    int64
	slowWord string
	slowDur  time.Duration
}

var c07Srv struct {
	once sync.Once
	addr string
	mu   sync.Mutex
	cur  *c07Session
}

func c07Start() {
	c07Srv.once.Do(func() {
		ln, err := net.Listen("tcp", "127.0.0.1:0")
		if err != nil {
			panic(err)
		}
		c07Srv.addr = ln.Addr().String()
		go func() {
			for {
				c, err := ln.Accept()
				if err != nil {
					return
				}
				go c07Serve(c)
			}
		}()
	})
}

func c07ReadCommand(br *bufio.Reader) ([][]byte, error) {
	line, err := br.ReadString('\n')
	if err != nil {
		return nil, err
	}
	line = strings.TrimRight(line, "\r\n")
	if len(line) == 0 || line[0] != '*' {
		return nil, fmt.Errorf("not an array: %q", line)
	}
	n, err := strconv.Atoi(line[1:])
	if err != nil {
		return nil, err
	}
	args := make([][]byte, 0, n)
	for i := 0; i < n; i++ {
		h, err := br.ReadString('\n')
		if err != nil {
			return nil, err
		}
		h = strings.TrimRight(h, "\r\n")
		if len(h) == 0 || h[0] != '$' {
			return nil, fmt.Errorf("not a bulk: %q", h)
		}
		l, err := strconv.Atoi(h[1:])
		if err != nil {
			return nil, err
		}
		buf := make([]byte, l+2)
		if _, err := io.ReadFull(br, buf); err != nil {
			return nil, err
		}
		args = append(args, buf[:l])
	}
	return args, nil
}

// A connection belongs to the session (= case) that is current when its first command arrives and gets the next
// connection number of that session then: a worker of an earlier case that connected and left without sending
// anything is accepted late and must not count.
func c07Serve(c net.Conn) {
	defer c.Close()
	br := bufio.NewReader(c)
	var s *c07Session
	var rng *rand.Rand
	var base time.Duration
	id := -1
	for {
		args, err := c07ReadCommand(br)
		if err != nil || len(args) == 0 {
			return
		}
		if s == nil {
			c07Srv.mu.Lock()
			s = c07Srv.cur
			c07Srv.mu.Unlock()
			if s == nil {
				return
			}
			s.mu.Lock()
			id = s.nconn
			s.nconn++
			s.mu.Unlock()
			rng = rand.New(rand.NewSource(s.dseed*131 + int64(id)*7919))
			base = []time.Duration{0, 20 * time.Microsecond, 100 * time.Microsecond, 400 * time.Microsecond}[rng.Intn(4)]
		}
		word := strings.ToLower(string(args[0]))
		if word == s.slowWord && s.slowDur > 0 {
			time.Sleep(s.slowDur) // the command is still "on the wire"
		}
		it := c07Item{conn: id, word: word, ok: true}
		reply := "+OK\r\n"
		arg := func(i int) []byte {
			if i < len(args) {
				return args[i]
			}
			return nil
		}
		switch word {
		case "auth":
			c.Write([]byte(reply))
			continue
		case "select":
			it.db, _ = strconv.Atoi(string(arg(1)))
			if s.hasNoSel && it.db == s.noSelect {
				// the target has fewer databases than the source: the connection stays where it was
				reply = "-ERR DB index is out of range\r\n"
				c.Write([]byte(reply))
				continue
			}
		case "restore":
			it.key = arg(1)
			if s.failKey != nil && bytes.Equal(it.key, s.failKey) {
				it.ok = false
				reply = "-ERR injected failure\r\n"
			}
		case "script":
			it.arg = arg(2)
			reply = "$40\r\n0123456789abcdef0123456789abcdef01234567\r\n"
		case "del", "pexpire":
			it.key = arg(1)
			reply = ":1\r\n"
		case "exists":
			it.key = arg(1)
			reply = ":0\r\n"
		case "hset", "rpush", "sadd", "lpush":
			it.key, it.arg = arg(1), arg(2)
			reply = ":1\r\n"
		case "zadd":
			it.key, it.arg = arg(1), arg(3)
			reply = ":1\r\n"
		case "set":
			it.key = arg(1)
		default:
			it.key = arg(1)
		}
		s.mu.Lock()
		s.items = append(s.items, it)
		s.mu.Unlock()
		if base > 0 {
			time.Sleep(time.Duration(rng.Int63n(int64(base) + 1)))
		}
		if _, err := c.Write([]byte(reply)); err != nil {
			return
		}
	}
}

func (s *c07Session) snapshot() string {
	s.mu.Lock()
	defer s.mu.Unlock()
	if len(s.items) == 0 {
		return "-"
	}
	parts := make([]string, 0, len(s.items))
	for _, it := range s.items {
		ok := 1
		if !it.ok {
			ok = 0
		}
		if it.word == "select" {
			parts = append(parts, fmt.Sprintf("%d:select:%d:-:1", it.conn, it.db))
		} else {
			parts = append(parts, fmt.Sprintf("%d:%s:%s:%s:%d", it.conn, it.word, hx(it.key), hx(it.arg), ok))
		}
	}
	return strings.Join(parts, ",")
}

// ---------------------------------------------------------------- runner

func c07KV(f []string) map[string]string {
	m := map[string]string{}
	for _, x := range f {
		if i := strings.IndexByte(x, '='); i > 0 {
			m[x[:i]] = x[i+1:]
		}
	}
	return m
}

func c07List(s string) (kind string, items []string) {
	if s == "-" || s == "" {
		return "", nil
	}
	kind, rest := s[:1], s[2:]
	return kind, strings.Split(rest, ",")
}

func runC07(f []string) string {
	if len(f) >= 3 && (f[0] == "mfile" || f[0] == "selfail") {
		if os.Getenv("VERIF_C07_CHILD") == "" {
			r := c07Parent(strings.Join(f, " "))
			if f[0] == "selfail" && r == "abort" {
				r = "fail" // log.Panic* on a worker goroutine: the process ended as a failure
			}
			return r
		}
		if f[0] == "selfail" {
			return c07RunSelfail(f[1], c07KV(f[2:]))
		}
		return c07RunMfile(c07KV(f[1:]))
	}
	if len(f) < 3 || (f[0] != "trace" && f[0] != "chunk") {
		return "badcase"
	}
	mode := f[1]
	kv := c07KV(f[2:])
	es := c07ParseEntries(kv["E"])
	vlen := atoi(kv["vlen"])

	conf.Options = conf.Configuration{}
	conf.Options.Parallel = atoi(kv["P"])
	conf.Options.TargetDB = atoi(kv["tdb"])
	conf.Options.TargetType = "standalone"
	conf.Options.KeyExists = kv["kx"]
	conf.Options.FilterLua = kv["lua"] == "1"
	conf.Options.BigKeyThreshold = 100
	conf.Options.TargetVersion = "4.0.9"
	if k, items := c07List(kv["fdb"]); k == "b" {
		conf.Options.FilterDBBlacklist = items
	} else if k == "w" {
		conf.Options.FilterDBWhitelist = items
	}
	if k, items := c07List(kv["fkey"]); k != "" {
		var ps []string
		for _, h := range items {
			ps = append(ps, string(unhx(h)))
		}
		if k == "b" {
			conf.Options.FilterKeyBlacklist = ps
		} else {
			conf.Options.FilterKeyWhitelist = ps
		}
	}
	if kv["fslot"] != "-" && kv["fslot"] != "" {
		conf.Options.FilterSlot = strings.Split(kv["fslot"], ",")
	}

	c07Start()
	sess := &c07Session{dseed: int64(atoi(kv["dseed"]))}
	if kv["fail"] != "-" {
		sess.failKey = unhx(kv["fail"])
	}
	if kv["slow"] != "-" && kv["slow"] != "" {
		p := strings.Split(kv["slow"], ":")
		sess.slowWord = p[0]
		sess.slowDur = time.Duration(atoi(p[1])) * time.Millisecond
	}
	c07Srv.mu.Lock()
	c07Srv.cur = sess
	c07Srv.mu.Unlock()

	data := c07RDB(es, vlen)
	reader := bufio.NewReaderSize(bytes.NewReader(data), 4096)
	target := []string{c07Srv.addr}
	done := make(chan string, 1)
	go func() {
		defer func() {
			if e := recover(); e != nil {
				done <- "panic"
			}
		}()
		switch mode {
		case "sync":
			if err := dbSync.VerifC07SyncRDBFile(reader, target, int64(len(data))); err != nil {
				done <- "err"
			} else {
				done <- "ok"
			}
		case "restore":
			err, reports := run.VerifC07RestoreRDBFile(reader, target, int64(len(data)))
			switch {
			case err != nil:
				done <- "err"
			case reports:
				done <- "ok"
			default:
				done <- "nores" // the pinned function has no way to report anything: finished "as a success"
			}
		default:
			done <- "badmode"
		}
	}()
	var res string
	select {
	case res = <-done:
	case <-time.After(30 * time.Second):
		res = "timeout"
	}
	// the log as it stands at the moment the function returned: whatever arrives later was not waited for
	tr := sess.snapshot()
	return "res=" + res + " T=" + tr
}

// ---------------------------------------------------------------- generator

func c07Join(es []c07Entry) string {
	if len(es) == 0 {
		return "-"
	}
	parts := make([]string, len(es))
	for i, e := range es {
		parts[i] = e.String()
	}
	return strings.Join(parts, ";")
}

func c07HasPrefixAny(k string, ps []string) bool {
	for _, p := range ps {
		if strings.HasPrefix(k, p) {
			return true
		}
	}
	return false
}

func genC07(g *gen) {
	r := g.r
	if len(extraArgs) >= 2 && extraArgs[0] == "scaled" {
		genC07Chunk(g, atoi(extraArgs[1]))
		return
	}
	genC07Mfile(g)
	genC07Selfail(g)
	n := g.pick(420, 6000)
	dbPool := []int{0, 1, 2, 3, 5, 9, 15, 16, 300}
	for ci := 0; ci < n; ci++ {
		mode := []string{"sync", "restore"}[r.Intn(2)]
		P := 1 + r.Intn(8)
		if ci%10 == 0 {
			P = 1
		}
		tdb := []int{-1, -1, -1, -1, 0, 3, 7}[r.Intn(7)]
		kx := []string{"rewrite", "none", "ignore"}[r.Intn(3)]
		lua := r.Intn(5) == 0
		ndb := 1 + r.Intn(5)
		perm := r.Perm(len(dbPool))
		dbs := make([]int, ndb)
		for i := range dbs {
			dbs[i] = dbPool[perm[i]]
		}
		// filters
		fdb, fdbKind := "-", ""
		fdbSet := map[int]bool{}
		if r.Intn(2) == 0 {
			fdbKind = []string{"b", "w"}[r.Intn(2)]
			var items []string
			for _, d := range dbs {
				if r.Intn(2) == 0 {
					fdbSet[d] = true
					items = append(items, strconv.Itoa(d))
				}
			}
			if len(items) == 0 {
				fdbSet[77] = true
				items = []string{"77"}
			}
			fdb = fdbKind + ":" + strings.Join(items, ",")
		}
		fkey, fkeyKind := "-", ""
		var fkeyPs []string
		switch r.Intn(4) {
		case 0:
			fkeyKind, fkeyPs = "b", []string{"bl:"}
		case 1:
			fkeyKind, fkeyPs = "w", []string{"k", "h"}
			if r.Intn(2) == 0 {
				fkeyPs = append(fkeyPs, "lu")
			}
		}
		if fkeyKind != "" {
			var hs []string
			for _, p := range fkeyPs {
				hs = append(hs, hx([]byte(p)))
			}
			fkey = fkeyKind + ":" + strings.Join(hs, ",")
		}
		// entries
		ne := []int{0, 1, 2, 5, 12, 25, 40}[r.Intn(7)]
		if ne > 2 {
			ne = ne/2 + r.Intn(ne)
		}
		var es []c07Entry
		used := map[string]bool{}
		var names []string
		for i := 0; i < ne; i++ {
			e := c07Entry{db: dbs[r.Intn(len(dbs))]}
			switch k := r.Intn(10); {
			case k < 7:
				e.kind = 0
				name := fmt.Sprintf("k%d", i)
				if r.Intn(6) == 0 {
					name = "bl:" + name
				}
				if r.Intn(5) == 0 {
					// brace arrangements of the hash-tag rule (only the slot filter looks at them)
					name = []string{"k}v{u%d}.x", "}{u%d}", "{u%d}.following", "k{}{u%d}", "k{{u%d}}z", "k{u%d", "k%d}{", "{u%d}{v}"}[r.Intn(8)]
					name = fmt.Sprintf(name, i)
				}
				if tdb == -1 && len(names) > 0 && r.Intn(8) == 0 {
					name = names[r.Intn(len(names))] // the same key name in another database
				}
				e.key = []byte(name)
			case k < 8:
				e.kind = 1
				e.key = []byte("lua")
				e.fields = [][]byte{[]byte(fmt.Sprintf("return %d", i))}
			case k < 9 && r.Intn(2) == 0:
				// a list restored element by element (quicklist above big_key_threshold): RPUSH in pipelined batches of 100
				e.kind = 4
				e.key = []byte(fmt.Sprintf("l%d", i))
				nf := 12 + r.Intn(5)
				switch r.Intn(6) {
				case 0:
					nf = 99 + r.Intn(5)
				case 1:
					nf = 137 + r.Intn(70)
				}
				for j := 0; j < nf; j++ {
					e.fields = append(e.fields, []byte(fmt.Sprintf("e%d-%s", j, e.key)))
				}
			default:
				e.kind = 2
				e.key = []byte(fmt.Sprintf("h%d", i))
				nf := 2 + r.Intn(3)
				if r.Intn(12) == 0 {
					nf = 99 + r.Intn(5) // around the 100-command pipeline batch
				}
				for j := 0; j < nf; j++ {
					e.fields = append(e.fields, []byte(fmt.Sprintf("f%d", j)))
				}
			}
			id := fmt.Sprintf("%d/%s", e.db, e.key)
			if e.kind != 1 {
				if used[id] {
					continue
				}
				used[id] = true
				if e.kind == 0 {
					names = append(names, string(e.key))
				}
			}
			e.exp = e.kind != 1 && r.Intn(3) == 0
			es = append(es, e)
		}
		// slot filter: the slots of a random part of the keys pass
		fslot := "-"
		passSlot := map[int]bool{}
		if r.Intn(4) == 0 {
			var items []string
			for _, e := range es {
				if r.Intn(10) < 7 {
					s := c07Slot(e.key)
					if !passSlot[s] {
						passSlot[s] = true
						items = append(items, strconv.Itoa(s))
					}
				}
			}
			if len(items) == 0 {
				passSlot[1] = true
				items = []string{"1"}
			}
			fslot = strings.Join(items, ",")
		}
		// flags, by construction of the lists above
		var failCand [][]byte
		for i := range es {
			e := &es[i]
			a, b, c := false, false, false
			if fdbKind == "b" {
				a = fdbSet[e.db]
			} else if fdbKind == "w" {
				a = !fdbSet[e.db]
			}
			if fkeyKind == "b" {
				b = c07HasPrefixAny(string(e.key), fkeyPs)
			} else if fkeyKind == "w" {
				b = !c07HasPrefixAny(string(e.key), fkeyPs)
			}
			if fslot != "-" {
				c = !passSlot[c07Slot(e.key)]
			}
			bit := func(x bool) string {
				if x {
					return "1"
				}
				return "0"
			}
			e.flags = bit(a) + bit(b) + bit(c)
			if e.kind == 0 && !a && !b && (mode == "restore" || !c) {
				failCand = append(failCand, e.key)
			}
		}
		fail := "-"
		if len(failCand) > 0 && r.Intn(5) == 0 {
			fail = hx(failCand[r.Intn(len(failCand))])
		}
		bl := 0
		if lua {
			bl = 1
		}
		g.emit("trace %s P=%d tdb=%d kx=%s lua=%d fail=%s dseed=%d slow=- vlen=60 fdb=%s fkey=%s fslot=%s E=%s",
			mode, P, tdb, kx, bl, fail, r.Intn(1<<30), fdb, fkey, fslot, c07Join(es))
	}
}

// scaled build (chunk limit L bytes): one hash whose every field/value pair exceeds L, so that the loader delivers it
// as one entry per pair (first: NeedReadLen=1, then continuation chunks), among a few plain strings
// genC07Mfile: several input files, fewer routines than files or as many, an optional failing key in any of the files
func genC07Mfile(g *gen) {
	n := g.pick(24, 400)
	for i := 0; i < n; i++ {
		nf := 1 + g.r.Intn(4)
		var files []string
		var keys []string
		for fi := 0; fi < nf; fi++ {
			ne := 1 + g.r.Intn(6)
			if fi == nf-1 && g.r.Intn(2) == 0 {
				ne = 1 // the last file shorter than the worker count
			}
			var es []c07Entry
			for k := 0; k < ne; k++ {
				key := []byte(fmt.Sprintf("f%dk%d", fi, k))
				es = append(es, c07Entry{db: []int{0, 0, 1, 3, 12}[g.r.Intn(5)], key: key, kind: 0, flags: "000"})
				keys = append(keys, hx(key))
			}
			files = append(files, c07Join(es))
		}
		fail := "-"
		if i%2 == 0 {
			fail = keys[g.r.Intn(len(keys))]
			if g.r.Intn(3) == 0 {
				fail = keys[0] // a failure in the first file, later files succeed
			}
		}
		rp := 1 + g.r.Intn(nf)
		if g.r.Intn(3) == 0 {
			rp = 1
		}
		g.emit("mfile rp=%d P=%d fail=%s dseed=%d F=%s", rp, 1+g.r.Intn(4), fail, g.r.Intn(1<<30), strings.Join(files, "|"))
	}
}

func genC07Chunk(g *gen, L int) {
	r := g.r
	n := g.pick(16, 200)
	for ci := 0; ci < n; ci++ {
		mode := []string{"sync", "restore"}[r.Intn(2)]
		P := []int{1, 2, 2, 3, 4}[r.Intn(5)]
		kx := []string{"rewrite", "rewrite", "none"}[r.Intn(3)]
		slow := "-"
		if r.Intn(3) != 0 {
			slow = "del:25"
		}
		if ci == 0 {
			mode, P, kx, slow = "sync", 2, "rewrite", "del:25"
		}
		if ci == 1 {
			mode, P, kx, slow = "restore", 1, "rewrite", "del:25"
		}
		db := []int{0, 3}[r.Intn(2)]
		var es []c07Entry
		for i := 0; i < r.Intn(3); i++ {
			es = append(es, c07Entry{db: db, key: []byte(fmt.Sprintf("k%d", i)), flags: "000"})
		}
		m := 2 + r.Intn(3)
		for j := 0; j < m; j++ {
			kind := 3
			if j == 0 {
				kind = 2
			}
			es = append(es, c07Entry{db: db, key: []byte("bighash"), kind: kind, flags: "000", fields: [][]byte{[]byte(fmt.Sprintf("f%d", j))}})
		}
		for i := 0; i < r.Intn(3); i++ {
			es = append(es, c07Entry{db: db, key: []byte(fmt.Sprintf("t%d", i)), flags: "000"})
		}
		g.emit("chunk %s P=%d tdb=-1 kx=%s lua=0 fail=- dseed=%d slow=%s vlen=%d scaled=%d fdb=- fkey=- fslot=- E=%s",
			mode, P, kx, r.Intn(1<<30), slow, L+6, L, c07Join(es))
	}
}

// ---------------------------------------------------------------- restore mode's driver over several input files
//
// case line:  mfile rp=<source.rdb.parallel> P=<parallel> fail=<keyhex|-> dseed=<n> F=<entries of file 0>|<entries of file 1>|…
// The REAL CmdRestore.Main runs (routines pulling input files from a channel, each file through dbRestorer.restore) against the fake
// target; a failing RESTORE must end the run as a failure — the code does that by exiting the process (log.Panic*), so the
// case runs in a child process: `abort` = the child ended through log.Panic*. Otherwise the line lists what was written where.

func c07Parent(line string) string {
	cmd := exec.Command(os.Args[0], "run", "C07")
	cmd.Env = append(os.Environ(), "VERIF_C07_CHILD=1")
	in, _ := cmd.StdinPipe()
	out, _ := cmd.StdoutPipe()
	var tail bytes.Buffer
	cmd.Stderr = &tail
	if err := cmd.Start(); err != nil {
		return "spawn-failed"
	}
	type ans struct {
		s   string
		err error
	}
	ch := make(chan ans, 1)
	go func() {
		io.WriteString(in, line+"\n")
		s, err := bufio.NewReaderSize(out, 1<<20).ReadString('\n')
		ch <- ans{strings.TrimRight(s, "\n"), err}
	}()
	select {
	case a := <-ch:
		in.Close()
		if a.err != nil {
			cmd.Wait()
			if strings.Contains(tail.String(), "VerifExit") {
				return "abort"
			}
			return "crash"
		}
		cmd.Process.Kill()
		cmd.Wait()
		return a.s
	case <-time.After(40 * time.Second):
		cmd.Process.Kill()
		cmd.Wait()
		return "timeout"
	}
}

func c07RunMfile(kv map[string]string) (res string) {
	// log.Panic* on the goroutine that called Main ends the process just as it does on a routine's goroutine
	defer func() {
		if e := recover(); e != nil {
			if _, ok := e.(log.VerifExit); ok {
				res = "abort"
				return
			}
			panic(e)
		}
	}()
	dir, err := os.MkdirTemp("", "c07mfile")
	if err != nil {
		return "tmpdir-error"
	}
	defer os.RemoveAll(dir)
	var inputs []string
	for i, fe := range strings.Split(kv["F"], "|") {
		p := filepath.Join(dir, fmt.Sprintf("in%d.rdb", i))
		if err := os.WriteFile(p, c07RDB(c07ParseEntries(fe), 8), 0600); err != nil {
			return "tmpfile-error"
		}
		inputs = append(inputs, p)
	}
	c07Start()
	sess := &c07Session{dseed: int64(atoi(kv["dseed"]))}
	if kv["fail"] != "-" {
		sess.failKey = unhx(kv["fail"])
	}
	c07Srv.mu.Lock()
	c07Srv.cur = sess
	c07Srv.mu.Unlock()

	conf.Options = conf.Configuration{}
	conf.Options.Type = conf.TypeRestore
	conf.Options.Parallel = atoi(kv["P"])
	conf.Options.SourceRdbInput = inputs
	conf.Options.SourceRdbParallel = atoi(kv["rp"])
	conf.Options.TargetDB = -1
	conf.Options.TargetType = "standalone"
	conf.Options.TargetAddressList = []string{c07Srv.addr}
	conf.Options.TargetAuthType = "auth"
	conf.Options.KeyExists = "none"
	conf.Options.BigKeyThreshold = 1 << 20
	conf.Options.TargetVersion = "4.0.9"
	conf.Options.HttpProfile = -1 // Main returns when the restore is done
	(&run.CmdRestore{}).Main()

	// what was written where: per connection the selected database, then every RESTORE that was answered OK
	db := map[string]int{}
	var wrote []string
	for _, it := range strings.Split(sess.snapshot(), ",") {
		p := strings.Split(it, ":")
		if len(p) != 5 {
			continue
		}
		switch p[1] {
		case "select":
			db[p[0]] = atoi(p[2])
		case "restore":
			if p[4] == "1" {
				wrote = append(wrote, fmt.Sprintf("%d:%s", db[p[0]], p[2]))
			}
		}
	}
	sort.Strings(wrote)
	return "res=ok W=" + strings.Join(wrote, ",")
}

// ---------------------------------------------------------------- a target that refuses one SELECT
//
// case line:  selfail <sync|restore> P=<n> nosel=<db> dseed=<n> E=<entries>
// The target answers SELECT <nosel> with an error (a source database the target does not have). The run must be reported
// as failed (the code exits through log.Panic* or returns an error: both `fail`) whenever a key lives in that database, and
// no key may be written into another database than its own. Runs in a child process (see mfile).

func c07RunSelfail(mode string, kv map[string]string) (res string) {
	defer func() {
		if e := recover(); e != nil {
			if _, ok := e.(log.VerifExit); ok {
				res = "fail"
				return
			}
			panic(e)
		}
	}()
	es := c07ParseEntries(kv["E"])
	conf.Options = conf.Configuration{}
	conf.Options.Parallel = atoi(kv["P"])
	conf.Options.TargetDB = -1
	conf.Options.TargetType = "standalone"
	conf.Options.KeyExists = "none"
	conf.Options.BigKeyThreshold = 1 << 20
	conf.Options.TargetVersion = "4.0.9"
	c07Start()
	sess := &c07Session{dseed: int64(atoi(kv["dseed"])), noSelect: atoi(kv["nosel"]), hasNoSel: true}
	c07Srv.mu.Lock()
	c07Srv.cur = sess
	c07Srv.mu.Unlock()
	data := c07RDB(es, 8)
	reader := bufio.NewReaderSize(bytes.NewReader(data), 4096)
	target := []string{c07Srv.addr}
	var err error
	if mode == "sync" {
		err = dbSync.VerifC07SyncRDBFile(reader, target, int64(len(data)))
	} else {
		err, _ = run.VerifC07RestoreRDBFile(reader, target, int64(len(data)))
	}
	if err != nil {
		return "fail"
	}
	db := map[string]int{}
	var wrote []string
	for _, it := range strings.Split(sess.snapshot(), ",") {
		p := strings.Split(it, ":")
		if len(p) != 5 {
			continue
		}
		switch p[1] {
		case "select":
			db[p[0]] = atoi(p[2])
		case "restore":
			if p[4] == "1" {
				wrote = append(wrote, fmt.Sprintf("%d:%s", db[p[0]], p[2]))
			}
		}
	}
	sort.Strings(wrote)
	return "res=ok W=" + strings.Join(wrote, ",")
}

func genC07Selfail(g *gen) {
	n := g.pick(24, 300)
	for i := 0; i < n; i++ {
		dbs := [][]int{{0, 1, 20}, {0, 20}, {3, 20, 3}, {20}, {0, 1, 2}, {1, 16, 20, 0}}[g.r.Intn(6)]
		ne := 2 + g.r.Intn(10)
		var es []c07Entry
		for k := 0; k < ne; k++ {
			es = append(es, c07Entry{db: dbs[g.r.Intn(len(dbs))], key: []byte(fmt.Sprintf("s%dk%d", i, k)), kind: 0, flags: "000"})
		}
		// the loader delivers keys database by database: keep the order of first appearance stable
		sort.SliceStable(es, func(a, b int) bool { return false })
		g.emit("selfail %s P=%d nosel=%d dseed=%d E=%s", []string{"sync", "restore"}[g.r.Intn(2)], 1+g.r.Intn(5),
			[]int{20, 16, 1}[g.r.Intn(3)], g.r.Intn(1<<30), c07Join(es))
	}
}
