module verifharness

go 1.14

require (
	github.com/alibaba/RedisShake v0.0.0
	github.com/cupcake/rdb v0.0.0-20161107195141-43ba34106c76
)

replace github.com/alibaba/RedisShake => /repo/src
