package main

// C02 case generator: abstract values, an own DUMP serializer (string encodings raw / int8-16-32 / LZF literal runs,
// length forms canonical and wider, ziplists for quicklist nodes), configurations and pre-existing keys.

import (
	"fmt"
	"math"
	"strconv"
	"strings"
)

type c02gen struct {
	*gen
	rg *rdbGen
}

// ---- strings

var c02words = []string{"a", "b", "c", "k1", "k2", "field", "value", "m", "x", "", "0", "7", "-1", "12", "127", "128", "-129", "300", "32767",
	"-32768", "65536", "2147483647", "-2147483648", "2147483648", "007", "+5", "-0", "hello world", "z"}

func (g *c02gen) word() []byte {
	switch g.r.Intn(12) {
	case 0:
		return g.bytes(g.r.Intn(6))
	case 1:
		n := []int{40, 41, 63, 64, 70, 300}[g.r.Intn(6)]
		b := g.bytes(n)
		if g.r.Intn(2) == 0 {
			for i := range b {
				b[i] = 'a' + byte(i%3)
			}
		}
		return b
	case 2:
		return []byte(strconv.Itoa(g.r.Intn(100000) - 50000))
	default:
		return []byte(c02words[g.r.Intn(len(c02words))])
	}
}

// distinct-ish element names for big collections
func (g *c02gen) elemName(i int) []byte {
	if g.r.Intn(40) == 0 && i > 0 {
		i = g.r.Intn(i) // a duplicate now and then
	}
	switch g.r.Intn(3) {
	case 0:
		return []byte(strconv.Itoa(i))
	default:
		return []byte(fmt.Sprintf("e%d", i))
	}
}

// serStr: one RDB string object holding s
func (g *c02gen) serStr(s []byte) []byte {
	rg := g.rg
	if v, err := strconv.ParseInt(string(s), 10, 64); err == nil && strconv.FormatInt(v, 10) == string(s) && g.r.Intn(2) == 0 {
		switch {
		case v >= -128 && v <= 127:
			rg.hit("c02-int8")
			return []byte{0xC0, byte(v)}
		case v >= -32768 && v <= 32767:
			rg.hit("c02-int16")
			return []byte{0xC1, byte(v), byte(v >> 8)}
		case v >= -2147483648 && v <= 2147483647:
			rg.hit("c02-int32")
			return []byte{0xC2, byte(v), byte(v >> 8), byte(v >> 16), byte(v >> 24)}
		}
	}
	if len(s) >= 4 && g.r.Intn(5) == 0 {
		// a real LZF stream: literal runs and back references, overlapping ones (distance < length) included
		rg.hit("c02-lzf-refs")
		comp := c02LzfCompress(g, s)
		b := []byte{0xC3}
		b = append(b, rg.encLen(uint64(len(comp)), false)...)
		b = append(b, rg.encLen(uint64(len(s)), false)...)
		return append(b, comp...)
	}
	if len(s) > 0 && g.r.Intn(5) == 0 {
		// LZF stream made of literal runs only
		rg.hit("c02-lzf")
		var comp []byte
		for i := 0; i < len(s); {
			n := 1 + g.r.Intn(32)
			if i+n > len(s) {
				n = len(s) - i
			}
			comp = append(comp, byte(n-1))
			comp = append(comp, s[i:i+n]...)
			i += n
		}
		b := []byte{0xC3}
		b = append(b, rg.encLen(uint64(len(comp)), false)...)
		b = append(b, rg.encLen(uint64(len(s)), false)...)
		return append(b, comp...)
	}
	return rg.rawStr(s)
}

// c02LzfCompress: a greedy LZF compressor (longest earlier match, up to 264 bytes, distances up to 8191; a match may
// run into the bytes it is producing — that is how LZF codes runs and short-period data)
func c02LzfCompress(g *c02gen, s []byte) []byte {
	var out, lit []byte
	flush := func() {
		for len(lit) > 0 {
			n := len(lit)
			if n > 32 {
				n = 32
			}
			out = append(out, byte(n-1))
			out = append(out, lit[:n]...)
			lit = lit[n:]
		}
	}
	for i := 0; i < len(s); {
		best, bd := 0, 0
		for d := 1; d <= i && d <= 8191; d++ {
			l := 0
			for i+l < len(s) && l < 264 && s[i+l] == s[i+l-d] {
				l++
			}
			if l > best || (l == best && l > 0 && g.r.Intn(3) == 0) {
				best, bd = l, d
			}
		}
		if best >= 3 && g.r.Intn(5) != 0 {
			flush()
			l, d := best-2, bd-1
			if l < 7 {
				out = append(out, byte(l<<5)|byte(d>>8), byte(d))
			} else {
				out = append(out, byte(7<<5)|byte(d>>8), byte(l-7), byte(d))
			}
			i += best
		} else {
			lit = append(lit, s[i])
			i++
		}
	}
	flush()
	return out
}

func c02dumpOf(t byte, body []byte) []byte {
	d := append([]byte{t}, body...)
	d = append(d, 6, 0)
	sum := crc64bitwise(0, d)
	for k := 0; k < 8; k++ {
		d = append(d, byte(sum>>(8*uint(k))))
	}
	return d
}

// ---- ziplist (for quicklist nodes): entries as logical byte strings

func (g *c02gen) ziplist(entries [][]byte) []byte {
	var body []byte
	prev := 0
	for _, e := range entries {
		start := len(body)
		if prev < 254 {
			body = append(body, byte(prev))
		} else {
			body = append(body, 254, byte(prev), byte(prev>>8), byte(prev>>16), byte(prev>>24))
		}
		done := false
		if v, err := strconv.ParseInt(string(e), 10, 64); err == nil && strconv.FormatInt(v, 10) == string(e) && g.r.Intn(3) != 0 {
			done = true
			switch {
			case v >= 0 && v <= 12:
				body = append(body, 0xF1+byte(v))
			case v >= -128 && v <= 127:
				body = append(body, 0xFE, byte(v))
			case v >= -32768 && v <= 32767:
				body = append(body, 0xC0, byte(v), byte(v>>8))
			case v >= -8388608 && v <= 8388607:
				body = append(body, 0xF0, byte(v), byte(v>>8), byte(v>>16))
			case v >= -2147483648 && v <= 2147483647:
				body = append(body, 0xD0, byte(v), byte(v>>8), byte(v>>16), byte(v>>24))
			default:
				body = append(body, 0xE0)
				for k := 0; k < 8; k++ {
					body = append(body, byte(v>>(8*uint(k))))
				}
			}
		}
		if !done {
			switch {
			case len(e) <= 63:
				body = append(body, byte(len(e)))
			case len(e) <= 16383:
				body = append(body, 0x40|byte(len(e)>>8), byte(len(e)))
			default:
				body = append(body, 0x80, byte(len(e)>>24), byte(len(e)>>16), byte(len(e)>>8), byte(len(e)))
			}
			body = append(body, e...)
		}
		prev = len(body) - start
	}
	total := 10 + len(body) + 1
	cnt := len(entries)
	if cnt > 65535 {
		cnt = 65535
	}
	zl := []byte{byte(total), byte(total >> 8), byte(total >> 16), byte(total >> 24), 0, 0, 0, 0, byte(cnt), byte(cnt >> 8)}
	zl = append(zl, body...)
	return append(zl, 0xff)
}

// ---- zipmap: <count byte (254 = unknown, walk)> { <len> key <len> <free> value <free bytes> } 0xFF; len < 254 literal, else 254 + 4 bytes LE
func (g *c02gen) zipmap(fields [][2][]byte) []byte {
	zmLen := func(n int) []byte {
		if n < 254 && g.r.Intn(8) != 0 {
			return []byte{byte(n)}
		}
		return []byte{254, byte(n), byte(n >> 8), byte(n >> 16), byte(n >> 24)}
	}
	cnt := len(fields)
	if cnt >= 254 || g.r.Intn(6) == 0 {
		cnt = 254
	}
	b := []byte{byte(cnt)}
	for _, f := range fields {
		b = append(b, zmLen(len(f[0]))...)
		b = append(b, f[0]...)
		b = append(b, zmLen(len(f[1]))...)
		free := 0
		if g.r.Intn(4) == 0 {
			free = 1 + g.r.Intn(4)
		}
		b = append(b, byte(free))
		b = append(b, f[1]...)
		for k := 0; k < free; k++ {
			b = append(b, byte(g.r.Intn(256)))
		}
	}
	return append(b, 0xff)
}

// ---- scores

// the scores the Lean driver's float codec knows: integers below 2^53 and this table
var c02scores = []float64{0.5, -2.5, 3.14159, 1.5e-7, 0.1, 12345678.5, math.Inf(1), math.Inf(-1), math.Copysign(0, -1), 1e21, 0.25, -0.001, 1e-7, 2.5e10 + 0.5}

// alternative spellings for the text scores of type 3 (value must be in the set above or an integer)
var c02altTexts = []string{"1e10", "1E5", "+3", "4.25e+2", "inf", "-inf", "+inf", "5e-1", "0.50", "-2.50", "1e21", "Infinity", "00012"}

func (g *c02gen) score() float64 {
	switch g.r.Intn(4) {
	case 0:
		return c02scores[g.r.Intn(len(c02scores))]
	case 1:
		return float64([]int64{0, 1, -1, 1 << 31, 1<<53 - 1, -(1<<53 - 1), 1 << 52, 1000000007}[g.r.Intn(8)])
	default:
		return float64(g.r.Intn(2001) - 1000)
	}
}

func c02fmtScore(f float64) string { return strconv.FormatFloat(f, 'f', -1, 64) }

// ---- abstract values

type c02absVal struct {
	t      byte
	str    []byte
	items  [][]byte
	fields [][2][]byte
	zs     []c02zmem
	ztext  []string // type 3: the text (or "#253/#254/#255") as written into the payload
	nodes  [][][]byte
}

func (g *c02gen) collSize() int {
	switch g.r.Intn(14) {
	case 0:
		return 0
	case 1, 2:
		return 1
	case 3:
		return 99
	case 4:
		return 100
	case 5:
		return 101
	case 6:
		return 200
	case 7:
		return 201
	default:
		return 2 + g.r.Intn(6)
	}
}

func (g *c02gen) member(i, n int) []byte {
	if n > 20 {
		return g.elemName(i)
	}
	return g.word()
}

func (g *c02gen) absValue(t byte) *c02absVal {
	v := &c02absVal{t: t}
	n := g.collSize()
	switch t {
	case 0:
		v.str = g.word()
	case 1, 2:
		for i := 0; i < n; i++ {
			v.items = append(v.items, g.member(i, n))
		}
	case 4:
		for i := 0; i < n; i++ {
			v.fields = append(v.fields, [2][]byte{g.member(i, n), g.word()})
		}
	case 3:
		for i := 0; i < n; i++ {
			m := g.member(i, n)
			switch g.r.Intn(12) {
			case 0:
				v.ztext = append(v.ztext, "#254")
				v.zs = append(v.zs, c02zmem{m, math.Float64bits(math.Inf(1))})
			case 1:
				v.ztext = append(v.ztext, "#255")
				v.zs = append(v.zs, c02zmem{m, math.Float64bits(math.Inf(-1))})
			case 2:
				if g.r.Intn(6) == 0 {
					v.ztext = append(v.ztext, "#253")
					v.zs = append(v.zs, c02zmem{m, math.Float64bits(math.NaN())})
					break
				}
				fallthrough
			case 3:
				tx := c02altTexts[g.r.Intn(len(c02altTexts))]
				f, _ := strconv.ParseFloat(tx, 64)
				v.ztext = append(v.ztext, tx)
				v.zs = append(v.zs, c02zmem{m, math.Float64bits(f)})
			default:
				f := g.score()
				v.ztext = append(v.ztext, c02fmtScore(f))
				v.zs = append(v.zs, c02zmem{m, math.Float64bits(f)})
			}
		}
	case 5:
		for i := 0; i < n; i++ {
			f := g.score()
			if g.r.Intn(60) == 0 {
				f = math.NaN()
			}
			v.zs = append(v.zs, c02zmem{g.member(i, n), math.Float64bits(f)})
		}
	case 10: // list ziplist
		for i := 0; i < n; i++ {
			v.items = append(v.items, g.member(i, n))
		}
	case 11: // intset: distinct integers of one width
		w := []uint{15, 31, 62}[g.r.Intn(3)]
		seen := map[int64]bool{}
		for i := 0; i < n; i++ {
			x := g.r.Int63n(int64(1)<<w) - int64(1)<<(w-1)
			if g.r.Intn(4) == 0 {
				x = int64(g.r.Intn(200) - 100)
			}
			if !seen[x] {
				seen[x] = true
				v.items = append(v.items, []byte(strconv.FormatInt(x, 10)))
			}
		}
	case 13, 9: // hash ziplist, zipmap
		for i := 0; i < n; i++ {
			v.fields = append(v.fields, [2][]byte{g.member(i, n), g.word()})
		}
	case 12: // zset ziplist: member, score text (no NaN in a stored ziplist)
		for i := 0; i < n; i++ {
			f := g.score()
			tx := c02fmtScore(f)
			if math.IsInf(f, 0) {
				tx = map[bool]string{true: "inf", false: "-inf"}[f > 0]
			}
			v.ztext = append(v.ztext, tx)
			v.zs = append(v.zs, c02zmem{g.member(i, n), math.Float64bits(f)})
		}
	case 14:
		nn := []int{0, 1, 1, 2, 3}[g.r.Intn(5)]
		for k := 0; k < nn; k++ {
			sz := g.collSize()
			var es [][]byte
			for i := 0; i < sz; i++ {
				es = append(es, g.member(i, sz))
			}
			v.nodes = append(v.nodes, es)
		}
	}
	return v
}

// body of the payload after the type byte; `count` overrides the element count written (chunked hashes)
func (g *c02gen) body(v *c02absVal) []byte {
	rg := g.rg
	var b []byte
	switch v.t {
	case 0:
		return g.serStr(v.str)
	case 1, 2:
		b = rg.encLen(uint64(len(v.items)), false)
		for _, x := range v.items {
			b = append(b, g.serStr(x)...)
		}
	case 4:
		b = rg.encLen(uint64(len(v.fields)), false)
		for _, x := range v.fields {
			b = append(b, g.serStr(x[0])...)
			b = append(b, g.serStr(x[1])...)
		}
	case 3:
		b = rg.encLen(uint64(len(v.zs)), false)
		for i, x := range v.zs {
			b = append(b, g.serStr(x.m)...)
			tx := v.ztext[i]
			if tx[0] == '#' {
				b = append(b, byte(atoi(tx[1:])))
			} else {
				b = append(b, byte(len(tx)))
				b = append(b, tx...)
			}
		}
	case 5:
		b = rg.encLen(uint64(len(v.zs)), false)
		for _, x := range v.zs {
			b = append(b, g.serStr(x.m)...)
			for k := 0; k < 8; k++ {
				b = append(b, byte(x.bits>>(8*uint(k))))
			}
		}
	case 10:
		return g.serStr(g.ziplist(v.items))
	case 9:
		return g.serStr(g.zipmap(v.fields))
	case 13:
		var es [][]byte
		for _, x := range v.fields {
			es = append(es, x[0], x[1])
		}
		return g.serStr(g.ziplist(es))
	case 12:
		var es [][]byte
		for i, x := range v.zs {
			es = append(es, x.m, []byte(v.ztext[i]))
		}
		return g.serStr(g.ziplist(es))
	case 11:
		// width from the widest element
		sz := 2
		for _, x := range v.items {
			n, _ := strconv.ParseInt(string(x), 10, 64)
			if n < -2147483648 || n > 2147483647 {
				sz = 8
			} else if (n < -32768 || n > 32767) && sz < 4 {
				sz = 4
			}
		}
		if g.r.Intn(4) == 0 && sz < 8 {
			sz *= 2 // wider than necessary
		}
		blob := []byte{byte(sz), 0, 0, 0, byte(len(v.items)), byte(len(v.items) >> 8), 0, 0}
		for _, x := range v.items {
			n, _ := strconv.ParseInt(string(x), 10, 64)
			for k := 0; k < sz; k++ {
				blob = append(blob, byte(n>>(8*uint(k))))
			}
		}
		return g.serStr(blob)
	case 14:
		b = rg.encLen(uint64(len(v.nodes)), false)
		for _, n := range v.nodes {
			b = append(b, g.serStr(g.ziplist(n))...)
		}
	}
	return b
}

// the logical value in the case syntax (insert / last-write-wins semantics)
func (v *c02absVal) logical() string {
	m := &c02val{}
	switch v.t {
	case 0:
		m.kind, m.str = 's', v.str
	case 1, 10:
		m.kind, m.items = 'l', v.items
	case 14:
		m.kind = 'l'
		for _, n := range v.nodes {
			m.items = append(m.items, n...)
		}
	case 2, 11:
		m.kind = 'S'
		for _, x := range v.items {
			dup := false
			for _, y := range m.items {
				if string(x) == string(y) {
					dup = true
				}
			}
			if !dup {
				m.items = append(m.items, x)
			}
		}
	case 4, 13, 9:
		m.kind = 'h'
		for _, x := range v.fields {
			dup := false
			for i := range m.fields {
				if string(m.fields[i][0]) == string(x[0]) {
					m.fields[i][1] = x[1]
					dup = true
				}
			}
			if !dup {
				m.fields = append(m.fields, x)
			}
		}
	case 3, 5, 12:
		m.kind = 'z'
		for _, x := range v.zs {
			dup := false
			for i := range m.zs {
				if string(m.zs[i].m) == string(x.m) {
					m.zs[i].bits = x.bits
					dup = true
				}
			}
			if !dup {
				m.zs = append(m.zs, x)
			}
		}
	}
	return c02fullVal(m)
}

// like c02showVal but never abbreviated (case lines carry everything)
func c02fullVal(v *c02val) string {
	if v.kind == 's' || v.kind == 'o' {
		return string(v.kind) + ":" + hx(v.str)
	}
	return c02showVal(v)
}

// ---- configurations

var c02versions = []string{"5", "5.0", "4.0.11", "6", "2.8", "", "5.a", "5.0.1", "05", "-5", "5.", ".5", "6.2.6", "4", "99999999999999999999", "5.0.0.0", "+5", "5.-0", "a"}

var c02keys = []string{"k", "key", "{tag}key", "a{b}c}d{", "}{", "lua", "046110.key", "046110.{x}y", "short", ""}

type c02cfg struct {
	pol     string
	rep     int
	thr     int
	ver     string
	shift   int64
	tag, uc int
	flua    int
	rej     []byte
	busyold int
	pre     string
}

func (c *c02cfg) String() string {
	return fmt.Sprintf("pol=%s rep=%d thr=%d ver=%s shift=%d tag=%d uc=%d flua=%d rej=%s busyold=%d pre=%s",
		c.pol, c.rep, c.thr, hx([]byte(c.ver)), c.shift, c.tag, c.uc, c.flua, hx(c.rej), c.busyold, c.pre)
}

type c02entry struct {
	gap                  int
	t                    byte
	key, val             []byte
	exp                  string
	idle, freq, nrl, rmc int
	load                 string
}

func (e *c02entry) String() string {
	return fmt.Sprintf("gap=%d type=%d key=%s val=%s exp=%s idle=%d freq=%d nrl=%d rmc=%d load=%s",
		e.gap, e.t, hx(e.key), hx(e.val), e.exp, e.idle, e.freq, e.nrl, e.rmc, e.load)
}

func (g *c02gen) rewritten(cfg *c02cfg, key []byte) []byte {
	k := string(key)
	if cfg.uc == 1 {
		if len(k) < 7 {
			return key
		}
		k = k[7:]
	}
	if cfg.tag == 1 {
		k = strings.Replace(k, "{", "", 1)
		k = strings.Replace(k, "}", "", 1)
	}
	return []byte(k)
}

func (g *c02gen) expOff() string {
	switch g.r.Intn(10) {
	case 0, 1, 2, 3:
		return "none"
	case 4:
		return "0"
	case 5:
		return "1"
	case 6:
		return strconv.Itoa(-1 - g.r.Intn(100000))
	default:
		return strconv.Itoa(60000 + g.r.Intn(100000000))
	}
}

func (g *c02gen) preBinding(key []byte) string {
	t := []byte{0, 1, 2, 3, 4, 14}[g.r.Intn(6)]
	v := g.absValue(t)
	if t != 0 && len(v.items)+len(v.fields)+len(v.zs)+len(v.nodes) == 0 {
		v = g.absValue(0)
	}
	if v.t == 3 { // no NaN in a stored value
		for i := range v.zs {
			if v.zs[i].bits == math.Float64bits(math.NaN()) {
				v.zs[i].bits = 0
			}
		}
	}
	l := v.logical()
	if l == "l:" {
		l = "s:" + hx([]byte("pre"))
	}
	ttl := "none"
	if g.r.Intn(3) == 0 {
		ttl = strconv.Itoa(1000 + g.r.Intn(1000000))
	}
	return hx(key) + "/" + l + "/" + ttl
}

func (g *c02gen) config(key []byte, vlen int, t byte) *c02cfg {
	c := &c02cfg{pol: []string{"n", "r", "i"}[g.r.Intn(3)], rep: g.r.Intn(2), busyold: 0, pre: "-"}
	switch g.r.Intn(6) {
	case 0:
		c.thr = 0
	case 1:
		c.thr = vlen - 1
	case 2:
		c.thr = vlen
	case 3:
		c.thr = 1
	default:
		c.thr = 1 << 30
	}
	if c.thr < 0 {
		c.thr = 0
	}
	c.ver = c02versions[g.r.Intn(len(c02versions))]
	if g.r.Intn(2) == 0 {
		c.ver = []string{"5", "5.0", "4.0.11", "6", "2.8"}[g.r.Intn(5)]
	}
	switch g.r.Intn(5) {
	case 0:
		c.shift = int64(g.r.Intn(2000000000)) * 1000003
	case 1:
		c.shift = -int64(g.r.Intn(2000000000)) * 1000003
	}
	if g.r.Intn(4) == 0 {
		c.tag = 1
	}
	if g.r.Intn(8) == 0 {
		c.busyold = 1
	}
	switch g.r.Intn(5) {
	case 0:
		c.rej = []byte{t}
	case 1:
		c.rej = []byte{5, 14, 15}
	}
	if g.r.Intn(2) == 0 {
		c.pre = g.preBinding(g.rewritten(c, key))
		if g.r.Intn(4) == 0 {
			c.pre += ";" + g.preBinding([]byte("other"))
		}
	} else if g.r.Intn(4) == 0 {
		c.pre = g.preBinding([]byte("other"))
	}
	return c
}

func (g *c02gen) plainEntry(t byte) (*c02entry, *c02absVal) {
	v := g.absValue(t)
	e := &c02entry{t: t, key: []byte(c02keys[g.r.Intn(6)]), val: c02dumpOf(t, g.body(v)), exp: g.expOff(), nrl: 1, load: v.logical()}
	if g.r.Intn(3) == 0 {
		e.idle = g.r.Intn(100000)
	}
	if g.r.Intn(3) == 0 {
		e.freq = g.r.Intn(256)
	}
	return e, v
}

var c02types = []byte{0, 1, 2, 3, 4, 5, 14, 0, 1, 2, 4, 5, 14, 15, 10, 11, 12, 13, 9}

func genC02(gg *gen) {
	g := &c02gen{gen: gg, rg: &rdbGen{r: gg.r, maxStr: 60, maxColl: 6, stats: map[string]int{}}}
	emit := func(c *c02cfg, es ...*c02entry) {
		parts := []string{"r", c.String()}
		for _, e := range es {
			parts = append(parts, "|", e.String())
		}
		g.emit("%s", strings.Join(parts, " "))
	}
	// 1. CompareVersion directly
	for _, a := range c02versions {
		for _, b := range []string{"5.0", "5", "4.0.11", ""} {
			for _, lv := range []int{0, 1, 2, 3, -1} {
				g.emit("cmpver %s %s %d", hx([]byte(a)), hx([]byte(b)), lv)
			}
		}
	}
	// 2. single entries of every plain type x configuration
	n := g.pick(1500, 60000)
	for i := 0; i < n; i++ {
		t := c02types[g.r.Intn(len(c02types))]
		var e *c02entry
		if t == 15 {
			body := g.bytes(5 + g.r.Intn(30))
			e = &c02entry{t: 15, key: []byte(c02keys[g.r.Intn(4)]), val: c02dumpOf(15, body), exp: g.expOff(), nrl: 1}
			e.load = "o:" + hx(e.val)
			e.idle, e.freq = g.r.Intn(3)*1000, g.r.Intn(3)*7
		} else {
			e, _ = g.plainEntry(t)
		}
		c := g.config(e.key, len(e.val), t)
		emit(c, e)
	}
	// 2b. the ziplist reader of the element-wise route alone (pkg/rdb ReadZiplistLength/ReadZiplistEntry): entry counts up to and
	//     beyond the point where the 16-bit count field saturates (65535 = "walk the entries"), and damaged lists
	for i, nz := 0, g.pick(60, 1200); i < nz; i++ {
		n := g.r.Intn(12)
		if i%10 == 0 {
			n = []int{65534, 65535, 65536, 65537, 70000 + g.r.Intn(9000), 131072}[(i/10)%6]
		}
		es := make([][]byte, n)
		for k := range es {
			es[k] = g.member(k, n)
		}
		zl := g.ziplist(es)
		switch g.r.Intn(6) {
		case 0: // claim the saturated count on a short list / a wrong count
			zl[8], zl[9] = 0xff, 0xff
		case 1:
			zl[8] ^= byte(1 << uint(g.r.Intn(8)))
		case 2:
			zl = zl[:len(zl)-1-g.r.Intn(3)] // end marker (and more) missing
		case 3:
			if len(zl) > 11 {
				zl[10+g.r.Intn(len(zl)-10)] = byte(g.r.Intn(256))
			}
		}
		g.emit("zl %s", hx(zl))
	}
	// 3. lua records, ucloud keys
	for i := 0; i < g.pick(40, 400); i++ {
		e := &c02entry{t: 0xfa, key: []byte("lua"), val: g.bytes(1 + g.r.Intn(40)), exp: "none", nrl: 0, load: "none"}
		if g.r.Intn(4) == 0 {
			e.key = []byte("{lua}")
		}
		c := g.config(e.key, len(e.val), 0)
		c.flua = g.r.Intn(2)
		emit(c, e)
	}
	for i := 0; i < g.pick(40, 400); i++ {
		e, _ := g.plainEntry([]byte{0, 1, 4}[g.r.Intn(3)])
		e.key = []byte(c02keys[g.r.Intn(len(c02keys))])
		c := g.config(e.key, len(e.val), e.t)
		c.uc = 1
		if c.pre != "-" {
			c.pre = g.preBinding(g.rewritten(c, e.key))
		}
		emit(c, e)
	}
	// 4. chunked hashes: the fold of all chunks of one key
	for i := 0; i < g.pick(150, 5000); i++ {
		tot := []int{2, 3, 5, 150, 201, 250}[g.r.Intn(6)]
		v := &c02absVal{t: 4}
		for j := 0; j < tot; j++ {
			v.fields = append(v.fields, [2][]byte{g.elemName(j), g.word()})
		}
		k := 2 + g.r.Intn(3)
		if k > tot {
			k = tot
		}
		cuts := []int{0}
		for j := 1; j < k; j++ {
			cuts = append(cuts, cuts[j-1]+1+g.r.Intn(tot-cuts[j-1]-(k-j)))
		}
		cuts = append(cuts, tot)
		var es []*c02entry
		key := []byte(c02keys[g.r.Intn(4)])
		for j := 0; j < k; j++ {
			part := v.fields[cuts[j]:cuts[j+1]]
			var b []byte
			if j == 0 {
				b = g.rg.encLen(uint64(tot), false)
			}
			for _, x := range part {
				b = append(b, g.serStr(x[0])...)
				b = append(b, g.serStr(x[1])...)
			}
			e := &c02entry{t: 4, key: key, val: c02dumpOf(4, b), exp: "none", nrl: 0, rmc: len(part), load: "none"}
			if j == 0 {
				e.nrl = 1
				e.exp = g.expOff()
				e.idle = g.r.Intn(2) * 50
			} else {
				e.gap = []int{0, 1, 5, 1000}[g.r.Intn(4)]
			}
			es = append(es, e)
		}
		c := g.config(key, 1<<20, 4)
		if g.r.Intn(3) != 0 {
			c.thr = 1 << 30 // chunks take the big route whatever the threshold
		}
		emit(c, es...)
	}
	// 5. malformed payloads: truncated bodies under a valid trailer, damaged trailers, type byte / entry type mismatch
	for i := 0; i < g.pick(200, 8000); i++ {
		t := []byte{0, 1, 2, 3, 4, 5, 14}[g.r.Intn(7)]
		kind := g.r.Intn(4)
		if kind == 0 || kind == 2 {
			t = []byte{0, 1, 2, 4, 14}[g.r.Intn(5)] // a misread double would need a full float formatter in the driver
		}
		e, v := g.plainEntry(t)
		body := g.body(v)
		switch kind {
		case 0:
			if len(body) > 0 {
				body = body[:g.r.Intn(len(body))]
			}
			e.val = c02dumpOf(t, body)
			e.load = "none"
		case 1:
			e.val = c02dumpOf(t, body)
			e.val[len(e.val)-1-g.r.Intn(10)] ^= 1 << uint(g.r.Intn(8))
		case 2:
			t2 := []byte{0, 1, 2, 4, 6, 7, 16, 200}[g.r.Intn(8)]
			e.val = c02dumpOf(t2, body)
			e.load = "none"
		default:
			e.val = c02dumpOf(t, body)
			e.rmc = g.r.Intn(4) // RealMemberCount on a non-chunk
		}
		c := g.config(e.key, len(e.val), t)
		if kind == 0 || kind == 2 {
			// what such a payload "holds" is undefined: let the target refuse its type, so that only the tool's own
			// reading of it (fallback / big-key route) is compared
			c.rej = append(c.rej, e.val[0])
		}
		emit(c, e)
	}
}
