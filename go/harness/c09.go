package main

// C09 — serialised schedules against the REAL pipe (pkg/libs/io/pipe), memory- and file-backed.
//
// One case = one pipe + a list of ops issued one at a time by the scheduling goroutine:
//   w:<k>  Write(k pattern bytes) in the writer goroutine     r:<k>  "read up to k" in the reader goroutine
//   rc:<e> / wc:<e>  Close / CloseWithError(custom e)          b / a  Buffered / Available
// After every op the scheduler waits until each in-flight goroutine has either returned or sits in
// cond.Wait (hook VerifC09Waiters: ticket counters of the two sync.Cond, read under p.mu) — so "blocked"
// is observed exactly, not guessed from a timeout; a short grace period then confirms that a parked
// op stays parked, and the op that wakes it reports its completion (`+R=` / `+W=`).
// The line format and what is (not) compared are described in lean/RSVerif/Drive/C09.lean.

import (
	"fmt"
	"io"
	"os"
	"path/filepath"
	"runtime"
	"strconv"
	"strings"
	"sync/atomic"
	"time"

	"github.com/alibaba/RedisShake/pkg/libs/errors"
	"github.com/alibaba/RedisShake/pkg/libs/io/pipe"
)

func init() {
	props["C09"] = &prop{gen: genC09, run: runC09}
}

const c09presetIdx = 999983 // op index used for the pattern of preset content

// ------------------------------------------------------------------ generator

// rough bookkeeping used ONLY to steer the generator towards interesting schedules (fill the ring,
// wrap it, block, wake, close with something in flight); results are never taken from it.
type c09steer struct {
	cap, buf   int
	wpend      int  // bytes of an in-flight Write not yet accepted
	rwait      bool // reader believed parked
	rk         int
	rc, wc     bool
	usedSalt   int
}

func (s *c09steer) settle() {
	for {
		moved := false
		if s.wpend > 0 && s.buf < s.cap && !s.rc && !s.wc {
			n := s.cap - s.buf
			if n > s.wpend {
				n = s.wpend
			}
			s.buf += n
			s.wpend -= n
			moved = true
		}
		if s.rwait && s.buf > 0 {
			n := s.buf
			if n > s.rk {
				n = s.rk
			}
			s.buf -= n
			s.rk -= n
			if s.rk == 0 || (s.buf == 0 && s.wpend == 0) {
				s.rwait = false
			}
			moved = true
		}
		if !moved {
			break
		}
	}
	if s.rc || s.wc {
		s.rwait = false
		if s.rc {
			s.wpend = 0
			s.buf = 0
		}
		if s.wc {
			s.wpend = 0
		}
	}
}

func c09sizes(g *gen, s *c09steer) int {
	c := s.cap
	switch g.r.Intn(14) {
	case 0:
		return 0
	case 1:
		return 1
	case 2:
		return c - 1
	case 3:
		return c
	case 4:
		return c + 1
	case 5:
		return 3*c + 7
	case 6:
		return s.buf // exactly what is buffered
	case 7:
		return c - s.buf // exactly what is free
	case 8:
		return c - s.buf + 1
	case 9:
		return 2
	case 10:
		if s.buf > 1 {
			return s.buf - 1
		}
		return 1
	default:
		return 1 + g.r.Intn(2*c+1)
	}
}

func c09history(g *gen, kind string, req, cap, nops int, closes bool) {
	c09historyFrom(g, kind, req, cap, 0, nops, closes)
}

// c09historyFrom: as c09history, the ring already holding `buffered` unread bytes
func c09historyFrom(g *gen, kind string, req, cap, buffered, nops int, closes bool) {
	g.emit("%s %d %d %s", kind, req, g.r.Intn(1000), strings.Join(c09ops(g, cap, buffered, nops, closes), " "))
}

func c09ops(g *gen, cap, buffered, nops int, closes bool) []string {
	s := &c09steer{cap: cap, buf: buffered}
	ops := make([]string, 0, nops)
	for len(ops) < nops {
		x := g.r.Intn(100)
		switch {
		case x < 38: // write
			if s.wpend > 0 && g.r.Intn(30) != 0 {
				continue
			}
			k := c09sizes(g, s)
			if k < 0 {
				k = 0
			}
			ops = append(ops, fmt.Sprintf("w:%d", k))
			if s.wpend == 0 && !s.wc && !s.rc {
				s.wpend = k
			}
		case x < 76: // read
			if s.rwait && g.r.Intn(30) != 0 {
				continue
			}
			k := c09sizes(g, s)
			if k < 0 {
				k = 0
			}
			ops = append(ops, fmt.Sprintf("r:%d", k))
			if !s.rwait && k > 0 && !s.rc {
				s.rwait, s.rk = true, k
				if s.buf == 0 && s.wpend == 0 && s.wc {
					s.rwait = false
				}
			}
		case x < 84:
			ops = append(ops, "b")
		case x < 92:
			ops = append(ops, "a")
		default:
			if !closes {
				continue
			}
			// closes are rare early in a history so that long runs of traffic exist
			if g.r.Intn(nops) > len(ops) {
				continue
			}
			e := 0
			if g.r.Intn(2) == 0 {
				e = 1 + g.r.Intn(9)
			}
			if g.r.Intn(2) == 0 {
				ops = append(ops, fmt.Sprintf("wc:%d", e))
				s.wc = true
			} else {
				ops = append(ops, fmt.Sprintf("rc:%d", e))
				s.rc = true
			}
		}
		s.settle()
		if s.buf == 0 && s.wpend == 0 && s.rwait && (s.wc || s.rc) {
			s.rwait = false
		}
	}
	return ops
}

// several pipes of one kind and size in one case: `<id>.n` creates pipe <id>, `<id>.<op>` is an op on it. First some pipes
// live a whole life one after the other (written, closed by the writer, drained, closed by the reader — in that and in other
// orders), then two or three pipes are open at the same time with interleaved traffic. Pipes are independent objects:
// what one of them shows must not depend on the others.
func c09multi(g *gen, kind string, req, cap int) {
	var ops []string
	id := 0
	for n := 1 + g.r.Intn(3); n > 0; n-- {
		k := 1 + g.r.Intn(cap)
		pre := fmt.Sprintf("%d.", id)
		ops = append(ops, pre+"n")
		var life []string
		switch g.r.Intn(5) {
		case 0:
			life = []string{fmt.Sprintf("w:%d", k), "wc:0", fmt.Sprintf("r:%d", k), "r:1", "rc:0"}
		case 1:
			life = []string{"wc:0", "r:1", "rc:0"}
		case 2:
			life = []string{fmt.Sprintf("w:%d", k), fmt.Sprintf("r:%d", k), "wc:3", "rc:0"}
		case 3:
			life = []string{fmt.Sprintf("w:%d", k), "rc:0", "wc:0"}
		default:
			life = append(c09ops(g, cap, 0, 4+g.r.Intn(8), false), "wc:0", fmt.Sprintf("r:%d", 2*cap), "rc:0")
		}
		for _, o := range life {
			ops = append(ops, pre+o)
		}
		id++
	}
	live := 2 + g.r.Intn(2)
	var lists [][]string
	for i := 0; i < live; i++ {
		ops = append(ops, fmt.Sprintf("%d.n", id+i))
		lists = append(lists, c09ops(g, cap, 0, 6+g.r.Intn(14), g.r.Intn(3) == 0))
	}
	for {
		var open []int
		for i, l := range lists {
			if len(l) > 0 {
				open = append(open, i)
			}
		}
		if len(open) == 0 {
			break
		}
		i := open[g.r.Intn(len(open))]
		ops = append(ops, fmt.Sprintf("%d.%s", id+i, lists[i][0]))
		lists[i] = lists[i][1:]
	}
	g.emit("multi-%s %d %d %s", kind, req, g.r.Intn(1000), strings.Join(ops, " "))
}

// every op sequence of length ≤ maxLen over a small alphabet, on a tiny ring
func c09exhaustive(g *gen, kind string, cap int, alphabet []string, maxLen int) {
	var rec func(prefix []string)
	rec = func(prefix []string) {
		if len(prefix) > 0 {
			g.emit("%s %d %d %s", kind, cap, 7, strings.Join(prefix, " "))
		}
		if len(prefix) == maxLen {
			return
		}
		for _, a := range alphabet {
			rec(append(prefix, a))
		}
	}
	rec(nil)
}

func genC09(g *gen) {
	rawCaps := []int{1, 2, 3, 4, 5, 7, 8, 13, 16, 31, 64}
	// 1. exhaustive small scope (ring of 2 bytes)
	c09exhaustive(g, "mem-raw", 2, []string{"w:1", "w:3", "r:2", "wc:0", "rc:0"}, g.pick(5, 6))
	c09exhaustive(g, "file-raw", 2, []string{"w:2", "w:5", "r:1", "r:3", "wc:4"}, g.pick(4, 6))
	c09exhaustive(g, "mem-raw", 3, []string{"w:2", "r:1", "r:0", "w:0", "b", "a"}, g.pick(4, 5))
	c09exhaustive(g, "file-raw", 3, []string{"w:4", "r:2", "rc:5", "b", "a"}, g.pick(4, 6))
	// 2. random histories on tiny rings (same memBuffer/fileBuffer code, ring size set by the hook)
	n := g.pick(4000, 40000)
	for i := 0; i < n; i++ {
		c := rawCaps[g.r.Intn(len(rawCaps))]
		c09history(g, "mem-raw", c, c, 10+g.r.Intn(50), g.r.Intn(4) != 0)
	}
	n = g.pick(1500, 15000)
	for i := 0; i < n; i++ {
		c := rawCaps[g.r.Intn(len(rawCaps))]
		c09history(g, "file-raw", c, c, 10+g.r.Intn(50), g.r.Intn(4) != 0)
	}
	// 2b. the same histories started deep inside a long run: positions around 2^32, 2^33, 2^40 and 2^63 (the positions are
	//     64-bit stream offsets, the ring index is their remainder), mostly on rings whose size does not divide 2^32
	bases := []uint64{1<<32 - 1, 1 << 32, 1<<32 + 1, 1<<32 - 70, 1<<33 - 3, 3<<32 - 5, 1<<40 + 12345, 1 << 63, 1<<31 - 2, 1<<16 - 1}
	n = g.pick(500, 8000)
	for i := 0; i < n; i++ {
		c := []int{3, 5, 7, 12, 13, 31, 100, 6, 4, 64}[g.r.Intn(10)]
		if g.r.Intn(60) == 0 {
			c = 12288 // 3 alignment units of the public constructor
		}
		base := bases[g.r.Intn(len(bases))] + uint64(g.r.Intn(3))
		k := 1 + g.r.Intn(c)
		kind := "mem-at"
		if i%3 == 0 {
			kind = "file-at"
		}
		c09historyFrom(g, fmt.Sprintf("%s@%d@%d", kind, base, k), c, c, k, 8+g.r.Intn(40), g.r.Intn(4) != 0)
	}
	// 3. the public constructors: NewSize(req) (4 KiB unit) …
	n = g.pick(150, 2500)
	for i := 0; i < n; i++ {
		req := []int{0, 1, 4095, 4096, 4097, 8192, 10000}[g.r.Intn(7)]
		c := (req + 4095) / 4096 * 4096 // steering only
		if c == 0 {
			c = 4096
		}
		c09history(g, "mem-api", req, c, 8+g.r.Intn(30), g.r.Intn(3) != 0)
	}
	// 3b. several pipes, one after the other and side by side
	n = g.pick(400, 5000)
	for i := 0; i < n; i++ {
		switch i % 4 {
		case 0, 1:
			req := []int{1, 4096, 4097, 8192}[g.r.Intn(4)]
			c09multi(g, "mem-api", req, (req+4095)/4096*4096)
		case 2:
			c := rawCaps[g.r.Intn(len(rawCaps))]
			c09multi(g, "mem-raw", c, c)
		default:
			c := rawCaps[g.r.Intn(len(rawCaps))]
			c09multi(g, "file-raw", c, c)
		}
	}
	// … and NewFilePipe(req, f) at true scale (4 MiB unit): few and short, every op moves megabytes
	c := 4194304
	g.emit("file-api 1 %d w:%d b a r:3 b w:0 r:0", g.r.Intn(1000), c+1)
	if g.thorough() {
		for i := 0; i < 6; i++ {
			req := []int{0, 4194304, 1, 4194305}[i%4]
			c := 4194304
			if req > c {
				c = 2 * c
			}
			salt := g.r.Intn(1000)
			switch i % 3 {
			case 0: // overfill, wrap, drain
				g.emit("file-api %d %d w:%d b a r:%d b w:%d r:%d b a r:%d wc:0 r:%d r:1", req, salt,
					c+1, c-1, c-3, 3*c+7, 5, 2*c)
			case 1:
				g.emit("file-api %d %d r:7 w:%d b r:%d w:%d a rc:3 w:1 b", req, salt, c-1, c, c+1)
			default:
				c09history(g, "file-api", req, c, 6+g.r.Intn(6), true)
			}
		}
	}
}

// ------------------------------------------------------------------ runner

type c09err int

func (e c09err) Error() string { return fmt.Sprintf("custom-%d", int(e)) }

func c09class(err error) string {
	if err == nil {
		return "ok"
	}
	c := errors.Cause(err)
	switch c {
	case io.EOF:
		return "eof"
	case io.ErrClosedPipe:
		return "closed"
	}
	if ce, ok := c.(c09err); ok {
		return fmt.Sprintf("c%d", int(ce))
	}
	return "other"
}

func c09pat(salt, i, j int) byte {
	x := salt*7919 + i*104729 + j
	return byte((x*40503 + x/251) % 256)
}

func c09digest(b []byte) string {
	if len(b) <= 16 {
		return hx(b)
	}
	h := uint64(14695981039346656037)
	for _, c := range b {
		h = (h ^ uint64(c)) * 1099511628211
	}
	return fmt.Sprintf("#%016x", h)
}

type c09job struct {
	done int32
	res  string
}

func (j *c09job) finished() bool { return j == nil || atomic.LoadInt32(&j.done) == 1 }

type c09case struct {
	r          pipe.Reader
	w          pipe.Writer
	rjob, wjob *c09job
	stuck      bool
}

var c09seq int

// a goroutine that neither returns nor parks (busy loop, lost wake-up inside the harness' own wait) is
// `stuck` after c09deadline; it cannot be killed, so after two stuck cases the remaining cases are not run.
var c09stuckCases int

const c09deadline = 5 * time.Second

func c09tmp() string {
	d := os.Getenv("VERIF_TMP")
	if d == "" {
		exe, err := os.Executable()
		if err != nil {
			panic(err)
		}
		d = filepath.Join(filepath.Dir(exe), "tmp")
	}
	os.MkdirAll(d, 0755)
	return d
}

// settle waits until every in-flight goroutine has returned or is parked in cond.Wait.
// The done flags are read BEFORE the waiter snapshot (they are monotonic; a goroutine that was done
// before the snapshot cannot have woken the other side after it).
func (c *c09case) settle(onlyWriter bool) bool {
	deadline := time.Now().Add(c09deadline)
	for spins := 0; ; spins++ {
		rd := onlyWriter || c.rjob.finished()
		wd := c.wjob.finished()
		if rd && wd {
			return true
		}
		rp, wp := pipe.VerifC09Waiters(c.r)
		if rp < 0 || wp < 0 {
			panic("sync.Cond layout not as expected")
		}
		if (rd || rp >= 1) && (wd || wp >= 1) {
			return true
		}
		if spins < 200 {
			runtime.Gosched()
		} else {
			time.Sleep(20 * time.Microsecond)
			if spins%512 == 0 && time.Now().After(deadline) {
				return false
			}
		}
	}
}

// c09grace: ~100 µs of yielding (time.Sleep has millisecond granularity here; parked-ness is observed
// exactly by settle, the grace period only re-confirms it).
func c09grace() {
	t0 := time.Now()
	for time.Since(t0) < 100*time.Microsecond {
		runtime.Gosched()
	}
}

func (c *c09case) readJob(j *c09job, k int) {
	defer func() {
		if e := recover(); e != nil {
			j.res = "panic"
		}
		atomic.StoreInt32(&j.done, 1)
	}()
	buf := make([]byte, k)
	got := 0
	var sizes []string
	fin := func(cls string) {
		j.res = fmt.Sprintf("%d:%s:%s~%s", got, c09digest(buf[:got]), cls, strings.Join(sizes, ","))
	}
	for {
		n, err := c.r.Read(buf[got:])
		if n < 0 || n > k-got {
			j.res = "badcount"
			return
		}
		got += n
		sizes = append(sizes, strconv.Itoa(n))
		switch {
		case err != nil:
			fin(c09class(err))
			return
		case n == 0:
			if k == 0 {
				fin("ok")
			} else {
				fin("zero")
			}
			return
		case got >= k:
			fin("ok")
			return
		}
		// let a writer that this Read may have woken come to rest, then see whether more is buffered
		if !c.settle(true) {
			fin("stuck")
			return
		}
		if b, _ := c.r.Buffered(); b == 0 {
			fin("ok")
			return
		}
	}
}

func (c *c09case) writeJob(j *c09job, data []byte) {
	defer func() {
		if e := recover(); e != nil {
			j.res = "panic"
		}
		atomic.StoreInt32(&j.done, 1)
	}()
	n, err := c.w.Write(data)
	j.res = fmt.Sprintf("%d:%s", n, c09class(err))
}

// harvest reports jobs that completed; `own` is "r"/"w" when the op itself started that job.
func (c *c09case) harvest(own string) string {
	var ownTok, others string
	if c.rjob != nil && c.rjob.finished() {
		if own == "r" {
			ownTok = "r=" + c.rjob.res
		} else {
			others += "+R=" + c.rjob.res
		}
		c.rjob = nil
	} else if own == "r" {
		ownTok = "r=park"
	}
	if c.wjob != nil && c.wjob.finished() {
		if own == "w" {
			ownTok = "w=" + c.wjob.res
		} else {
			others += "+W=" + c.wjob.res
		}
		c.wjob = nil
	} else if own == "w" {
		ownTok = "w=park"
	}
	return ownTok + others
}

func c09closeErr(e int) error {
	if e == 0 {
		return nil
	}
	return c09err(e)
}

func (c *c09case) exec(salt, idx int, op string, path string) string {
	f := strings.Split(op, ":")
	arg := 0
	if len(f) == 2 {
		arg = atoi(f[1])
	}
	own := ""
	prefix := ""
	switch f[0] {
	case "w":
		if c.wjob != nil {
			return "w=busy"
		}
		data := make([]byte, arg)
		for j := range data {
			data[j] = c09pat(salt, idx, j)
		}
		c.wjob = &c09job{}
		go c.writeJob(c.wjob, data)
		own = "w"
	case "r":
		if c.rjob != nil {
			return "r=busy"
		}
		c.rjob = &c09job{}
		go c.readJob(c.rjob, arg)
		own = "r"
	case "rc":
		var err error
		if arg == 0 {
			err = c.r.Close()
		} else {
			err = c.r.CloseWithError(c09closeErr(arg))
		}
		prefix = "rc=" + c09class(err)
	case "wc":
		var err error
		if arg == 0 {
			err = c.w.Close()
		} else {
			err = c.w.CloseWithError(c09closeErr(arg))
		}
		prefix = "wc=" + c09class(err)
	case "b":
		n, err := c.r.Buffered()
		s := fmt.Sprintf("b=%d:%s", n, c09class(err))
		if path != "" {
			if st, e := os.Stat(path); e == nil {
				s += fmt.Sprintf("~fl%d", st.Size())
			}
		}
		return s
	case "a":
		n, err := c.w.Available()
		return fmt.Sprintf("a=%d:%s", n, c09class(err))
	default:
		return "badop"
	}
	if !c.settle(false) {
		c.stuck = true
		return prefix + "stuck"
	}
	if own != "" {
		j := c.rjob
		if own == "w" {
			j = c.wjob
		}
		if !j.finished() {
			// parked: a short grace period must not change that
			c09grace()
			if j.finished() || !c.settle(false) {
				c.stuck = true
				return own + "=unstable"
			}
		}
	}
	return prefix + c.harvest(own)
}

func runC09Multi(f []string) string {
	kind, req, salt := strings.TrimPrefix(f[0], "multi-"), atoi(f[1]), atoi(f[2])
	cases := map[int]*c09case{}
	paths := map[int]string{}
	var order []int
	var out []string
	stuck := false
	do := func(idx int, id int, op string) {
		c := cases[id]
		if c == nil {
			out = append(out, "nopipe")
			return
		}
		out = append(out, c.exec(salt+17*id, idx, op, paths[id]))
		if c.stuck {
			stuck = true
		}
	}
	idx := 0
	for _, t := range f[3:] {
		p := strings.SplitN(t, ".", 2)
		if len(p) != 2 {
			return "badcase"
		}
		id := atoi(p[0])
		if p[1] == "n" {
			c := &c09case{}
			switch kind {
			case "mem-api":
				c.r, c.w = pipe.NewSize(req)
			case "mem-raw":
				c.r, c.w = pipe.VerifC09NewMemRaw(req)
			case "file-raw":
				c09seq++
				path := filepath.Join(c09tmp(), fmt.Sprintf("c09-%d-%d.pipe", os.Getpid(), c09seq))
				file, err := os.OpenFile(path, os.O_CREATE|os.O_RDWR|os.O_TRUNC, 0600)
				if err != nil {
					return "tmpfile-error"
				}
				defer os.Remove(path)
				defer file.Close()
				paths[id] = path
				c.r, c.w = pipe.VerifC09NewFileRaw(req, file)
			default:
				return "badcase"
			}
			cases[id] = c
			order = append(order, id)
			out = append(out, "new")
		} else {
			do(idx, id, p[1])
		}
		idx++
		if stuck {
			break
		}
	}
	for _, id := range order {
		if stuck {
			break
		}
		do(idx, id, "rc:0")
		idx++
		if !stuck {
			do(idx, id, "wc:0")
			idx++
		}
	}
	if stuck {
		c09stuckCases++
		for _, c := range cases {
			c.r.Close()
			c.w.Close()
		}
	} else {
		for _, id := range order {
			if c := cases[id]; c.rjob != nil || c.wjob != nil {
				out = append(out, "leak")
				break
			}
		}
	}
	return strings.Join(out, " ")
}

func runC09(f []string) string {
	if len(f) < 3 {
		return "badcase"
	}
	kind, req, salt := f[0], atoi(f[1]), atoi(f[2])
	if c09stuckCases >= 2 {
		return "not-run-after-stuck"
	}
	if strings.HasPrefix(kind, "multi-") {
		return runC09Multi(f)
	}
	c := &c09case{}
	path := ""
	var file *os.File
	if strings.HasPrefix(kind, "file-") {
		c09seq++
		path = filepath.Join(c09tmp(), fmt.Sprintf("c09-%d-%d.pipe", os.Getpid(), c09seq))
		var err error
		file, err = os.OpenFile(path, os.O_CREATE|os.O_RDWR|os.O_TRUNC, 0600)
		if err != nil {
			return "tmpfile-error"
		}
		defer os.Remove(path)
		defer file.Close()
	}
	// <kind>@<rpos>@<k>: the ring starts at read position rpos with k unread pattern bytes (a state deep in a history)
	if at := strings.Split(kind, "@"); len(at) == 3 {
		base, err := strconv.ParseUint(at[1], 10, 64)
		k := atoi(at[2])
		if err != nil || k < 1 || k > req {
			return "badcase"
		}
		content := make([]byte, k)
		for j := range content {
			content[j] = c09pat(salt, c09presetIdx, j)
		}
		switch at[0] {
		case "mem-at":
			c.r, c.w = pipe.VerifC09NewMemRawAt(req, base, content)
		case "file-at":
			c.r, c.w = pipe.VerifC09NewFileRawAt(req, file, base, content)
		default:
			return "badcase"
		}
		kind = "preset"
	}
	switch kind {
	case "preset":
	case "mem-raw":
		c.r, c.w = pipe.VerifC09NewMemRaw(req)
	case "file-raw":
		c.r, c.w = pipe.VerifC09NewFileRaw(req, file)
	case "mem-api":
		c.r, c.w = pipe.NewSize(req)
	case "file-api":
		c.r, c.w = pipe.NewFilePipe(req, file)
	default:
		return "badcase"
	}
	ops := append(append([]string{}, f[3:]...), "rc:0", "wc:0")
	out := make([]string, 0, len(ops)+1)
	for i, op := range ops {
		out = append(out, c.exec(salt, i, op, path))
		if c.stuck {
			break
		}
	}
	if c.stuck {
		c09stuckCases++
		// release whatever can still be released; the goroutines of a broken pipe may leak (bounded by the run)
		c.r.Close()
		c.w.Close()
	} else if c.rjob != nil || c.wjob != nil {
		out = append(out, "leak")
	}
	return strings.Join(out, " ")
}
