package main

// C03 — case generator; the runners of the real code are in c0304_common.go.

import (
	"fmt"
	"strings"

	"github.com/alibaba/RedisShake/redis-shake/dbSync"
)

func init() {
	props["C03"] = &prop{gen: genC03, run: c0304Run, init: c0304Prefetch}
}

// ---------------------------------------------------------------- generators shared with C04

func c03RandCase(g *gen, s string) string {
	switch g.r.Intn(4) {
	case 0:
		return strings.ToUpper(s)
	case 1:
		b := []byte(s)
		for i := range b {
			if g.r.Intn(2) == 0 && b[i] >= 'a' && b[i] <= 'z' {
				b[i] -= 32
			}
		}
		return string(b)
	}
	return s
}

var c0304Keys = []string{"a1", "a2", "b1", "b22", "k1", "k2", "zz", "redis-shake-checkpointx"}

func c03GenDataCmd(g *gen, keyFiltered bool) c03SrcCmd {
	k := []byte(c0304Keys[g.r.Intn(len(c0304Keys)-1)])
	v := []byte(fmt.Sprintf("v%d", g.r.Intn(1000)))
	n := 6
	if keyFiltered {
		n = 5 // no multi-key command: the key-filter instance of the driver covers single-key rows only
	}
	switch g.r.Intn(n) {
	case 0:
		return c03SrcCmd{name: "set", args: [][]byte{k, v}}
	case 1:
		return c03SrcCmd{name: "incr", args: [][]byte{k}}
	case 2:
		return c03SrcCmd{name: "lpush", args: [][]byte{k, v, {}}}
	case 3:
		return c03SrcCmd{name: "hset", args: [][]byte{k, []byte("f"), v}}
	case 4:
		return c03SrcCmd{name: "sadd", args: [][]byte{k, v}}
	}
	return c03SrcCmd{name: "del", args: [][]byte{k, []byte("other")}}
}

type c03StreamOpt struct {
	n          int
	dbs        []int
	keyFilter  bool
	malformed  bool // may contain commands on which the parser aborts
	endMarker  string
	endDb      int
	avoidFirst int // do not make this database the first one selected (-1: no restriction)
	inline     bool // some commands travel as inline command lines
}

// a source command stream a master can emit (plus, optionally, malformed commands)
func c03GenStream(g *gen, o c03StreamOpt) []c03SrcCmd {
	var out []c03SrcCmd
	firstSelect := true
	add := func(c c03SrcCmd) {
		c.name = c03RandCase(g, c.name)
		if g.r.Intn(6) == 0 {
			c.nl = 1 + g.r.Intn(2)
		}
		if o.inline && g.r.Intn(5) == 0 && c03InlineSafe(c) {
			c.nl = 10 + g.r.Intn(2) // an inline command line
			if len(c.args) > 0 && g.r.Intn(3) == 0 && !strings.EqualFold(c.name, "select") {
				// white space other than the blank inside an argument: TAB, VT, FF, NEL, NBSP, U+2028, U+3000 — an inline line is
				// split at the ASCII blank only
				ws := []string{"\t", "\v", "\f", "\xc2\x85", "\xc2\xa0", "\xe2\x80\xa8", "\xe3\x80\x80"}[g.r.Intn(7)]
				k := g.r.Intn(len(c.args))
				c.args[k] = append(append(append([]byte{}, c.args[k]...), ws...), 'z')
			}
		}
		out = append(out, c)
	}
	sel := func() {
		d := o.dbs[g.r.Intn(len(o.dbs))]
		if firstSelect && d == o.avoidFirst {
			d = o.dbs[0]
		}
		firstSelect = false
		add(c03SrcCmd{name: "select", args: [][]byte{[]byte(fmt.Sprint(d))}})
	}
	if g.r.Intn(10) != 0 {
		sel() // after a full sync the stream begins with a SELECT
	}
	for len(out) < o.n {
		switch x := g.r.Intn(100); {
		case x < 14:
			sel()
		case x < 58:
			add(c03GenDataCmd(g, o.keyFilter))
		case x < 66:
			add(c03SrcCmd{name: "ping"})
		case x < 76:
			add(c03SrcCmd{name: "multi"})
			for k := 1 + g.r.Intn(3); k > 0; k-- {
				add(c03GenDataCmd(g, o.keyFilter))
			}
			add(c03SrcCmd{name: "exec"})
		case x < 80:
			add(c03SrcCmd{name: "publish", args: [][]byte{[]byte(c03RandCase(g, "__sentinel__:hello")), []byte("10.0.0.1,26379,x")}})
		case x < 83:
			add(c03SrcCmd{name: "publish", args: [][]byte{[]byte("chan"), []byte("msg")}})
		case x < 88:
			switch g.r.Intn(3) {
			case 0:
				add(c03SrcCmd{name: "eval", args: [][]byte{[]byte("return 1"), []byte("0")}})
			case 1:
				add(c03SrcCmd{name: "evalsha", args: [][]byte{[]byte("abcdef"), []byte("0")}})
			default:
				add(c03SrcCmd{name: "script", args: [][]byte{[]byte("load"), []byte("return 1")}})
			}
		case x < 90:
			add(c03SrcCmd{name: "opinfo", args: [][]byte{[]byte("x")}})
		case x < 92:
			// unusual but valid spellings of the db number
			d := o.dbs[g.r.Intn(len(o.dbs))]
			if d >= 0 && !(firstSelect && d == o.avoidFirst) {
				firstSelect = false
				add(c03SrcCmd{name: "select", args: [][]byte{[]byte(fmt.Sprintf("%s%d", []string{"+", "0", "00"}[g.r.Intn(3)], d))}})
			}
		case x < 94 && o.malformed:
			switch g.r.Intn(5) {
			case 0:
				add(c03SrcCmd{name: "select"})
			case 1:
				add(c03SrcCmd{name: "select", args: [][]byte{[]byte("1"), []byte("2")}})
			case 2:
				add(c03SrcCmd{name: "select", args: [][]byte{[]byte("abc")}})
			case 3:
				add(c03SrcCmd{name: "select", args: [][]byte{[]byte("99999999999999999999")}})
			default:
				add(c03SrcCmd{name: "publish"})
			}
		default:
			add(c03GenDataCmd(g, o.keyFilter))
		}
	}
	if strings.HasPrefix(o.endMarker, "!") {
		out = append(out, c03SrcCmd{name: "select", args: [][]byte{[]byte(fmt.Sprint(o.endDb))}}) // a database no filter excludes
		for k := g.r.Intn(3); k > 0; k-- {
			out = append(out, c03SrcCmd{name: []string{"flushall", "flushdb"}[g.r.Intn(2)]})
		}
		out = append(out, c03SrcCmd{name: o.endMarker[1:]})
	} else if o.endMarker != "" {
		out = append(out, c03SrcCmd{name: "select", args: [][]byte{[]byte(fmt.Sprint(o.endDb))}})
		out = append(out, c03SrcCmd{name: "set", args: [][]byte{[]byte(o.endMarker), []byte("x")}})
	}
	return out
}

func c03GenGaps(g *gen, n int) string {
	b := make([]byte, n)
	long := 0
	for i := range b {
		x := g.r.Intn(100)
		switch {
		case x < 8 && long < 2 && i > 0:
			b[i] = '2'
			long++
		case x < 30:
			b[i] = '1'
		default:
			b[i] = '0'
		}
	}
	return string(b)
}

// items as the parser would tag them (well-formed), or deliberately ill-formed ones
func c03GenItems(g *gen, n int, illFormed bool, endMarker string) []dbSync.VerifC03Item {
	var out []dbSync.VerifC03Item
	off := int64(100 + g.r.Intn(1000))
	db := -1
	push := func(cmd string, args ...string) {
		off += int64(10 + g.r.Intn(50))
		it := dbSync.VerifC03Item{Cmd: cmd, Offset: off, Db: db}
		for _, a := range args {
			it.Args = append(it.Args, []byte(a))
		}
		out = append(out, it)
	}
	data := func() {
		c := c03GenDataCmd(g, false)
		var a []string
		for _, x := range c.args {
			a = append(a, string(x))
		}
		push(c.name, a...)
	}
	if g.r.Intn(4) != 0 {
		db = g.r.Intn(4)
		push("select", fmt.Sprint(db))
	}
	for len(out) < n {
		switch x := g.r.Intn(100); {
		case x < 15:
			db = g.r.Intn(4)
			push("select", fmt.Sprint(db))
		case x < 60:
			data()
		case x < 70:
			push("ping")
		case x < 82:
			push("multi")
			for k := 1 + g.r.Intn(3); k > 0; k-- {
				data()
				if illFormed && g.r.Intn(4) == 0 {
					switch g.r.Intn(3) {
					case 0:
						push("multi") // nested MULTI
					case 1:
						db = g.r.Intn(4)
						push("select", fmt.Sprint(db)) // SELECT inside a transaction
					default:
						push("SELECT", fmt.Sprint(db)) // the injected spelling: not a barrier
					}
				}
			}
			push("exec")
		case x < 85 && illFormed:
			push("SELECT", fmt.Sprint(g.r.Intn(4)))
		case x < 87 && illFormed:
			push("exec")
		default:
			data()
		}
	}
	if strings.HasPrefix(endMarker, "!") {
		// the stream ends in commands WITHOUT arguments (after a pause long enough for everything before to be flushed)
		for k := g.r.Intn(3); k > 0; k-- {
			push([]string{"flushall", "flushdb", "ping"}[g.r.Intn(3)])
		}
		push(endMarker[1:])
	} else if endMarker != "" {
		push("set", endMarker, "x")
	}
	return out
}

// c03TailGaps: a long pause in front of the trailing run of argument-less commands, none inside it
func c03TailGaps(gaps string, argless []bool) string {
	k := 0
	for k < len(argless) && argless[len(argless)-1-k] {
		k++
	}
	if k == 0 || k == len(argless) {
		return gaps
	}
	b := []byte(gaps)
	b[len(b)-k] = '2'
	for i := len(b) - k + 1; i < len(b); i++ {
		b[i] = '0'
	}
	return string(b)
}

var c0304Scfgs = []string{"cnt=3,size=1000000", "cnt=1024,size=65535", "cnt=6,size=60"}

func c03ScfgStr(g *gen, base string, res bool) string {
	r := 0
	if res {
		r = 1
	}
	srcs := []string{"10.0.0.1:6379", "redis-a:6379", "s"}
	return fmt.Sprintf("res=%d,%s,src=%s,rid=%s", r, base, hx([]byte(srcs[g.r.Intn(len(srcs))])), hx([]byte(fmt.Sprintf("%040x", g.r.Int63()))))
}

type c03PipeCfg struct {
	pcfg   string
	dbs    []int
	endDb  int
	keyF   bool
	tdb    int
	endKey string
}

var c0304PipeCfgs = []c03PipeCfg{
	{pcfg: "tdb=-1,fw=-,fb=-,lua=0,kw=-,kb=-", dbs: []int{0, 1, 2, 3}, endDb: 1, tdb: -1},
	{pcfg: "tdb=-1,fw=-,fb=5+7,lua=1,kw=-,kb=" + hx([]byte("b")), dbs: []int{0, 1, 5, 7, 2}, endDb: 2, keyF: true, tdb: -1},
	{pcfg: "tdb=2,fw=0+1+2+3,fb=-,lua=0,kw=-,kb=-", dbs: []int{0, 1, 2, 3, 9}, endDb: 1, tdb: 2},
}

func c03GenSendCases(g *gen, n int, resume func() bool, illShare int) {
	for i := 0; i < n; i++ {
		ill := illShare > 0 && g.r.Intn(illShare) == 0
		end := fmt.Sprintf("__end__%d", i)
		if i%4 == 3 && !ill {
			end = "!" + end
		}
		items := c03GenItems(g, 3+g.r.Intn(22), ill, end)
		argless := make([]bool, len(items))
		for k, it := range items {
			argless[k] = len(it.Args) == 0 && end[0] == '!'
		}
		g.emit("send %s %s %s", c03ScfgStr(g, c0304Scfgs[i%len(c0304Scfgs)], resume()), c03FmtItems(items), c03TailGaps(c03GenGaps(g, len(items)), argless))
	}
}

func c03GenPipeCases(g *gen, n int, resume func() bool, resumed bool) {
	for i := 0; i < n; i++ {
		pc := c0304PipeCfgs[i%len(c0304PipeCfgs)]
		avoid := -1
		if pc.tdb != -1 && g.r.Intn(10) != 0 {
			avoid = pc.tdb // deviation D8 (a known finding) would otherwise dominate these scenarios
		}
		end := fmt.Sprintf("__end__%d", i)
		if i%4 == 2 {
			end = "!" + end
		}
		cmds := c03GenStream(g, c03StreamOpt{n: 3 + g.r.Intn(22), dbs: pc.dbs, keyFilter: pc.keyF, endMarker: end, endDb: pc.endDb, avoidFirst: avoid, inline: i%2 == 1})
		argless := make([]bool, len(cmds))
		for k, c := range cmds {
			argless[k] = len(c.args) == 0 && end[0] == '!' && !strings.EqualFold(c.name, "exec") && !strings.EqualFold(c.name, "multi")
		}
		startDb, base := 0, 0
		if resumed && g.r.Intn(2) == 0 {
			startDb = []int{1, 2, 3}[g.r.Intn(3)]
			if pc.tdb != -1 {
				startDb = pc.tdb
			}
			base = 1000 + g.r.Intn(100000)
		}
		g.emit("pipe %s %s %d %d %s %s", pc.pcfg, c03ScfgStr(g, c0304Scfgs[i%len(c0304Scfgs)], resume()), startDb, base, c03FmtCmds(cmds), c03TailGaps(c03GenGaps(g, len(cmds)), argless))
	}
}

// pipe cases in which some values are large (beyond 64 KiB, beyond 1 MiB): the offsets attached to the commands after
// them — and so the checkpoints — depend on the decoder counting every byte of such a value
func c03GenBigPipeCases(g *gen, sizes []int, resume bool) {
	for i, sz := range sizes {
		pc := c0304PipeCfgs[0]
		cmds := c03GenStream(g, c03StreamOpt{n: 4 + g.r.Intn(5), dbs: pc.dbs, keyFilter: pc.keyF, endMarker: fmt.Sprintf("__endbig__%d", i), endDb: pc.endDb, avoidFirst: -1})
		big := make([]byte, sz)
		for k := range big {
			big[k] = byte(k*7 + k/251)
		}
		at := 1 + g.r.Intn(len(cmds)-2)
		for cmds[at-1].name == "multi" || (at < len(cmds) && strings.EqualFold(cmds[at].name, "exec")) {
			at-- // keep MULTI … EXEC groups as generated
			if at < 1 {
				at = 1
				break
			}
		}
		ins := c03SrcCmd{name: "set", args: [][]byte{[]byte(fmt.Sprintf("big%d", i)), big}}
		cmds = append(cmds[:at], append([]c03SrcCmd{ins}, cmds[at:]...)...)
		g.emit("pipe %s %s 0 0 %s %s", pc.pcfg, c03ScfgStr(g, c0304Scfgs[i%len(c0304Scfgs)], resume), c03FmtCmds(cmds), strings.Repeat("0", len(cmds)))
	}
}

func c03GenParseCases(g *gen, n int) {
	for i := 0; i < n; i++ {
		tdb := []int{-1, -1, -1, 0, 1, 2}[g.r.Intn(6)]
		fw, fb := "-", "-"
		switch g.r.Intn(4) {
		case 0:
			fb = []string{"5", "5+7", "0", "1+2"}[g.r.Intn(4)]
		case 1:
			fw = []string{"0+1+2", "1", "0+1+2+3+5"}[g.r.Intn(3)]
		}
		kw, kb := "-", "-"
		keyF := false
		switch g.r.Intn(5) {
		case 0:
			kb = hx([]byte("b"))
			keyF = true
		case 1:
			kw = hx([]byte("a")) + "+" + hx([]byte("k"))
			keyF = true
		}
		lua := g.r.Intn(2)
		pcfg := fmt.Sprintf("tdb=%d,fw=%s,fb=%s,lua=%d,kw=%s,kb=%s", tdb, fw, fb, lua, kw, kb)
		dbs := []int{0, 1, 2, 3, 5, 7}
		ln := g.r.Intn(61)
		if i%20 == 0 {
			ln = g.r.Intn(4)
		}
		cmds := c03GenStream(g, c03StreamOpt{n: ln, dbs: dbs, keyFilter: keyF, malformed: i%7 == 0, avoidFirst: -1, inline: i%3 == 1})
		startDb := []int{0, 0, 0, 1, 2, 5}[g.r.Intn(6)]
		base := []int{0, 0, 1000, 987654321}[g.r.Intn(4)]
		g.emit("parse %s %d %d %s", pcfg, startDb, base, c03FmtCmds(cmds))
	}
}

func genC03(g *gen) {
	coin := func() bool { return g.r.Intn(2) == 0 }
	c03GenSendCases(g, g.pick(90, 2400), coin, 6)
	c03GenPipeCases(g, g.pick(90, 2400), coin, false)
	// long streams, one command per batch, with the metric (delay sampling of addSendId) switched on and a delay channel of
	// two slots that nobody drains: thousands of send ids pass the sampling points
	for i, nl := 0, g.pick(2, 8); i < nl; i++ {
		pc := c0304PipeCfgs[0]
		cmds := c03GenStream(g, c03StreamOpt{n: 3300 + g.r.Intn(500), dbs: pc.dbs, keyFilter: pc.keyF, endMarker: fmt.Sprintf("__endlong__%d", i), endDb: pc.endDb, avoidFirst: -1})
		g.emit("pipe %s %s 0 0 %s %s", pc.pcfg, c03ScfgStr(g, fmt.Sprintf("cnt=%d,size=65535,met=1,dcap=2", 1+i%2), i%2 == 1), c03FmtCmds(cmds), strings.Repeat("0", len(cmds)))
	}
	c03GenParseCases(g, g.pick(2000, 50000))
	c03GenBigPipeCases(g, g.pickInts([]int{65600, 1048700}, []int{65534, 65535, 65600, 1048574, 1048575, 1048700, 3000000}), false)
}
