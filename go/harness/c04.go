package main

// C04 — same hooks and traces as C03 with enableResumeFromBreakPoint; the driver enumerates every cut
// position of every recorded trace (go/harness/c0304_common.go has the runners).

func init() {
	props["C04"] = &prop{gen: genC04, run: c0304Run, init: c0304Prefetch}
}

func genC04(g *gen) {
	yes := func() bool { return true }
	c03GenSendCases(g, g.pick(120, 3000), yes, 0)
	c03GenPipeCases(g, g.pick(120, 3000), yes, true)
	c03GenBigPipeCases(g, g.pickInts([]int{70000, 1048575}, []int{65534, 65535, 65536, 70000, 1048574, 1048575, 1048576, 2500000}), true)
}
