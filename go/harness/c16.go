package main

// C16: rump (scan-based migration). Generator of scenarios and runner of the REAL fetcher/writer/receiver
// pipeline (hook run.VerifC16RunRump) against an in-harness scripted source and an in-harness target keyspace.
//
// Case line (tokens separated by one space, lists use "-" for empty, bytes are hex):
//   rump n=<scan.key_number> qps=<qps> tdb=<target.db|-1> ke=<rewrite|none> big=<big_key_threshold>
//        kb=<hex,..> kw=<hex,..> dbb=<str,..> dbw=<str,..>          key / db black+white lists
//        mode=<scan|file> dbs=<db,..>                               scanner kind, dbList handed to the executor
//        pay=<hex>:<val>;..                                         payload table: DUMP payload -> logical value
//        src=<db>:<key>:<payidx>:<pttl>;..                          source keyspace (pttl -1 = no expiry)
//        scr=<db>/<cursor>:<key,..>|<cursor>:<key,..>;<db>/..        SCAN replies per db (mode=scan)
//        file=<key,..>                                              lines of scan.key_file (mode=file)
//        ev=<db>/<page>/<D|P>/<idx>/<vdb>/<vkey>,..                 key <vkey> of db <vdb> vanishes just before the
//                                                                   idx-th DUMP (PTTL) of page <page> of db <db>
//        tgt=<db>:<key>:<val>:<ttl>;..                              keys already present in the target
//   <val> = S.<hex> | L.<hex>.. | T.<hex>.. | H.<f>~<v>.. | Z.<m>~<score>.. | O.<hex> (restorable, not expandable)
//           | N (payload the target rejects and the big-key route cannot decode)
//
// Result line: src=<source command trace> tgt=<target arrival trace> ks=<final target keyspace>
//              st=<fetcher><writer><receiver> (o = ran to its end, a = aborted) closed=<dre.close> conf=<cCommands>
//              unread=<replies left unread on the main target connection>
//
// The writer takes one token per key from a QoS bucket that is refilled once per second, so every run lasts >= 1 s.
// To stay inside the time budget all case lines are read up front (c16Prefetch, installed as prop.init), grouped by
// configuration (conf.Options is a process global) and each group is run concurrently; main's loop then only looks
// the results up. A single replayed line is simply run on its own.

import (
	"bufio"
	"errors"
	"fmt"
	"io"
	"io/ioutil"
	"os"
	"sort"
	"strconv"
	"strings"
	"sync"
	"sync/atomic"
	"time"

	"github.com/alibaba/RedisShake/pkg/libs/log"
	"github.com/alibaba/RedisShake/pkg/rdb"
	run "github.com/alibaba/RedisShake/redis-shake"
	conf "github.com/alibaba/RedisShake/redis-shake/configure"

	"github.com/garyburd/redigo/redis"
)

func init() {
	props["C16"] = &prop{gen: genC16, run: runC16, init: c16Prefetch}
}

// ------------------------------------------------------------------ case representation

type c16Val struct {
	kind  byte // S L T H Z O N
	items [][]byte
}

type c16Pay struct {
	b   []byte
	val c16Val
}

type c16Src struct {
	db   int
	key  string
	pay  int
	pttl int64
}

type c16Page struct {
	cursor int64
	keys   []string
}

type c16Ev struct {
	db, page int
	phase    byte
	idx      int
	vdb      int
	vkey     string
}

type c16Tgt struct {
	db  int
	key string
	val c16Val
	ttl int64
}

type c16Case struct {
	n                int
	qps              int
	tdb              int
	ke               string
	big              uint64
	kb, kw, dbb, dbw []string
	mode             string
	dbs              []int
	pays             []c16Pay
	src              []c16Src
	scr              map[int][]c16Page
	scrOrder         []int
	file             []string
	evs              []c16Ev
	tgt              []c16Tgt
}

func c16hx(s string) string { return hx([]byte(s)) }

func c16List(s string, sep string) []string {
	if s == "-" || s == "" {
		return nil
	}
	return strings.Split(s, sep)
}

func c16Join(xs []string, sep string) string {
	if len(xs) == 0 {
		return "-"
	}
	return strings.Join(xs, sep)
}

func (v c16Val) String() string {
	if v.kind == 'N' {
		return "N"
	}
	var sb strings.Builder
	sb.WriteByte(v.kind)
	switch v.kind {
	case 'H', 'Z':
		for i := 0; i+1 < len(v.items); i += 2 {
			sb.WriteString("." + hx(v.items[i]) + "~" + hx(v.items[i+1]))
		}
	default:
		for _, it := range v.items {
			sb.WriteString("." + hx(it))
		}
	}
	return sb.String()
}

func c16ParseVal(s string) c16Val {
	if s == "N" {
		return c16Val{kind: 'N'}
	}
	parts := strings.Split(s, ".")
	v := c16Val{kind: parts[0][0]}
	for _, p := range parts[1:] {
		if v.kind == 'H' || v.kind == 'Z' {
			fv := strings.SplitN(p, "~", 2)
			v.items = append(v.items, unhx(fv[0]), unhx(fv[1]))
		} else {
			v.items = append(v.items, unhx(p))
		}
	}
	return v
}

func (c *c16Case) String() string {
	var sb strings.Builder
	fmt.Fprintf(&sb, "rump n=%d qps=%d tdb=%d ke=%s big=%d", c.n, c.qps, c.tdb, c.ke, c.big)
	hexl := func(xs []string) string {
		var o []string
		for _, x := range xs {
			o = append(o, c16hx(x))
		}
		return c16Join(o, ",")
	}
	fmt.Fprintf(&sb, " kb=%s kw=%s dbb=%s dbw=%s mode=%s", hexl(c.kb), hexl(c.kw), c16Join(c.dbb, ","), c16Join(c.dbw, ","), c.mode)
	var o []string
	for _, d := range c.dbs {
		o = append(o, strconv.Itoa(d))
	}
	fmt.Fprintf(&sb, " dbs=%s", c16Join(o, ","))
	o = nil
	for _, p := range c.pays {
		o = append(o, hx(p.b)+":"+p.val.String())
	}
	fmt.Fprintf(&sb, " pay=%s", c16Join(o, ";"))
	o = nil
	for _, s := range c.src {
		o = append(o, fmt.Sprintf("%d:%s:%d:%d", s.db, c16hx(s.key), s.pay, s.pttl))
	}
	fmt.Fprintf(&sb, " src=%s", c16Join(o, ";"))
	o = nil
	for _, db := range c.scrOrder {
		var ps []string
		for _, p := range c.scr[db] {
			ps = append(ps, fmt.Sprintf("%d:%s", p.cursor, hexl(p.keys)))
		}
		o = append(o, fmt.Sprintf("%d/%s", db, strings.Join(ps, "|")))
	}
	fmt.Fprintf(&sb, " scr=%s file=%s", c16Join(o, ";"), hexl(c.file))
	o = nil
	for _, e := range c.evs {
		o = append(o, fmt.Sprintf("%d/%d/%c/%d/%d/%s", e.db, e.page, e.phase, e.idx, e.vdb, c16hx(e.vkey)))
	}
	fmt.Fprintf(&sb, " ev=%s", c16Join(o, ","))
	o = nil
	for _, t := range c.tgt {
		o = append(o, fmt.Sprintf("%d:%s:%s:%d", t.db, c16hx(t.key), t.val.String(), t.ttl))
	}
	fmt.Fprintf(&sb, " tgt=%s", c16Join(o, ";"))
	return sb.String()
}

func c16Parse(fields []string) *c16Case {
	if len(fields) == 0 || fields[0] != "rump" {
		panic("bad case")
	}
	c := &c16Case{scr: map[int][]c16Page{}}
	unhexl := func(s string) []string {
		var o []string
		for _, x := range c16List(s, ",") {
			o = append(o, string(unhx(x)))
		}
		return o
	}
	for _, f := range fields[1:] {
		kv := strings.SplitN(f, "=", 2)
		if len(kv) != 2 {
			panic("bad token " + f)
		}
		k, v := kv[0], kv[1]
		switch k {
		case "n":
			c.n = atoi(v)
		case "qps":
			c.qps = atoi(v)
		case "tdb":
			c.tdb = atoi(v)
		case "ke":
			c.ke = v
		case "big":
			u, err := strconv.ParseUint(v, 10, 64)
			if err != nil {
				panic("bad big")
			}
			c.big = u
		case "kb":
			c.kb = unhexl(v)
		case "kw":
			c.kw = unhexl(v)
		case "dbb":
			c.dbb = c16List(v, ",")
		case "dbw":
			c.dbw = c16List(v, ",")
		case "mode":
			c.mode = v
		case "dbs":
			for _, x := range c16List(v, ",") {
				c.dbs = append(c.dbs, atoi(x))
			}
		case "pay":
			for _, x := range c16List(v, ";") {
				p := strings.SplitN(x, ":", 2)
				c.pays = append(c.pays, c16Pay{b: unhx(p[0]), val: c16ParseVal(p[1])})
			}
		case "src":
			for _, x := range c16List(v, ";") {
				p := strings.Split(x, ":")
				t, err := strconv.ParseInt(p[3], 10, 64)
				if err != nil {
					panic("bad pttl")
				}
				c.src = append(c.src, c16Src{db: atoi(p[0]), key: string(unhx(p[1])), pay: atoi(p[2]), pttl: t})
			}
		case "scr":
			for _, x := range c16List(v, ";") {
				p := strings.SplitN(x, "/", 2)
				db := atoi(p[0])
				c.scrOrder = append(c.scrOrder, db)
				for _, pg := range strings.Split(p[1], "|") {
					q := strings.SplitN(pg, ":", 2)
					cur, err := strconv.ParseInt(q[0], 10, 64)
					if err != nil {
						panic("bad cursor")
					}
					c.scr[db] = append(c.scr[db], c16Page{cursor: cur, keys: unhexl(q[1])})
				}
			}
		case "file":
			c.file = unhexl(v)
		case "ev":
			for _, x := range c16List(v, ",") {
				p := strings.Split(x, "/")
				c.evs = append(c.evs, c16Ev{db: atoi(p[0]), page: atoi(p[1]), phase: p[2][0], idx: atoi(p[3]), vdb: atoi(p[4]), vkey: string(unhx(p[5]))})
			}
		case "tgt":
			for _, x := range c16List(v, ";") {
				p := strings.Split(x, ":")
				t, err := strconv.ParseInt(p[3], 10, 64)
				if err != nil {
					panic("bad ttl")
				}
				c.tgt = append(c.tgt, c16Tgt{db: atoi(p[0]), key: string(unhx(p[1])), val: c16ParseVal(p[2]), ttl: t})
			}
		default:
			panic("unknown token " + k)
		}
	}
	return c
}

// configuration part of a case line: cases that agree on it may run concurrently
func (c *c16Case) confKey() string {
	s := c.String()
	i := strings.Index(s, " dbs=")
	return s[:i]
}

// ------------------------------------------------------------------ scripted source (fake redigo.Conn)

type c16SrcEntry struct {
	pay  []byte
	pttl int64
}

type c16Source struct {
	mu      sync.Mutex
	c       *c16Case
	ks      map[int]map[string]*c16SrcEntry
	db      int
	served  map[int]int // SCAN replies served per db
	page    int         // index of the page the current DUMP/PTTL pipeline belongs to
	phase   byte        // last pipeline phase seen ('D', 'P' or 0)
	nD, nP  int         // DUMP / PTTL commands executed in the current page
	pending [][]interface{}
	trace   []string
}

func newC16Source(c *c16Case) *c16Source {
	s := &c16Source{c: c, ks: map[int]map[string]*c16SrcEntry{}, served: map[int]int{}, page: -1}
	for _, e := range c.src {
		if s.ks[e.db] == nil {
			s.ks[e.db] = map[string]*c16SrcEntry{}
		}
		s.ks[e.db][e.key] = &c16SrcEntry{pay: c.pays[e.pay].b, pttl: e.pttl}
	}
	return s
}

func c16ArgBytes(a interface{}) []byte {
	switch x := a.(type) {
	case []byte:
		return x
	case string:
		return []byte(x)
	case int:
		return []byte(strconv.Itoa(x))
	case int64:
		return []byte(strconv.FormatInt(x, 10))
	case uint32:
		return []byte(strconv.FormatUint(uint64(x), 10))
	case uint64:
		return []byte(strconv.FormatUint(x, 10))
	case int32:
		return []byte(strconv.FormatInt(int64(x), 10))
	default:
		return []byte(fmt.Sprint(a))
	}
}

func (s *c16Source) vanish(phase byte, idx int) {
	for _, e := range s.c.evs {
		if e.db == s.db && e.page == s.page && e.phase == phase && e.idx == idx {
			if m := s.ks[e.vdb]; m != nil {
				delete(m, e.vkey)
			}
		}
	}
}

// execute one command at the (sequential) source server
func (s *c16Source) exec(cmd string, args []interface{}) interface{} {
	switch strings.ToLower(cmd) {
	case "select":
		d, err := strconv.Atoi(string(c16ArgBytes(args[0])))
		if err != nil {
			return redis.Error("ERR invalid DB index")
		}
		s.db = d
		s.trace = append(s.trace, fmt.Sprintf("s%d", d))
		return "OK"
	case "scan":
		s.trace = append(s.trace, fmt.Sprintf("c%s/%s", c16ArgBytes(args[0]), c16ArgBytes(args[2])))
		pages := s.c.scr[s.db]
		i := s.served[s.db]
		if s.c.mode != "scan" || i >= len(pages) {
			return redis.Error("ERR scan script exhausted")
		}
		s.served[s.db] = i + 1
		s.page, s.phase, s.nD, s.nP = i, 0, 0, 0
		keys := make([]interface{}, 0, len(pages[i].keys))
		for _, k := range pages[i].keys {
			keys = append(keys, []byte(k))
		}
		return []interface{}{[]byte(strconv.FormatInt(pages[i].cursor, 10)), keys}
	case "dump":
		if s.c.mode == "file" && s.phase != 'D' {
			// a new DUMP pipeline = the next page of the key file that has a key left after filtering; which page it is
			// follows from the position of its first key in the file (the lines of a generated file are distinct)
			s.page = -1
			k0 := string(c16ArgBytes(args[0]))
			for i, l := range s.c.file {
				if l == k0 {
					s.page = i / s.c.n
					break
				}
			}
			s.nD, s.nP = 0, 0
		}
		s.phase = 'D'
		s.vanish('D', s.nD)
		s.nD++
		k := string(c16ArgBytes(args[0]))
		s.trace = append(s.trace, "d"+c16hx(k))
		if e := s.ks[s.db][k]; e != nil {
			return append([]byte(nil), e.pay...)
		}
		return nil
	case "pttl":
		s.phase = 'P'
		s.vanish('P', s.nP)
		s.nP++
		k := string(c16ArgBytes(args[0]))
		s.trace = append(s.trace, "t"+c16hx(k))
		if e := s.ks[s.db][k]; e != nil {
			return e.pttl
		}
		return int64(-2)
	}
	s.trace = append(s.trace, "?"+cmd)
	return redis.Error("ERR unknown command")
}

func (s *c16Source) Close() error { return nil }
func (s *c16Source) Err() error   { return nil }
func (s *c16Source) Send(cmd string, args ...interface{}) error {
	s.mu.Lock()
	defer s.mu.Unlock()
	s.pending = append(s.pending, append([]interface{}{cmd}, args...))
	return nil
}
func (s *c16Source) Flush() error { return nil }
func (s *c16Source) Receive() (interface{}, error) {
	return nil, errors.New("c16 source: Receive is not used by rump")
}

// redigo semantics of Do: flush, read the replies of everything pending (+ this command); for cmd == "" return them
// as a slice, otherwise return the last reply and the first error reply as err.
func (s *c16Source) Do(cmd string, args ...interface{}) (interface{}, error) {
	s.mu.Lock()
	defer s.mu.Unlock()
	pend := s.pending
	s.pending = nil
	if cmd == "" {
		if len(pend) == 0 {
			return nil, nil
		}
		s.trace = append(s.trace, "x")
		out := make([]interface{}, len(pend))
		for i, p := range pend {
			out[i] = s.exec(p[0].(string), p[1:])
		}
		return out, nil
	}
	var first error
	var last interface{}
	for _, p := range append(pend, append([]interface{}{cmd}, args...)) {
		last = s.exec(p[0].(string), p[1:])
		if e, ok := last.(redis.Error); ok && first == nil {
			first = e
		}
	}
	if first != nil {
		return nil, first
	}
	return last, nil
}

// ------------------------------------------------------------------ target keyspace + its two connections

type c16TEntry struct {
	val c16Val
	ttl int64 // -1 = no expiry
}

type c16Target struct {
	mu    sync.Mutex
	c     *c16Case
	ks    map[int]map[string]*c16TEntry
	trace []string
}

func newC16Target(c *c16Case) *c16Target {
	t := &c16Target{c: c, ks: map[int]map[string]*c16TEntry{}}
	for _, e := range c.tgt {
		t.put(e.db, e.key, &c16TEntry{val: c16CopyVal(e.val), ttl: e.ttl})
	}
	return t
}

func c16CopyVal(v c16Val) c16Val {
	o := c16Val{kind: v.kind}
	for _, it := range v.items {
		o.items = append(o.items, append([]byte(nil), it...))
	}
	return o
}

func (t *c16Target) put(db int, k string, e *c16TEntry) {
	if t.ks[db] == nil {
		t.ks[db] = map[string]*c16TEntry{}
	}
	t.ks[db][k] = e
}

func (t *c16Target) materialise(p []byte) (c16Val, bool) {
	for _, q := range t.c.pays {
		if string(q.b) == string(p) {
			if q.val.kind == 'N' {
				return c16Val{}, false
			}
			return c16CopyVal(q.val), true
		}
	}
	return c16Val{}, false
}

const c16WrongType = redis.Error("WRONGTYPE Operation against a key holding the wrong kind of value")

// one command arriving at the target on connection `conn` whose selected db is *db (MiniRedisC16, target side)
func (t *c16Target) exec(conn string, db *int, cmd string, args []interface{}) interface{} {
	a := make([][]byte, len(args))
	for i := range args {
		a[i] = c16ArgBytes(args[i])
	}
	name := strings.ToLower(cmd)
	get := func(k string) *c16TEntry { return t.ks[*db][k] }
	elem := func(kind byte, tr string, f func(e *c16TEntry)) interface{} {
		k := string(a[0])
		t.trace = append(t.trace, conn+".e"+c16hx(k)+"/"+tr)
		e := get(k)
		if e == nil {
			e = &c16TEntry{val: c16Val{kind: kind}, ttl: -1}
			t.put(*db, k, e)
		} else if e.val.kind != kind {
			return c16WrongType
		}
		f(e)
		return int64(1)
	}
	switch {
	case name == "select" && len(a) == 1:
		d, err := strconv.Atoi(string(a[0]))
		if err != nil {
			return redis.Error("ERR invalid DB index")
		}
		*db = d
		t.trace = append(t.trace, fmt.Sprintf("%s.s%d", conn, d))
		return "OK"
	case name == "restore" && (len(a) == 3 || len(a) == 4):
		k := string(a[0])
		repl := "-"
		if len(a) == 4 {
			repl = string(a[3])
			if strings.ToUpper(repl) == "REPLACE" {
				repl = "R"
			}
		}
		t.trace = append(t.trace, fmt.Sprintf("%s.r%s/%s/%s/%s", conn, c16hx(k), a[1], hx(a[2]), repl))
		ttl, err := strconv.ParseInt(string(a[1]), 10, 64)
		if err != nil || (repl != "-" && repl != "R") {
			return redis.Error("ERR syntax error")
		}
		if get(k) != nil && repl != "R" {
			return redis.Error("BUSYKEY Target key name already exists.")
		}
		if ttl < 0 {
			return redis.Error("ERR Invalid TTL value, must be >= 0")
		}
		v, ok := t.materialise(a[2])
		if !ok {
			return redis.Error("ERR DUMP payload version or checksum are wrong")
		}
		if ttl == 0 {
			ttl = -1
		}
		t.put(*db, k, &c16TEntry{val: v, ttl: ttl})
		return "OK"
	case name == "del" && len(a) == 1:
		k := string(a[0])
		t.trace = append(t.trace, conn+".d"+c16hx(k))
		if get(k) != nil {
			delete(t.ks[*db], k)
			return int64(1)
		}
		return int64(0)
	case name == "pexpire" && len(a) == 2:
		k := string(a[0])
		t.trace = append(t.trace, fmt.Sprintf("%s.p%s/%s", conn, c16hx(k), a[1]))
		ms, err := strconv.ParseInt(string(a[1]), 10, 64)
		if err != nil {
			return redis.Error("ERR value is not an integer or out of range")
		}
		if get(k) == nil {
			return int64(0)
		}
		if ms <= 0 {
			delete(t.ks[*db], k)
		} else {
			get(k).ttl = ms
		}
		return int64(1)
	case name == "set" && len(a) == 2:
		k := string(a[0])
		t.trace = append(t.trace, conn+".e"+c16hx(k)+"/S"+hx(a[1]))
		t.put(*db, k, &c16TEntry{val: c16Val{kind: 'S', items: [][]byte{a[1]}}, ttl: -1})
		return "OK"
	case name == "rpush" && len(a) == 2:
		return elem('L', "R"+hx(a[1]), func(e *c16TEntry) { e.val.items = append(e.val.items, a[1]) })
	case name == "sadd" && len(a) == 2:
		return elem('T', "A"+hx(a[1]), func(e *c16TEntry) {
			for _, it := range e.val.items {
				if string(it) == string(a[1]) {
					return
				}
			}
			e.val.items = append(e.val.items, a[1])
		})
	case name == "hset" && len(a) == 3:
		return elem('H', "H"+hx(a[1])+"~"+hx(a[2]), func(e *c16TEntry) {
			for i := 0; i+1 < len(e.val.items); i += 2 {
				if string(e.val.items[i]) == string(a[1]) {
					e.val.items[i+1] = a[2]
					return
				}
			}
			e.val.items = append(e.val.items, a[1], a[2])
		})
	case name == "zadd" && len(a) == 3:
		return elem('Z', "Z"+hx(a[2])+"~"+hx(a[1]), func(e *c16TEntry) {
			for i := 0; i+1 < len(e.val.items); i += 2 {
				if string(e.val.items[i]) == string(a[2]) {
					e.val.items[i+1] = a[1]
					return
				}
			}
			e.val.items = append(e.val.items, a[2], a[1])
		})
	}
	t.trace = append(t.trace, conn+".?"+name)
	return redis.Error("ERR unknown command '" + name + "'")
}

// canonical rendering of a logical value: sets, hashes and sorted sets are sorted by member / field
func c16Canon(v c16Val) string {
	switch v.kind {
	case 'T':
		xs := make([]string, len(v.items))
		for i, it := range v.items {
			xs[i] = hx(it)
		}
		sort.Strings(xs)
		return "T." + strings.Join(xs, ".")
	case 'H', 'Z':
		var xs []string
		for i := 0; i+1 < len(v.items); i += 2 {
			xs = append(xs, hx(v.items[i])+"~"+hx(v.items[i+1]))
		}
		sort.Strings(xs)
		return string(v.kind) + "." + strings.Join(xs, ".")
	}
	return v.String()
}

func (t *c16Target) render() string {
	var out []string
	var dbs []int
	for d := range t.ks {
		dbs = append(dbs, d)
	}
	sort.Ints(dbs)
	for _, d := range dbs {
		var keys []string
		for k := range t.ks[d] {
			keys = append(keys, c16hx(k))
		}
		sort.Strings(keys)
		for _, kh := range keys {
			e := t.ks[d][string(unhx(kh))]
			out = append(out, fmt.Sprintf("%d:%s:%s:%d", d, kh, c16Canon(e.val), e.ttl))
		}
	}
	return c16Join(out, ";")
}

type c16TConn struct {
	t        *c16Target
	name     string // "m" main connection (targetClient), "b" big-key connection
	db       int
	buf      [][]interface{} // Sent, not yet flushed
	replies  []interface{}   // arrived replies, not yet read
	pending  int
	deadline time.Time
}

func (c *c16TConn) Close() error { return nil }
func (c *c16TConn) Err() error   { return nil }

func (c *c16TConn) Send(cmd string, args ...interface{}) error {
	c.t.mu.Lock()
	defer c.t.mu.Unlock()
	c.buf = append(c.buf, append([]interface{}{cmd}, args...))
	c.pending++
	return nil
}

func (c *c16TConn) flushLocked() {
	if len(c.buf) == 0 {
		return
	}
	for _, p := range c.buf {
		c.replies = append(c.replies, c.t.exec(c.name, &c.db, p[0].(string), p[1:]))
	}
	c.buf = nil
	if c.name == "m" {
		c.t.trace = append(c.t.trace, "m.f")
	}
}

func (c *c16TConn) Flush() error {
	c.t.mu.Lock()
	defer c.t.mu.Unlock()
	c.flushLocked()
	return nil
}

// Receive blocks until a reply has arrived (bounded by the deadline of the case)
func (c *c16TConn) Receive() (interface{}, error) {
	for {
		c.t.mu.Lock()
		if len(c.replies) > 0 {
			r := c.replies[0]
			c.replies = c.replies[1:]
			if c.pending > 0 {
				c.pending--
			}
			c.t.mu.Unlock()
			if e, ok := r.(redis.Error); ok {
				return nil, e
			}
			return r, nil
		}
		c.t.mu.Unlock()
		if time.Now().After(c.deadline) {
			return nil, io.ErrNoProgress
		}
		time.Sleep(200 * time.Microsecond)
	}
}

func (c *c16TConn) Do(cmd string, args ...interface{}) (interface{}, error) {
	c.t.mu.Lock()
	defer c.t.mu.Unlock()
	pend := c.pending
	c.pending = 0
	if cmd == "" && pend == 0 {
		return nil, nil
	}
	if cmd != "" {
		c.buf = append(c.buf, append([]interface{}{cmd}, args...))
	}
	c.flushLocked()
	take := func() interface{} {
		if len(c.replies) == 0 {
			return redis.Error("ERR c16: no reply")
		}
		r := c.replies[0]
		c.replies = c.replies[1:]
		return r
	}
	if cmd == "" {
		out := make([]interface{}, pend)
		for i := range out {
			out[i] = take()
		}
		return out, nil
	}
	var first error
	var last interface{}
	for i := 0; i <= pend; i++ {
		last = take()
		if e, ok := last.(redis.Error); ok && first == nil {
			first = e
		}
	}
	if first != nil {
		return nil, first
	}
	return last, nil
}

// ------------------------------------------------------------------ running one group of cases under one configuration

var c16Mu sync.Mutex // conf.Options is global: one configuration at a time

func c16Configure(c *c16Case, keyFile string) {
	conf.Options.ScanKeyNumber = uint32(c.n)
	conf.Options.Qps = c.qps
	conf.Options.TargetDB = c.tdb
	conf.Options.KeyExists = c.ke
	conf.Options.BigKeyThreshold = c.big
	conf.Options.FilterKeyBlacklist = c.kb
	conf.Options.FilterKeyWhitelist = c.kw
	conf.Options.FilterDBBlacklist = c.dbb
	conf.Options.FilterDBWhitelist = c.dbw
	conf.Options.ScanSpecialCloud = ""
	conf.Options.ScanKeyFile = keyFile
	conf.Options.Metric = true
}

var c16LogOnce sync.Once

func c16Quiet() {
	c16LogOnce.Do(func() {
		if os.Getenv("VERIF_DEBUG") == "" {
			log.StdLog = log.New(ioutil.Discard, "")
			log.SetLevel(log.LEVEL_NONE)
		}
	})
}

const c16TimeoutFull = 20 * time.Second

// Once a few cases have hung (a mutated receiver waiting for replies that never come, say) the verdict is
// settled; the remaining cases get a short deadline so that the whole check does not wait 20 s per case.
var c16Hung int32

func c16RunOne(c *c16Case) string {
	c16Timeout := c16TimeoutFull
	if atomic.LoadInt32(&c16Hung) >= 3 {
		c16Timeout = 4 * time.Second
	}
	src := newC16Source(c)
	tg := newC16Target(c)
	dl := time.Now().Add(c16Timeout)
	m := &c16TConn{t: tg, name: "m", deadline: dl}
	b := &c16TConn{t: tg, name: "b", deadline: dl}
	dbl := make([]int32, len(c.dbs))
	for i, d := range c.dbs {
		dbl[i] = int32(d)
	}
	out := run.VerifC16RunRump(src, m, b, dbl, c16Timeout+2*time.Second)
	if out.ScannerNil {
		return "scanner=nil"
	}
	st := func(a bool) string {
		if a {
			return "a"
		}
		return "o"
	}
	src.mu.Lock()
	tg.mu.Lock()
	defer src.mu.Unlock()
	defer tg.mu.Unlock()
	status := st(out.FetcherAbort) + st(out.WriterAbort) + st(out.ReceiverAbort)
	if out.TimedOut {
		status += "T"
		atomic.AddInt32(&c16Hung, 1)
	}
	closed := 0
	if out.Closed {
		closed = 1
	}
	return fmt.Sprintf("src=%s tgt=%s ks=%s st=%s closed=%d conf=%d unread=%d unsent=%d", c16Join(src.trace, ","), c16Join(tg.trace, ","),
		tg.render(), status, closed, out.Confirmed, len(m.replies), len(m.buf))
}

// runs cases that share one configuration concurrently; file-mode cases each get their own key file, which means
// their own configuration (conf.Options.ScanKeyFile), so they form groups of one.
func c16RunGroup(cs []*c16Case) []string {
	c16Mu.Lock()
	defer c16Mu.Unlock()
	c16Quiet()
	res := make([]string, len(cs))
	keyFile := ""
	if cs[0].mode == "file" {
		f, err := ioutil.TempFile("", "c16keys")
		if err != nil {
			panic(err)
		}
		w := bufio.NewWriter(f)
		for i, k := range cs[0].file {
			w.WriteString(k)
			// the last line has a newline or not, both must work
			if i+1 < len(cs[0].file) || len(k)%2 == 0 {
				w.WriteByte('\n')
			}
		}
		w.Flush()
		f.Close()
		keyFile = f.Name()
		defer os.Remove(keyFile)
	}
	c16Configure(cs[0], keyFile)
	var wg sync.WaitGroup
	for i := range cs {
		wg.Add(1)
		go func(i int) {
			defer wg.Done()
			defer func() {
				if e := recover(); e != nil {
					res[i] = "panic"
					if os.Getenv("VERIF_DEBUG") != "" {
						res[i] = fmt.Sprintf("panic %v", e)
					}
				}
			}()
			res[i] = c16RunOne(cs[i])
		}(i)
	}
	wg.Wait()
	return res
}

func (c *c16Case) groupKey() string {
	if c.mode == "file" {
		return c.confKey() + " file=" + strings.Join(c.file, "\x00")
	}
	return c.confKey()
}

var c16Results = map[string]string{}

// prop.init: read every case line now, run them grouped by configuration, and hand the same lines on to main's loop
func c16Prefetch() {
	defer func() { recover() }() // whatever goes wrong here, runC16 still computes each line on its own
	data, err := ioutil.ReadAll(os.Stdin)
	if err != nil {
		return
	}
	r, w, err := os.Pipe()
	if err != nil {
		panic(err)
	}
	os.Stdin = r
	go func() {
		w.Write(data)
		w.Close()
	}()
	lines := strings.Split(string(data), "\n")
	groups := map[string][]*c16Case{}
	glines := map[string][]string{}
	var order []string
	for _, ln := range lines {
		if ln == "" {
			continue
		}
		if _, dup := c16Results[ln]; dup {
			continue
		}
		var c *c16Case
		func() {
			defer func() { recover() }()
			c = c16Parse(strings.Fields(ln))
		}()
		if c == nil {
			continue
		}
		c16Results[ln] = ""
		k := c.groupKey()
		if _, ok := groups[k]; !ok {
			order = append(order, k)
		}
		groups[k] = append(groups[k], c)
		glines[k] = append(glines[k], ln)
	}
	for _, k := range order {
		res := c16RunGroup(groups[k])
		for i, ln := range glines[k] {
			c16Results[ln] = res[i]
		}
	}
}

// dblist dbb=<..> dbw=<..> counts=<db>:<keys>,..   ->   getSourceDbList on `info keyspace` (order of a Go map: sorted here)
func c16RunDbList(fields []string) string {
	c16Mu.Lock()
	defer c16Mu.Unlock()
	c16Quiet()
	c := &c16Case{n: 1, qps: 1, tdb: -1, ke: "none"}
	text := "# Keyspace\r\n"
	for _, f := range fields[1:] {
		kv := strings.SplitN(f, "=", 2)
		switch kv[0] {
		case "dbb":
			c.dbb = c16List(kv[1], ",")
		case "dbw":
			c.dbw = c16List(kv[1], ",")
		case "counts":
			for _, x := range c16List(kv[1], ",") {
				p := strings.Split(x, ":")
				text += fmt.Sprintf("db%d:keys=%d,expires=0,avg_ttl=0\r\n", atoi(p[0]), atoi(p[1]))
			}
		}
	}
	c16Configure(c, "")
	list, total, err := run.VerifC16DbList(&c16InfoConn{text: text})
	if err != nil {
		return "err"
	}
	xs := make([]int, len(list))
	for i, d := range list {
		xs[i] = int(d)
	}
	sort.Ints(xs)
	var o []string
	for _, d := range xs {
		o = append(o, strconv.Itoa(d))
	}
	return fmt.Sprintf("dbs=%s total=%d", c16Join(o, ","), total)
}

// source connection that only answers `info keyspace`
type c16InfoConn struct{ text string }

func (c *c16InfoConn) Close() error                            { return nil }
func (c *c16InfoConn) Err() error                              { return nil }
func (c *c16InfoConn) Send(cmd string, a ...interface{}) error { return nil }
func (c *c16InfoConn) Flush() error                            { return nil }
func (c *c16InfoConn) Receive() (interface{}, error)           { return nil, errors.New("not used") }
func (c *c16InfoConn) Do(cmd string, a ...interface{}) (interface{}, error) {
	if strings.ToLower(cmd) == "info" && len(a) == 1 && strings.ToLower(string(c16ArgBytes(a[0]))) == "keyspace" {
		return []byte(c.text), nil
	}
	return nil, redis.Error("ERR unknown command")
}

func runC16(fields []string) string {
	if len(fields) > 0 && fields[0] == "dblist" {
		return c16RunDbList(fields)
	}
	ln := strings.Join(fields, " ")
	if r, ok := c16Results[ln]; ok && r != "" {
		return r
	}
	c := c16Parse(fields)
	return c16RunGroup([]*c16Case{c})[0]
}

// ------------------------------------------------------------------ generator

// RDB value bodies of the plain encodings, written here (the repo is only used for the DUMP trailer)
func c16Len(n int) []byte {
	switch {
	case n < 64:
		return []byte{byte(n)}
	case n < 16384:
		return []byte{0x40 | byte(n>>8), byte(n)}
	default:
		return []byte{0x80, byte(n >> 24), byte(n >> 16), byte(n >> 8), byte(n)}
	}
}

func c16Str(b []byte) []byte { return append(c16Len(len(b)), b...) }

// payload of a logical value: type byte + body + version/CRC trailer
func c16Payload(v c16Val, junk []byte) []byte {
	var t byte
	var body []byte
	switch v.kind {
	case 'S':
		t, body = 0, c16Str(v.items[0])
	case 'L':
		t = 1
		body = c16Len(len(v.items))
		for _, it := range v.items {
			body = append(body, c16Str(it)...)
		}
	case 'T':
		t = 2
		body = c16Len(len(v.items))
		for _, it := range v.items {
			body = append(body, c16Str(it)...)
		}
	case 'Z':
		t = 3 // member, then the score as a length-prefixed decimal text
		body = c16Len(len(v.items) / 2)
		for i := 0; i+1 < len(v.items); i += 2 {
			body = append(body, c16Str(v.items[i])...)
			body = append(body, byte(len(v.items[i+1])))
			body = append(body, v.items[i+1]...)
		}
	case 'H':
		t = 4
		body = c16Len(len(v.items) / 2)
		for i := 0; i+1 < len(v.items); i += 2 {
			body = append(body, c16Str(v.items[i])...)
			body = append(body, c16Str(v.items[i+1])...)
		}
	case 'O':
		t, body = 15, junk // a stream: RESTORE accepts it, the element-wise route cannot expand it
	default:
		t, body = 99, junk // nothing the target or the expander understands
	}
	return rdb.VerifCreateValueDump(t, body)
}

type c16Gen struct {
	g     *gen
	stats map[string]int
}

func (cg *c16Gen) word(max int) []byte {
	n := 1 + cg.g.r.Intn(max)
	b := make([]byte, n)
	for i := range b {
		b[i] = "abcxyz019:_"[cg.g.r.Intn(11)]
	}
	if cg.g.r.Intn(6) == 0 {
		cg.g.r.Read(b) // arbitrary binary
	}
	return b
}

func (cg *c16Gen) distinct(n, max int) [][]byte {
	seen := map[string]bool{}
	var out [][]byte
	for len(out) < n {
		w := cg.word(max)
		if !seen[string(w)] {
			seen[string(w)] = true
			out = append(out, w)
		}
	}
	return out
}

func (cg *c16Gen) score() []byte {
	r := cg.g.r
	s := strconv.Itoa(r.Intn(2000) - 1000)
	if r.Intn(3) == 0 {
		s += ".5"
	}
	if s == "-0.5" || s == "0.5" || s == "-0" {
		return []byte("7")
	}
	return []byte(s)
}

func (cg *c16Gen) value(kind byte) c16Val {
	r := cg.g.r
	n := 1 + r.Intn(5)
	v := c16Val{kind: kind}
	switch kind {
	case 'S':
		v.items = [][]byte{cg.word(30)}
		if r.Intn(8) == 0 {
			v.items = [][]byte{{}}
		}
	case 'L':
		for i := 0; i < n; i++ {
			v.items = append(v.items, cg.word(8))
		}
	case 'T':
		v.items = cg.distinct(n, 8)
	case 'H':
		for _, f := range cg.distinct(n, 6) {
			v.items = append(v.items, f, cg.word(8))
		}
	case 'Z':
		for _, m := range cg.distinct(n, 6) {
			v.items = append(v.items, m, cg.score())
		}
	case 'O':
		v.items = [][]byte{cg.word(6)}
	}
	return v
}

var c16Keys = []string{"a", "b", "ab", "abc", "k1", "k2", "k10", "user:1", "user:2", "user:10", "tmp:x", "tmp:y", "x", "y", "z",
	"redis-shake-checkpoint", "redis-shake-checkpoint-1", "\x00\xff", "long-key-name-0123456789", "q", "r", "s", "t", "u", "v", "w"}

func (cg *c16Gen) scenario(c *c16Case) {
	r := cg.g.r
	c.pays, c.src, c.scr, c.scrOrder, c.evs, c.tgt = nil, nil, map[int][]c16Page{}, nil, nil, nil
	// db list
	ndb := 1 + r.Intn(3)
	perm := r.Perm(4)
	c.dbs = nil
	for i := 0; i < ndb; i++ {
		c.dbs = append(c.dbs, perm[i])
	}
	if r.Intn(4) == 0 {
		c.dbs = []int{0}
	}
	kinds := "SSSLLTHZ"
	newPay := func() int {
		k := kinds[r.Intn(len(kinds))]
		switch r.Intn(40) {
		case 0:
			k = 'O'
		case 1:
			k = 'N'
		}
		v := cg.value(k)
		c.pays = append(c.pays, c16Pay{b: c16Payload(v, cg.g.bytes(3+r.Intn(20))), val: v})
		cg.stats["val-"+string(k)]++
		return len(c.pays) - 1
	}
	pttl := func() int64 {
		switch r.Intn(12) {
		case 0, 1, 2, 3, 4:
			return -1
		case 5:
			return 1
		case 6:
			return int64(1) << 40
		case 7:
			if r.Intn(4) == 0 {
				return 0
			}
			return 2
		default:
			return 1 + r.Int63n(100000000)
		}
	}
	maxKeys := 1 + r.Intn(9)
	if r.Intn(5) == 0 {
		maxKeys = 2*c.n + r.Intn(3)
	}
	if c.qps < 64 {
		// the QoS bucket hands out c.qps tokens per second (one per key read from keyChan): keep the run within ~3 s
		maxKeys = c.qps
	}
	var scanned [][2]string // (db, key) in scan order, for events and target collisions
	for _, db := range c.dbs {
		nk := r.Intn(maxKeys + 1)
		pool := c16Keys
		if c.n >= 50 {
			// realistic page size (the default scan.key_number is 100): enough keys for several full batches
			pool = nil
			for i := 0; i < 3*c.n; i++ {
				pool = append(pool, fmt.Sprintf("key:%04d", i))
			}
			nk = 2*c.n + r.Intn(c.n)
			if r.Intn(3) == 0 {
				nk = 2 * c.n // exactly two full batches
			}
		}
		if c.mode == "file" && len(c.file) > 0 {
			pool = append(append([]string(nil), c.file...), "other1", "other2")
			nk = r.Intn(len(pool) + 1)
		}
		kp := r.Perm(len(pool))
		var keys []string
		for i := 0; i < nk && i < len(kp); i++ {
			k := pool[kp[i]]
			keys = append(keys, k)
			c.src = append(c.src, c16Src{db: db, key: k, pay: newPay(), pttl: pttl()})
		}
		// keys reported by the scan: the keys of the db in random order, now and then one that is already gone
		order := append([]string(nil), keys...)
		r.Shuffle(len(order), func(i, j int) { order[i], order[j] = order[j], order[i] })
		if r.Intn(6) == 0 {
			order = append(order, "ghost")
		}
		if len(order) > 0 && r.Intn(10) == 0 {
			// SCAN is allowed to report a key twice
			order = append(order, order[r.Intn(len(order))])
			cg.stats["scan-duplicate"]++
		}
		if c.mode == "file" {
			// the lines of the key file were fixed with the configuration
		} else {
			var pages []c16Page
			i := 0
			for {
				sz := r.Intn(c.n + 3)
				if c.n >= 50 && r.Intn(2) == 0 {
					sz = c.n - 5 + r.Intn(10)
				}
				if r.Intn(4) == 0 {
					sz = c.n
				}
				if r.Intn(6) == 0 {
					sz = 0
				}
				if i+sz > len(order) {
					sz = len(order) - i
				}
				pg := c16Page{cursor: int64(1 + r.Intn(1000)), keys: order[i : i+sz]}
				i += sz
				if i >= len(order) && r.Intn(3) != 0 {
					pg.cursor = 0
					pages = append(pages, pg)
					break
				}
				pages = append(pages, pg)
				if len(pages) > 30 {
					pages[len(pages)-1].cursor = 0
					break
				}
			}
			switch r.Intn(40) {
			case 0: // the source stops answering before the cursor returns to 0
				pages[len(pages)-1].cursor = 77
				cg.stats["script-exhausted"]++
			case 1, 2: // replies that must never be asked for
				pages = append(pages, c16Page{cursor: 5, keys: []string{"never"}})
			}
			c.scr[db] = pages
			c.scrOrder = append(c.scrOrder, db)
		}
		if c.mode == "file" {
			order = c.file
		}
		for _, k := range order {
			scanned = append(scanned, [2]string{strconv.Itoa(db), k})
		}
	}
	// vanish events
	if len(scanned) > 0 && r.Intn(2) == 0 {
		ne := 1 + r.Intn(3)
		for i := 0; i < ne; i++ {
			v := scanned[r.Intn(len(scanned))]
			vdb, _ := strconv.Atoi(v[0])
			db := c.dbs[r.Intn(len(c.dbs))]
			if r.Intn(3) != 0 {
				db = vdb
			}
			np := len(c.scr[db])
			if c.mode == "file" {
				np = len(c.file)/c.n + 1
			}
			if np == 0 {
				continue
			}
			ph := byte('D')
			if r.Intn(2) == 0 {
				ph = 'P'
			}
			c.evs = append(c.evs, c16Ev{db: db, page: r.Intn(np), phase: ph, idx: r.Intn(c.n + 1), vdb: vdb, vkey: v[1]})
			cg.stats["event"]++
		}
	}
	// keys already in the target
	if r.Intn(3) == 0 {
		nt := 1 + r.Intn(3)
		seen := map[string]bool{}
		for i := 0; i < nt; i++ {
			var db int
			var k string
			if len(scanned) > 0 && r.Intn(3) != 0 {
				v := scanned[r.Intn(len(scanned))]
				db, _ = strconv.Atoi(v[0])
				if c.tdb != -1 {
					db = c.tdb
				}
				k = v[1]
			} else {
				db, k = r.Intn(4), c16Keys[r.Intn(len(c16Keys))]
			}
			id := fmt.Sprintf("%d/%s", db, k)
			if seen[id] {
				continue
			}
			seen[id] = true
			ttl := int64(-1)
			if r.Intn(2) == 0 {
				ttl = 1 + r.Int63n(100000)
			}
			c.tgt = append(c.tgt, c16Tgt{db: db, key: k, val: cg.value(kinds[r.Intn(len(kinds))]), ttl: ttl})
			cg.stats["target-preexisting"]++
		}
	}
}

func (cg *c16Gen) config(c *c16Case) {
	r := cg.g.r
	c.n = 1 + r.Intn(5)
	if r.Intn(8) == 0 {
		c.n = 6 + r.Intn(10)
	}
	c.qps = 64
	c.tdb = -1
	if r.Intn(4) == 0 {
		c.tdb = r.Intn(4)
	}
	c.ke = "rewrite"
	if r.Intn(2) == 0 {
		c.ke = "none"
	}
	switch r.Intn(8) {
	case 0:
		c.big = 0
	case 1:
		c.big = uint64(11 + r.Intn(4)) // a 1-byte string payload is 13 bytes long
	case 2, 3, 4, 5:
		c.big = uint64(15 + r.Intn(40)) // in the middle of the payload sizes: both routes in one run
	default:
		c.big = 500 * 1024 * 1024
	}
	c.kb, c.kw, c.dbb, c.dbw = nil, nil, nil, nil
	prefixes := []string{"a", "ab", "user:", "tmp:", "k1", "redis", "zz", "\x00"}
	switch r.Intn(5) {
	case 0:
		c.kb = []string{prefixes[r.Intn(len(prefixes))]}
		if r.Intn(2) == 0 {
			c.kb = append(c.kb, prefixes[r.Intn(len(prefixes))])
		}
	case 1:
		c.kw = []string{prefixes[r.Intn(len(prefixes))], prefixes[r.Intn(len(prefixes))]}
	case 2:
		if r.Intn(3) == 0 {
			c.kb = []string{prefixes[r.Intn(len(prefixes))]}
			c.kw = []string{prefixes[r.Intn(len(prefixes))]}
		}
	}
	dbs := []string{"0", "1", "2", "3", "01", "10", "+1", "2x"}
	switch r.Intn(6) {
	case 0:
		c.dbb = []string{dbs[r.Intn(4)]}
	case 1:
		c.dbw = []string{dbs[r.Intn(4)], dbs[r.Intn(len(dbs)-1)]}
	case 2:
		if r.Intn(2) == 0 {
			c.dbb = []string{dbs[r.Intn(len(dbs)-1)]}
			c.dbw = []string{dbs[r.Intn(4)]}
		}
	}
	c.mode = "scan"
}

func genC16(g *gen) {
	cg := &c16Gen{g: g, stats: map[string]int{}}
	configs := g.pick(20, 150)
	per := g.pick(40, 60)
	for i := 0; i < configs; i++ {
		c := &c16Case{}
		cg.config(c)
		for j := 0; j < per; j++ {
			cg.scenario(c)
			g.emit("%s", c.String())
		}
	}
	// realistic sizes: scan.key_number 50/100, a few hundred keys (qps raised so that the run still takes ~1 s)
	for i := 0; i < g.pick(1, 8); i++ {
		c := &c16Case{}
		cg.config(c)
		c.n = []int{50, 100}[g.r.Intn(2)]
		c.qps = 2000
		c.kb, c.kw = nil, nil
		for j := 0; j < g.pick(3, 6); j++ {
			cg.scenario(c)
			g.emit("%s", c.String())
		}
	}
	// the db list exec obtains from `info keyspace`
	for i := 0; i < g.pick(60, 1000); i++ {
		c := &c16Case{}
		cg.config(c)
		var o []string
		for _, d := range g.r.Perm(6)[:1+g.r.Intn(5)] {
			n := g.r.Intn(4)
			if g.r.Intn(3) == 0 {
				n = 0
			}
			o = append(o, fmt.Sprintf("%d:%d", d, n))
		}
		g.emit("dblist dbb=%s dbw=%s counts=%s", c16Join(c.dbb, ","), c16Join(c.dbw, ","), c16Join(o, ","))
	}
	// QoS: fewer tokens per second than keys — the writer is throttled over several seconds and must lose nothing
	slow := g.pick(1, 6)
	for i := 0; i < slow; i++ {
		c := &c16Case{}
		cg.config(c)
		c.qps = 1 + g.r.Intn(3)
		for j := 0; j < per; j++ {
			cg.scenario(c)
			g.emit("%s", c.String())
		}
	}
	// key-file driven scans: the file belongs to the configuration; line counts around multiples of the page size
	files := g.pick(6, 60)
	for i := 0; i < files; i++ {
		c := &c16Case{}
		cg.config(c)
		c.mode = "file"
		nl := []int{0, 1, c.n - 1, c.n, c.n + 1, 2 * c.n, 2*c.n + 1, 3 * c.n, g.r.Intn(4*c.n + 1)}[g.r.Intn(9)]
		if i%3 == 2 {
			// a key file longer than the line scanner's buffer (4 KiB to start with, refilled as the scan proceeds)
			nl = []int{230, 450, 1100}[g.r.Intn(3)]
		}
		kp := g.r.Perm(len(c16Keys))
		c.file = nil
		for j := 0; j < nl; j++ {
			if j < len(kp) {
				c.file = append(c.file, c16Keys[kp[j]])
			} else {
				c.file = append(c.file, fmt.Sprintf("pad%d:%s", j, strings.Repeat("x", 6+j%13)))
			}
		}
		for j := 0; j < per/2; j++ {
			cg.scenario(c)
			g.emit("%s", c.String())
		}
	}
}
