package main

// C14 — the checkpoint loader. Case kinds (see lean/RSVerif/Drive/C14.lean for the formats):
//   ks      utils.ParseKeyspace on a served INFO text
//   fetch   checkpoint.fetchCheckpoint on one HGETALL reply through an in-memory fake redigo.Conn
//   load    checkpoint.LoadCheckpoint against a fake target over loopback TCP (it dials by itself);
//           returned tuple + the target's keyspace afterwards
//   writer  the REAL incremental sender (dbSync.sendTargetCommand) writes groups into the fake target,
//           then the real LoadCheckpoint reads them back
// The fake target is a dumb key/value store driven by the case's state description: it answers
// info/select/exists/hgetall/hdel/hset and knows nothing about addresses, offsets or versions.

import (
	"bufio"
	"fmt"
	"io"
	"net"
	"runtime"
	"sort"
	"strconv"
	"strings"
	"sync"
	"time"

	"github.com/alibaba/RedisShake/redis-shake/checkpoint"
	utils "github.com/alibaba/RedisShake/redis-shake/common"
	conf "github.com/alibaba/RedisShake/redis-shake/configure"
	"github.com/alibaba/RedisShake/redis-shake/dbSync"
)

func init() {
	props["C14"] = &prop{gen: genC14, run: runC14}
}

// ------------------------------------------------------------------ fake target state

type c14pair struct{ f, v []byte }

type c14db struct {
	id     int
	hash   []c14pair // the checkpoint hash in HGETALL order; empty = key absent
	others int       // number of other keys
}

type c14state struct {
	dbs  []*c14db
	name string // the key the hash lives under
}

func (s *c14state) get(id int, create bool) *c14db {
	for _, d := range s.dbs {
		if d.id == id {
			return d
		}
	}
	if !create {
		return nil
	}
	d := &c14db{id: id}
	s.dbs = append(s.dbs, d)
	return d
}

func c14hx(b []byte) string { return hx(b) }

func (s *c14state) String() string {
	if len(s.dbs) == 0 {
		return "-"
	}
	var parts []string
	for _, d := range s.dbs {
		h := "-"
		if len(d.hash) > 0 {
			var ps []string
			for _, p := range d.hash {
				ps = append(ps, c14hx(p.f)+"="+c14hx(p.v))
			}
			h = strings.Join(ps, ",")
		}
		parts = append(parts, fmt.Sprintf("%d:%d:%s", d.id, d.others, h))
	}
	return strings.Join(parts, "/")
}

// canon: dbs by index, fields by name — the order in which a sender issues its hsets is not an observable
func (s *c14state) canon() string {
	c := &c14state{name: s.name}
	for _, d := range s.dbs {
		e := &c14db{id: d.id, others: d.others, hash: append([]c14pair{}, d.hash...)}
		sort.Slice(e.hash, func(i, j int) bool { return hx(e.hash[i].f) < hx(e.hash[j].f) })
		c.dbs = append(c.dbs, e)
	}
	sort.Slice(c.dbs, func(i, j int) bool { return c.dbs[i].id < c.dbs[j].id })
	return c.String()
}

func c14parseHash(s string) []c14pair {
	if s == "-" {
		return nil
	}
	var out []c14pair
	for _, p := range strings.Split(s, ",") {
		fv := strings.SplitN(p, "=", 2)
		out = append(out, c14pair{unhx(fv[0]), unhx(fv[1])})
	}
	return out
}

func c14parseState(s string, name string) *c14state {
	st := &c14state{name: name}
	if s == "-" {
		return st
	}
	for _, e := range strings.Split(s, "/") {
		f := strings.SplitN(e, ":", 3)
		st.dbs = append(st.dbs, &c14db{id: atoi(f[0]), others: atoi(f[1]), hash: c14parseHash(f[2])})
	}
	return st
}

func (d *c14db) hset(f, v []byte) {
	for i := range d.hash {
		if string(d.hash[i].f) == string(f) {
			d.hash[i].v = v
			return
		}
	}
	d.hash = append(d.hash, c14pair{f, v})
}

func (d *c14db) hdel(f []byte) int {
	for i := range d.hash {
		if string(d.hash[i].f) == string(f) {
			d.hash = append(d.hash[:i:i], d.hash[i+1:]...)
			return 1
		}
	}
	return 0
}

// ------------------------------------------------------------------ command execution (shared by both fakes)

type c14sess struct {
	st     *c14state
	cur    int
	ks     []byte // INFO keyspace reply
	nCmd   int
	failAt int
	// failures in the clearing phase: the failSel-th `select` / the failHdel-th `hdel` is answered with an error reply
	// (the scan phase of a load without errors sends exactly one select per db of the keyspace and no hdel)
	failSel, failHdel int
	nSel, nHdel       int
}

type c14err string

// exec returns a reply in redigo's representation: string (status), int64, []byte, []interface{}, c14err.
func (s *c14sess) exec(args [][]byte) interface{} {
	s.nCmd++
	if s.failAt != 0 && s.nCmd == s.failAt {
		return c14err("ERR injected")
	}
	if len(args) == 0 {
		return c14err("ERR empty")
	}
	cmd := strings.ToLower(string(args[0]))
	if cmd == "select" {
		s.nSel++
		if s.nSel == s.failSel {
			return c14err("ERR injected")
		}
	}
	if cmd == "hdel" {
		s.nHdel++
		if s.nHdel == s.failHdel {
			return c14err("ERR injected")
		}
	}
	switch cmd {
	case "info":
		return s.ks
	case "select":
		n, err := strconv.Atoi(string(args[1]))
		if err != nil {
			return c14err("ERR invalid DB index")
		}
		s.cur = n
		return "OK"
	case "exists":
		d := s.st.get(s.cur, false)
		if d != nil && string(args[1]) == s.st.name && len(d.hash) > 0 {
			return int64(1)
		}
		return int64(0)
	case "hgetall":
		d := s.st.get(s.cur, false)
		out := []interface{}{}
		if d != nil && string(args[1]) == s.st.name {
			for _, p := range d.hash {
				out = append(out, p.f, p.v)
			}
		}
		return out
	case "hget", "hexists":
		d := s.st.get(s.cur, false)
		if d != nil && string(args[1]) == s.st.name {
			for _, p := range d.hash {
				if string(p.f) == string(args[2]) {
					if cmd == "hexists" {
						return int64(1)
					}
					return p.v
				}
			}
		}
		if cmd == "hexists" {
			return int64(0)
		}
		return nil
	case "hmget":
		d := s.st.get(s.cur, false)
		out := []interface{}{}
		for _, f := range args[2:] {
			var v interface{}
			if d != nil && string(args[1]) == s.st.name {
				for _, p := range d.hash {
					if string(p.f) == string(f) {
						v = p.v
					}
				}
			}
			out = append(out, v)
		}
		return out
	case "hlen":
		d := s.st.get(s.cur, false)
		if d != nil && string(args[1]) == s.st.name {
			return int64(len(d.hash))
		}
		return int64(0)
	case "hdel":
		d := s.st.get(s.cur, false)
		n := 0
		if d != nil && string(args[1]) == s.st.name {
			for _, f := range args[2:] {
				n += d.hdel(f)
			}
		}
		return int64(n)
	case "del":
		d := s.st.get(s.cur, false)
		n := 0
		if d != nil {
			for _, k := range args[1:] {
				if string(k) == s.st.name && len(d.hash) > 0 {
					d.hash = nil
					n++
				}
			}
		}
		return int64(n)
	case "hset":
		d := s.st.get(s.cur, true)
		if string(args[1]) == s.st.name {
			d.hset(args[2], args[3])
		}
		return int64(1)
	case "set": // a fresh data key
		s.st.get(s.cur, true).others++
		return "OK"
	case "multi", "exec", "ping":
		return "OK"
	}
	return c14err("ERR unknown command")
}

// ------------------------------------------------------------------ loopback RESP server

func c14readCmd(r *bufio.Reader) ([][]byte, error) {
	line, err := r.ReadString('\n')
	if err != nil {
		return nil, err
	}
	if len(line) < 3 || line[0] != '*' {
		return nil, fmt.Errorf("not an array")
	}
	n, err := strconv.Atoi(strings.TrimRight(line[1:], "\r\n"))
	if err != nil {
		return nil, err
	}
	out := make([][]byte, 0, n)
	for i := 0; i < n; i++ {
		l, err := r.ReadString('\n')
		if err != nil {
			return nil, err
		}
		if l[0] != '$' {
			return nil, fmt.Errorf("not a bulk")
		}
		ln, err := strconv.Atoi(strings.TrimRight(l[1:], "\r\n"))
		if err != nil {
			return nil, err
		}
		buf := make([]byte, ln+2)
		if _, err := io.ReadFull(r, buf); err != nil {
			return nil, err
		}
		out = append(out, buf[:ln])
	}
	return out, nil
}

func c14writeReply(w *bufio.Writer, v interface{}) {
	switch x := v.(type) {
	case string:
		fmt.Fprintf(w, "+%s\r\n", x)
	case c14err:
		fmt.Fprintf(w, "-%s\r\n", string(x))
	case int64:
		fmt.Fprintf(w, ":%d\r\n", x)
	case nil:
		w.WriteString("$-1\r\n")
	case []byte:
		fmt.Fprintf(w, "$%d\r\n", len(x))
		w.Write(x)
		w.WriteString("\r\n")
	case []interface{}:
		fmt.Fprintf(w, "*%d\r\n", len(x))
		for _, e := range x {
			c14writeReply(w, e)
		}
	}
}

var c14ln net.Listener
var c14lnOnce sync.Once

func c14listener() net.Listener {
	c14lnOnce.Do(func() {
		ln, err := net.Listen("tcp", "127.0.0.1:0")
		if err != nil {
			panic(err)
		}
		c14ln = ln
	})
	return c14ln
}

var c14loads int

// c14load runs the real LoadCheckpoint against a fake target serving `sess`.
func c14load(addr string, sess *c14sess) string {
	ln := c14listener()
	var mu sync.Mutex
	var conn net.Conn
	served := make(chan struct{})
	go func() {
		defer close(served)
		c, err := ln.Accept()
		if err != nil {
			return
		}
		mu.Lock()
		conn = c
		mu.Unlock()
		r := bufio.NewReader(c)
		w := bufio.NewWriter(c)
		for {
			args, err := c14readCmd(r)
			if err != nil {
				return
			}
			c14writeReply(w, sess.exec(args))
			w.Flush()
		}
	}()
	type res struct {
		runid string
		off   int64
		db    int
		err   error
		pan   bool
	}
	done := make(chan res, 1)
	go func() {
		var r res
		defer func() {
			if e := recover(); e != nil {
				r.pan = true
			}
			done <- r
		}()
		r.runid, r.off, r.db, r.err = checkpoint.LoadCheckpoint(0, addr, []string{ln.Addr().String()}, "auth", "",
			sess.st.name, false, false)
	}()
	var out string
	select {
	case r := <-done:
		switch {
		case r.pan:
			out = "panic"
		case r.err != nil:
			out = "err"
		default:
			out = fmt.Sprintf("ok:%s:%d:%d", hx([]byte(r.runid)), r.off, r.db)
		}
	case <-time.After(10 * time.Second):
		out = "timeout"
	}
	// LoadCheckpoint never closes its connection: close our end and let the GC collect theirs
	mu.Lock()
	if conn != nil {
		conn.Close()
	}
	mu.Unlock()
	select {
	case <-served:
	case <-time.After(2 * time.Second):
	}
	c14loads++
	if c14loads%256 == 0 {
		runtime.GC()
	}
	return out
}

// ------------------------------------------------------------------ in-memory fake redigo.Conn

type c14conn struct {
	sess    *c14sess
	queued  [][][]byte
	flushed chan int
}

func c14render(a interface{}) []byte {
	switch x := a.(type) {
	case string:
		return []byte(x)
	case []byte:
		return x
	case int:
		return []byte(strconv.FormatInt(int64(x), 10))
	case int64:
		return []byte(strconv.FormatInt(x, 10))
	case int32:
		return []byte(strconv.FormatInt(int64(x), 10))
	case nil:
		return []byte{}
	}
	return []byte(fmt.Sprint(a))
}

func c14args(cmd string, args []interface{}) [][]byte {
	out := [][]byte{[]byte(cmd)}
	for _, a := range args {
		out = append(out, c14render(a))
	}
	return out
}

func (c *c14conn) Close() error { return nil }
func (c *c14conn) Err() error   { return nil }
func (c *c14conn) Do(cmd string, args ...interface{}) (interface{}, error) {
	r := c.sess.exec(c14args(cmd, args))
	if e, ok := r.(c14err); ok {
		return nil, fmt.Errorf("%s", string(e))
	}
	return r, nil
}
func (c *c14conn) Send(cmd string, args ...interface{}) error {
	c.queued = append(c.queued, c14args(cmd, args))
	return nil
}

// Flush applies the queued group at once (MULTI … EXEC is atomic in MiniRedis; a group without MULTI is a lone ping).
func (c *c14conn) Flush() error {
	n := len(c.queued)
	for _, q := range c.queued {
		c.sess.exec(q)
	}
	c.queued = nil
	if c.flushed != nil {
		c.flushed <- n
	}
	return nil
}
func (c *c14conn) Receive() (interface{}, error) { return "OK", nil }

// ------------------------------------------------------------------ runner

func runC14(f []string) string {
	switch f[0] {
	case "ks":
		var res string
		func() {
			defer func() {
				if e := recover(); e != nil {
					res = "panic"
				}
			}()
			mp, err := utils.ParseKeyspace(unhx(f[1]))
			if err != nil {
				res = "err"
				return
			}
			var ks []int
			for k := range mp {
				ks = append(ks, int(k))
			}
			sort.Ints(ks)
			var ss []string
			for _, k := range ks {
				ss = append(ss, strconv.Itoa(k))
			}
			res = "ok:" + strings.Join(ss, ",")
		}()
		return res
	case "fetch":
		st := &c14state{name: utils.CheckpointKey, dbs: []*c14db{{id: 0, hash: c14parseHash(f[2])}}}
		c := &c14conn{sess: &c14sess{st: st}}
		runid, off, ver, err := checkpoint.VerifC14Fetch(string(unhx(f[1])), c, 0, utils.CheckpointKey)
		if err != nil {
			return "err"
		}
		return fmt.Sprintf("ok:%s:%d:%d", hx([]byte(runid)), off, ver)
	case "load":
		st := c14parseState(f[4], utils.CheckpointKey)
		sess := &c14sess{st: st, ks: unhx(f[2])}
		switch {
		case strings.HasPrefix(f[5], "cs"):
			sess.failSel = c14scanCommands(st)/2 + atoi(f[5][2:])
		case strings.HasPrefix(f[5], "ch"):
			sess.failHdel = atoi(f[5][2:])
		default:
			sess.failAt = atoi(f[5])
		}
		ret := c14load(string(unhx(f[1])), sess)
		return "ret=" + ret + " st=" + st.String()
	case "writer":
		return c14writer(f)
	}
	return "badcase"
}

var c14senderId = 0

func c14writer(f []string) string {
	addr, runid := string(unhx(f[1])), string(unhx(f[2]))
	st := c14parseState(f[3], utils.CheckpointKey)
	sess := &c14sess{st: st}
	c := &c14conn{sess: sess, flushed: make(chan int, 16)}
	conf.Options.SenderSize = 1 << 40
	conf.Options.SenderCount = 1 << 30
	push := dbSync.VerifC14StartSender(0, addr, runid, utils.CheckpointKey, c)
	cur := 0 // a fresh target connection is in db 0
	key := 0
	for _, g := range strings.Split(f[4], ",") {
		p := strings.Split(g, ":")
		db, off, n := atoi(p[0]), int64(atoi(p[1])), atoi(p[2])
		var cmds []dbSync.VerifC14Cmd
		if db != cur {
			cmds = append(cmds, dbSync.VerifC14Cmd{Cmd: "select", Args: [][]byte{[]byte(strconv.Itoa(db))}, Offset: off - int64(n), Db: db})
			cur = db
		}
		for i := 0; i < n; i++ {
			key++
			cmds = append(cmds, dbSync.VerifC14Cmd{Cmd: "set", Args: [][]byte{[]byte(fmt.Sprintf("k%d", key)), []byte("v")},
				Offset: off - int64(n-1-i), Db: db})
		}
		// the group is flushed as soon as its last command is cached
		conf.Options.SenderCount = uint(len(cmds))
		for _, x := range cmds {
			push(x)
		}
		got := 0
		for got == 0 {
			select {
			case k := <-c.flushed:
				got += k
			case <-time.After(10 * time.Second):
				return "sender-timeout"
			}
		}
		conf.Options.SenderCount = 1 << 30
	}
	sent := st.canon()
	sess2 := &c14sess{st: st, ks: c14info(st)}
	ret := c14load(addr, sess2)
	return "sent=" + sent + " ret=" + ret
}

// c14info renders INFO keyspace of the fake target (the generator's rendering; the Lean side checks it
// against its own MiniRedis rendering on every well-formed case).
func c14info(st *c14state) []byte {
	var b strings.Builder
	b.WriteString("# Keyspace\r\n")
	for _, d := range st.dbs {
		n := d.others
		if len(d.hash) > 0 {
			n++
		}
		if n > 0 {
			fmt.Fprintf(&b, "db%d:keys=%d,expires=0,avg_ttl=0\r\n", d.id, n)
		}
	}
	return []byte(b.String())
}

// ------------------------------------------------------------------ generator

var c14bases = []string{"10.0.0.1:6379", "127.0.0.1:7000", "redis-a.example.com:6379", "r:1", "[::1]:6379"}

// addresses related to `a`: extensions, truncations, ones containing the three words
func c14related(g *gen, a string) string {
	switch g.r.Intn(12) {
	case 0:
		return a + strconv.Itoa(g.r.Intn(10)) // 6379 -> 63790
	case 1:
		if len(a) > 1 {
			return a[:len(a)-1] // 6379 -> 637
		}
		return a + "x"
	case 2:
		return a + "-" + utils.CheckpointOffset
	case 3:
		return a + "-" + utils.CheckpointRunId
	case 4:
		return "x" + a
	case 5:
		return utils.CheckpointOffset + "." + a
	case 6:
		return "my" + utils.CheckpointVersion + a
	case 7:
		return utils.CheckpointRunId + "-host:1"
	case 8:
		return strings.ToUpper(a)
	case 9:
		return a + "-"
	default:
		return c14bases[g.r.Intn(len(c14bases))]
	}
}

func c14own(g *gen) string {
	a := c14bases[g.r.Intn(len(c14bases))]
	switch g.r.Intn(10) {
	case 0:
		return utils.CheckpointOffset + "." + a // an address containing a keyword
	case 1:
		return "my" + utils.CheckpointRunId + ".host:99"
	case 2:
		return a + "0"
	}
	return a
}

var c14oddOffsets = []string{"-1", "0", "-5", "+7", "007", "9223372036854775807", "9223372036854775808", "-9223372036854775808",
	"-9223372036854775809", "", " 5", "5 ", "12a", "1_0", "0x10", "1e3", "+", "-", "99999999999999999999999"}

func c14offset(g *gen, tie *[]string) string {
	switch x := g.r.Intn(20); {
	case x == 0:
		return c14oddOffsets[g.r.Intn(len(c14oddOffsets))]
	case x <= 2 && len(*tie) > 0:
		return (*tie)[g.r.Intn(len(*tie))] // equal offsets in two dbs
	case x <= 4:
		return strconv.Itoa(g.r.Intn(4))
	}
	v := strconv.FormatInt(g.r.Int63n(1000000), 10)
	*tie = append(*tie, v)
	return v
}

func c14runid(g *gen) string {
	switch g.r.Intn(25) {
	case 0:
		return "?"
	case 1:
		return ""
	}
	const hexd = "0123456789abcdef"
	b := make([]byte, 1+g.r.Intn(8))
	for i := range b {
		b[i] = hexd[g.r.Intn(16)]
	}
	return string(b)
}

func c14version(g *gen) string {
	switch x := g.r.Intn(30); {
	case x == 0:
		return "0"
	case x == 1:
		return "-1"
	case x == 2:
		return "2"
	case x == 3:
		return []string{"x", "", "1.0", "+1", "01", "9223372036854775808"}[g.r.Intn(6)]
	}
	return strconv.Itoa(utils.FcvCheckpoint.CurrentVersion)
}

// c14fields: the fields one source leaves in one db: full checkpoint, partial ones, odd neighbours
func c14fields(g *gen, a string, own bool, tie *[]string) []c14pair {
	var out []c14pair
	add := func(suffix, v string) { out = append(out, c14pair{[]byte(a + "-" + suffix), []byte(v)}) }
	mask := 7
	if g.r.Intn(3) == 0 {
		mask = g.r.Intn(8) // partial: any subset of runid / version / offset
	}
	if !own && g.r.Intn(2) == 0 {
		mask |= 4
	}
	if mask&1 != 0 {
		add(utils.CheckpointRunId, c14runid(g))
	}
	if mask&2 != 0 {
		add(utils.CheckpointVersion, c14version(g))
	}
	if mask&4 != 0 {
		add(utils.CheckpointOffset, c14offset(g, tie))
	}
	if g.r.Intn(12) == 0 { // near-miss field names
		switch g.r.Intn(5) {
		case 0:
			out = append(out, c14pair{[]byte(a), []byte("1")})
		case 1:
			out = append(out, c14pair{[]byte(a + "-" + utils.CheckpointOffset + "2"), []byte(strconv.Itoa(g.r.Intn(1 << 30)))})
		case 2:
			out = append(out, c14pair{[]byte(a + "_" + utils.CheckpointOffset), []byte(strconv.Itoa(g.r.Intn(1 << 30)))})
		case 3:
			out = append(out, c14pair{[]byte(a + "-" + strings.ToUpper(utils.CheckpointOffset)), []byte("77")})
		case 4:
			out = append(out, c14pair{[]byte("meaningless"), []byte("123")})
		}
	}
	return out
}

func c14dedupe(ps []c14pair) []c14pair {
	seen := map[string]bool{}
	var out []c14pair
	for _, p := range ps {
		if !seen[string(p.f)] {
			seen[string(p.f)] = true
			out = append(out, p)
		}
	}
	return out
}

func c14hashStr(ps []c14pair) string {
	if len(ps) == 0 {
		return "-"
	}
	var s []string
	for _, p := range ps {
		s = append(s, hx(p.f)+"="+hx(p.v))
	}
	return strings.Join(s, ",")
}

// c14genState: a target holding checkpoints of `own` and of related sources, data, partial and cleared ones
func c14genState(g *gen, own string, maxDbs int) *c14state {
	st := &c14state{name: utils.CheckpointKey}
	ndb := g.r.Intn(maxDbs + 1)
	ids := g.r.Perm(16)
	if ndb > 16 {
		ids = g.r.Perm(64)
	}
	ids = ids[:ndb]
	sort.Ints(ids)
	nOthers := g.r.Intn(3)
	var othersA []string
	for i := 0; i < nOthers; i++ {
		othersA = append(othersA, c14related(g, own))
	}
	var tie []string
	for _, id := range ids {
		d := &c14db{id: id}
		if g.r.Intn(4) != 0 {
			d.others = g.r.Intn(4)
		}
		var ps []c14pair
		if g.r.Intn(10) < 7 {
			ps = append(ps, c14fields(g, own, true, &tie)...)
		}
		for _, o := range othersA {
			if g.r.Intn(2) == 0 {
				ps = append(ps, c14fields(g, o, false, &tie)...)
			}
		}
		g.r.Shuffle(len(ps), func(i, j int) { ps[i], ps[j] = ps[j], ps[i] })
		d.hash = c14dedupe(ps)
		st.dbs = append(st.dbs, d)
	}
	return st
}

var c14badKs = []string{
	"", "# keyspace\r\n", "#Keyspace\r\n", "# Keyspace", "# Keyspace\r\ndb0\r\n", "# Keyspace\r\ndb\r\n", "# Keyspace\r\ndb:keys=1\r\n",
	"# Keyspace\r\ndbx:keys=1\r\n", "# Keyspace\r\ndb1:kez=1\r\n", "# Keyspace\r\ndb1:keys=\r\n", "# Keyspace\r\ndb1:keys=a,expires=0\r\n",
	"# Keyspace\r\n  db2:keys=1,expires=0,avg_ttl=0  \r\n", "# Keyspace\ndb3:keys=1\n\ndb1:keys=5\n", "# Keyspace\r\ndb+3:keys=2\r\n",
	"# Keyspace\r\ndb-1:keys=1\r\n", "# Keyspace\r\ndb4294967296:keys=1\r\n", "# Keyspace\r\ndb2147483648:keys=1\r\n",
	"# Keyspace\r\ndb9223372036854775808:keys=1\r\n", "# Keyspace\r\ndb1:keys=1\r\ndb1:keys=2\r\ndb01:keys=3\r\n",
	"# Keyspace\r\ndb1:keys=9223372036854775808\r\n", "# Keyspace\r\nDB1:keys=1\r\n", "# Keyspace\r\ndb1:keys=1:x\r\n",
	"# Keyspace\r\ndb1 :keys=1\r\n", "# Keyspace\r\ndb1: keys=1\r\n", "# Keyspace\r\n\tdb7:keys=1\v\f\r\n", "# Keyspace\r\ndb1:keys=-1\r\n",
	"# Keyspace\r\ndb5:keys=1,expires=0\r\ngarbage\r\ndb0:keys=+0\r\n", "# Keyspace\r\ndb1:\r\n", "# Keyspace\r\ndb1::keys=1\r\n",
}

// c14mutKs: a structured mutation of a well-formed INFO text (ASCII only)
func c14mutKs(g *gen, ks []byte) []byte {
	b := append([]byte{}, ks...)
	const alphabet = "db:keys=,0123456789 \r\n\t#+-xK_"
	for k := 1 + g.r.Intn(3); k > 0; k-- {
		if len(b) == 0 {
			b = append(b, alphabet[g.r.Intn(len(alphabet))])
			continue
		}
		p := g.r.Intn(len(b))
		switch g.r.Intn(4) {
		case 0:
			b[p] = alphabet[g.r.Intn(len(alphabet))]
		case 1:
			b = append(b[:p:p], b[p+1:]...)
		case 2:
			b = append(b[:p:p], append([]byte{alphabet[g.r.Intn(len(alphabet))]}, b[p:]...)...)
		case 3:
			b = b[:p]
		}
	}
	return b
}

// c14scanCommands: a lower bound of the number of commands of the scan phase that holds for any implementation:
// `info`, then at least a `select` and one read per listed db
func c14scanCommands(st *c14state) int {
	n := 1
	for _, d := range st.dbs {
		if d.others > 0 || len(d.hash) > 0 {
			n += 2
		}
	}
	return n
}

func genC14(g *gen) {
	// ---- INFO keyspace parsing alone
	for _, s := range c14badKs {
		g.emit("ks %s", hx([]byte(s)))
	}
	nk := g.pick(1500, 30000)
	for i := 0; i < nk; i++ {
		st := c14genState(g, c14own(g), 6)
		ks := c14info(st)
		if i%3 != 0 {
			ks = c14mutKs(g, ks)
		}
		g.emit("ks %s", hx(ks))
	}
	// ---- one HGETALL reply
	nf := g.pick(3000, 60000)
	for i := 0; i < nf; i++ {
		own := c14own(g)
		var tie []string
		var ps []c14pair
		if g.r.Intn(10) < 8 {
			ps = append(ps, c14fields(g, own, true, &tie)...)
		}
		for k := g.r.Intn(3); k > 0; k-- {
			ps = append(ps, c14fields(g, c14related(g, own), false, &tie)...)
		}
		g.r.Shuffle(len(ps), func(i, j int) { ps[i], ps[j] = ps[j], ps[i] })
		if g.r.Intn(20) != 0 {
			ps = c14dedupe(ps) // a real hash has distinct fields; the loop is still modelled for repeated ones
		}
		g.emit("fetch %s %s", hx([]byte(own)), c14hashStr(ps))
	}
	// ---- whole loads
	nl := g.pick(1200, 20000)
	for i := 0; i < nl; i++ {
		own := c14own(g)
		maxDbs := 5
		if i%15 == 0 {
			maxDbs = 40 // many dbs
		}
		st := c14genState(g, own, maxDbs)
		ks := c14info(st)
		wf, failAt := 1, 0
		switch g.r.Intn(12) {
		case 0:
			wf = 0
			if g.r.Intn(2) == 0 {
				ks = []byte(c14badKs[g.r.Intn(len(c14badKs))])
			} else {
				ks = c14mutKs(g, ks)
			}
		case 1:
			failAt = 1 + g.r.Intn(c14scanCommands(st))
		}
		g.emit("load %s %s %d %s %d", hx([]byte(own)), hx(ks), wf, st.String(), failAt)
		// the target refuses one command while the stale checkpoints are being cleared: the load still returns the newest
		// checkpoint, and no db has lost anything but the own run id / offset of a stale checkpoint
		if wf == 1 && failAt == 0 && maxDbs <= 5 && i%4 == 0 {
			g.emit("load %s %s %d %s %s%d", hx([]byte(own)), hx(ks), wf, st.String(), []string{"cs", "ch"}[g.r.Intn(2)], 1+g.r.Intn(4))
		}
	}
	// ---- sender → loader
	nw := g.pick(8, 60)
	for i := 0; i < nw; i++ {
		own := c14own(g)
		st := c14genStateBelow(g, own, 1000)
		off := int64(1000 + g.r.Intn(1000))
		var groups []string
		for k := 1 + g.r.Intn(4); k > 0; k-- {
			n := 1 + g.r.Intn(3)
			off += int64(n*20 + g.r.Intn(50))
			groups = append(groups, fmt.Sprintf("%d:%d:%d", g.r.Intn(4), off, n))
		}
		runid := c14runid(g)
		for runid == "?" {
			runid = c14runid(g)
		}
		g.emit("writer %s %s %s %s", hx([]byte(own)), hx([]byte(runid)), st.String(), strings.Join(groups, ","))
	}
}

// c14genStateBelow: a target whose checkpoints of `own` (left by earlier sessions) all have offsets below `bound`
// and parse, plus other sources' checkpoints with arbitrary offsets
func c14genStateBelow(g *gen, own string, bound int) *c14state {
	st := &c14state{name: utils.CheckpointKey}
	var tie []string
	for _, id := range []int{0, 1, 2, 3, 5} {
		if g.r.Intn(2) == 0 {
			continue
		}
		d := &c14db{id: id, others: g.r.Intn(3)}
		var ps []c14pair
		if g.r.Intn(2) == 0 {
			ps = append(ps, c14pair{[]byte(own + "-" + utils.CheckpointRunId), []byte(c14runid(g))})
			ps = append(ps, c14pair{[]byte(own + "-" + utils.CheckpointVersion), []byte("1")})
			ps = append(ps, c14pair{[]byte(own + "-" + utils.CheckpointOffset), []byte(strconv.Itoa(g.r.Intn(bound)))})
		}
		if g.r.Intn(2) == 0 {
			other := c14related(g, own) + "9"
			if other == own { // "x:99"[:len-1]+"9": must be a DIFFERENT source, its offsets are arbitrary
				other += "x"
			}
			ps = append(ps, c14fields(g, other, false, &tie)...)
		}
		d.hash = c14dedupe(ps)
		st.dbs = append(st.dbs, d)
	}
	return st
}
