package main

// C02: runner of the real utils.RestoreRdbEntry against a fake redigo.Conn backed by a small MiniRedis,
// and the case generator (abstract values -> DUMP payloads through an own serializer).
//
// case line:   r <cfg tokens> pre=<bindings> | <entry tokens> [| <entry tokens> ...]
//   cfg:   pol=n|r|i rep=0|1 thr=N ver=<hex|-> shift=<ns> tag=0|1 uc=0|1 flua=0|1 rej=<hex of type codes|-> busyold=0|1 badtrailer=0|1
//   pre:   -  or  key/V/ttl;key/V/ttl...      (ttl = ms from the server clock, or none)
//   entry: gap=<ms> type=N key=<hex> val=<hex> exp=<off ms relative to the shifted tool clock|none> idle=N freq=N nrl=N rmc=N load=<V|none>
//   V:     s:<hex> | l:<hex>,.. | S:<hex>,.. | h:<hex>=<hex>,.. | z:<hex>=<16 hex digits>,.. | o:<hex>
// result line: R=<ok|error|abort|hang>[,..] T=<cmd;cmd;..>[/..] F=<flush sizes>[/..] KS=<key=V@ttl;..> S=<hex,..>

import (
	"bytes"
	"fmt"
	"io/ioutil"
	"math"
	"sort"
	"strconv"
	"strings"
	"time"

	"github.com/alibaba/RedisShake/pkg/libs/log"
	"github.com/alibaba/RedisShake/pkg/rdb"
	utils "github.com/alibaba/RedisShake/redis-shake/common"
	conf "github.com/alibaba/RedisShake/redis-shake/configure"
	redigo "github.com/garyburd/redigo/redis"
)

func init() {
	props["C02"] = &prop{gen: genC02, run: runC02, init: func() { log.StdLog = log.New(ioutil.Discard, "") }}
}

// ---------------------------------------------------------------- MiniRedis (one database)

type c02val struct {
	kind   byte // 's' 'l' 'S' 'h' 'z' 'o'
	str    []byte
	items  [][]byte    // list / set members
	fields [][2][]byte // hash
	zs     []c02zmem
}
type c02zmem struct {
	m    []byte
	bits uint64
}
type c02bind struct {
	v   *c02val
	exp int64 // absolute ms on the server clock; 0 = none
}

type c02redis struct {
	now     int64
	ks      map[string]*c02bind
	scripts [][]byte
	rej     map[byte]bool
	busyOld bool
	// the payload of the entry being restored and what it holds (nil: the target cannot load it)
	payload []byte
	load    *c02val
}

func (m *c02redis) advance(now int64) {
	m.now = now
	for k, b := range m.ks {
		if b.exp != 0 && b.exp <= now {
			delete(m.ks, k)
		}
	}
}

func c02cloneVal(v *c02val) *c02val {
	c := &c02val{kind: v.kind, str: v.str}
	c.items = append([][]byte{}, v.items...)
	c.fields = append([][2][]byte{}, v.fields...)
	c.zs = append([]c02zmem{}, v.zs...)
	return c
}

const (
	c02msgBusy     = "BUSYKEY Target key name already exists."
	c02msgBusyOld  = "ERR Target key name is busy."
	c02msgBadData  = "ERR Bad data format"
	c02msgBadDump  = "ERR DUMP payload version or checksum are wrong"
	c02msgWrong    = "WRONGTYPE Operation against a key holding the wrong kind of value"
	c02msgNotFloat = "ERR value is not a valid float"
)

func c02trailerOK(d []byte) bool {
	if len(d) < 10 {
		return false
	}
	ver := uint(d[len(d)-9])<<8 | uint(d[len(d)-10])
	if ver > 9 {
		return false
	}
	var sum uint64
	for k := 0; k < 8; k++ {
		sum |= uint64(d[len(d)-8+k]) << (8 * uint(k))
	}
	return sum == crc64bitwise(0, d[:len(d)-8])
}

func (m *c02redis) exec(args [][]byte) interface{} {
	name := strings.ToLower(string(args[0]))
	get := func(k []byte) *c02bind { return m.ks[string(k)] }
	elem := func(kind byte, apply func(v *c02val) int64) interface{} {
		k := args[1]
		b := get(k)
		if b == nil {
			b = &c02bind{v: &c02val{kind: kind}}
			m.ks[string(k)] = b
		} else if b.v.kind != kind {
			return redigo.Error(c02msgWrong)
		}
		return apply(b.v)
	}
	switch name {
	case "restore":
		k, payload := args[1], args[3]
		ttl, _ := strconv.ParseInt(string(args[2]), 10, 64)
		replace := false
		for _, a := range args[4:] {
			if strings.ToUpper(string(a)) == "REPLACE" {
				replace = true
			}
		}
		if !replace && get(k) != nil {
			if m.busyOld {
				return redigo.Error(c02msgBusyOld)
			}
			return redigo.Error(c02msgBusy)
		}
		if !c02trailerOK(payload) {
			return redigo.Error(c02msgBadDump)
		}
		if m.rej[payload[0]] || m.load == nil || !bytes.Equal(payload, m.payload) {
			return redigo.Error(c02msgBadData)
		}
		b := &c02bind{v: c02cloneVal(m.load)}
		if ttl != 0 {
			b.exp = m.now + ttl
		}
		m.ks[string(k)] = b
		return "OK"
	case "del":
		if get(args[1]) != nil {
			delete(m.ks, string(args[1]))
			return int64(1)
		}
		return int64(0)
	case "exists":
		if get(args[1]) != nil {
			return int64(1)
		}
		return int64(0)
	case "rpush":
		return elem('l', func(v *c02val) int64 { v.items = append(v.items, args[2]); return int64(len(v.items)) })
	case "sadd":
		return elem('S', func(v *c02val) int64 {
			for _, x := range v.items {
				if bytes.Equal(x, args[2]) {
					return 0
				}
			}
			v.items = append(v.items, args[2])
			return 1
		})
	case "hset":
		return elem('h', func(v *c02val) int64 {
			for i := range v.fields {
				if bytes.Equal(v.fields[i][0], args[2]) {
					v.fields[i][1] = args[3]
					return 0
				}
			}
			v.fields = append(v.fields, [2][]byte{args[2], args[3]})
			return 1
		})
	case "zadd":
		f, err := strconv.ParseFloat(string(args[2]), 64)
		if err != nil || math.IsNaN(f) {
			return redigo.Error(c02msgNotFloat)
		}
		return elem('z', func(v *c02val) int64 {
			for i := range v.zs {
				if bytes.Equal(v.zs[i].m, args[3]) {
					v.zs[i].bits = math.Float64bits(f)
					return 0
				}
			}
			v.zs = append(v.zs, c02zmem{args[3], math.Float64bits(f)})
			return 1
		})
	case "set":
		m.ks[string(args[1])] = &c02bind{v: &c02val{kind: 's', str: args[2]}}
		return "OK"
	case "pexpire":
		b := get(args[1])
		if b == nil {
			return int64(0)
		}
		ms, _ := strconv.ParseInt(string(args[2]), 10, 64)
		if ms <= 0 {
			delete(m.ks, string(args[1]))
		} else {
			b.exp = m.now + ms
		}
		return int64(1)
	case "script":
		for _, s := range m.scripts {
			if bytes.Equal(s, args[2]) {
				return []byte{}
			}
		}
		m.scripts = append(m.scripts, args[2])
		return []byte{}
	}
	return redigo.Error("ERR unknown command '" + name + "'")
}

// ---------------------------------------------------------------- fake redigo.Conn

type c02conn struct {
	mr    *c02redis
	out   [][][]byte
	in    []interface{}
	trace []string
	flog  []string // number of commands written out by each Flush
	hang  bool
	// ttl canonicalisation: the tool reads the wall clock, the case fixes the offset
	expOff int64
	hasExp bool
	t0     time.Time
}

func c02renderArg(a interface{}) []byte {
	switch a := a.(type) {
	case string:
		return []byte(a)
	case []byte:
		return a
	case int:
		return []byte(strconv.Itoa(a))
	case int64:
		return []byte(strconv.FormatInt(a, 10))
	case float64:
		return []byte(strconv.FormatFloat(a, 'g', -1, 64))
	case bool:
		if a {
			return []byte("1")
		}
		return []byte("0")
	case nil:
		return []byte{}
	}
	var b bytes.Buffer
	fmt.Fprint(&b, a)
	return b.Bytes()
}

func c02showArg(b []byte) string {
	if len(b) <= 40 {
		return hx(b)
	}
	return fmt.Sprintf("%d:%016x", len(b), crc64bitwise(1, b))
}

func (c *c02conn) canon(ttl []byte) []byte {
	v, err := strconv.ParseInt(string(ttl), 10, 64)
	if err != nil || !c.hasExp || c.expOff < 1 {
		return ttl
	}
	elapsed := int64(time.Since(c.t0)/time.Millisecond) + 1
	if v <= c.expOff && v+elapsed >= c.expOff {
		return []byte(strconv.FormatInt(c.expOff, 10))
	}
	return ttl
}

func (c *c02conn) Send(cmd string, args ...interface{}) error {
	line := [][]byte{[]byte(strings.ToLower(cmd))}
	for _, a := range args {
		line = append(line, append([]byte{}, c02renderArg(a)...))
	}
	switch string(line[0]) {
	case "restore", "pexpire":
		if len(line) > 2 {
			line[2] = c.canon(line[2])
		}
	}
	parts := []string{string(line[0])}
	for _, a := range line[1:] {
		parts = append(parts, c02showArg(a))
	}
	c.trace = append(c.trace, strings.Join(parts, ","))
	c.out = append(c.out, line)
	return nil
}

func (c *c02conn) Flush() error {
	c.flog = append(c.flog, strconv.Itoa(len(c.out)))
	for _, l := range c.out {
		c.in = append(c.in, c.mr.exec(l))
	}
	c.out = nil
	return nil
}

func (c *c02conn) Receive() (interface{}, error) {
	if len(c.in) == 0 {
		c.hang = true
		return nil, fmt.Errorf("verif: Receive with nothing outstanding")
	}
	r := c.in[0]
	c.in = c.in[1:]
	if e, ok := r.(redigo.Error); ok {
		return nil, e
	}
	return r, nil
}

func (c *c02conn) Do(cmd string, args ...interface{}) (interface{}, error) {
	if cmd != "" {
		c.Send(cmd, args...)
	}
	c.Flush()
	if len(c.in) == 0 {
		return nil, nil
	}
	var reply interface{}
	var err error
	for _, r := range c.in {
		reply = r
		if e, ok := r.(redigo.Error); ok && err == nil {
			err = e
		}
	}
	c.in = nil
	return reply, err
}

func (c *c02conn) Close() error { return nil }
func (c *c02conn) Err() error   { return nil }

// ---------------------------------------------------------------- abstract values

func c02splitNE(s, sep string) []string {
	if s == "" {
		return nil
	}
	return strings.Split(s, sep)
}

func c02parseVal(s string) *c02val {
	if s == "none" {
		return nil
	}
	v := &c02val{kind: s[0]}
	body := s[2:]
	switch s[0] {
	case 's', 'o':
		v.str = unhx(body)
	case 'l', 'S':
		for _, x := range c02splitNE(body, ",") {
			v.items = append(v.items, unhx(x))
		}
	case 'h':
		for _, x := range c02splitNE(body, ",") {
			p := strings.SplitN(x, "=", 2)
			v.fields = append(v.fields, [2][]byte{unhx(p[0]), unhx(p[1])})
		}
	case 'z':
		for _, x := range c02splitNE(body, ",") {
			p := strings.SplitN(x, "=", 2)
			bits, _ := strconv.ParseUint(p[1], 16, 64)
			v.zs = append(v.zs, c02zmem{unhx(p[0]), bits})
		}
	}
	return v
}

func c02showVal(v *c02val) string {
	var parts []string
	switch v.kind {
	case 's', 'o':
		return string(v.kind) + ":" + c02showArg(v.str)
	case 'l', 'S':
		for _, x := range v.items {
			parts = append(parts, hx(x))
		}
	case 'h':
		for _, x := range v.fields {
			parts = append(parts, hx(x[0])+"="+hx(x[1]))
		}
	case 'z':
		for _, x := range v.zs {
			parts = append(parts, fmt.Sprintf("%s=%016x", hx(x.m), x.bits))
		}
	}
	return string(v.kind) + ":" + strings.Join(parts, ",")
}

// ---------------------------------------------------------------- runner

func c02kv(tok string) (string, string) {
	i := strings.IndexByte(tok, '=')
	return tok[:i], tok[i+1:]
}

const c02srvT0 = int64(1000000)

func runC02(f []string) string {
	if f[0] == "zl" { // zl <ziplist hex>: pkg/rdb's ReadZiplistLength, then that many ReadZiplistEntry (the element-wise route's reader)
		rd := rdb.NewRdbReader(bytes.NewReader(nil))
		buf := rdb.NewSliceBuffer(unhx(f[1]))
		n, err := rd.ReadZiplistLength(buf)
		if err != nil {
			return "zl=err"
		}
		h := uint64(0xcbf29ce484222325)
		for i := int64(0); i < n; i++ {
			e, err := rd.ReadZiplistEntry(buf)
			if err != nil {
				return fmt.Sprintf("zl=%d short=%d", n, i)
			}
			for _, b := range e { // (e aliases the buffer: no append)
				h = (h ^ uint64(b)) * 0x100000001b3
			}
			h = (h ^ 0xff) * 0x100000001b3
		}
		return fmt.Sprintf("zl=%d fp=%016x", n, h)
	}
	if len(f) < 3 {
		return "badcase"
	}
	if f[0] == "cmpver" { // cmpver <a hex> <b hex> <level>
		return fmt.Sprintf("%d", utils.CompareVersion(string(unhx(f[1])), string(unhx(f[2])), atoi(f[3])))
	}
	if f[0] != "r" {
		return "badcase"
	}
	// split cfg / entries
	var groups [][]string
	cur := []string{}
	for _, t := range f[1:] {
		if t == "|" {
			groups = append(groups, cur)
			cur = []string{}
		} else {
			cur = append(cur, t)
		}
	}
	groups = append(groups, cur)
	cfg := map[string]string{}
	for _, t := range groups[0] {
		k, v := c02kv(t)
		cfg[k] = v
	}
	mr := &c02redis{now: c02srvT0, ks: map[string]*c02bind{}, rej: map[byte]bool{}, busyOld: cfg["busyold"] == "1"}
	for _, b := range unhx(cfg["rej"]) {
		mr.rej[b] = true
	}
	if cfg["pre"] != "-" {
		for _, p := range strings.Split(cfg["pre"], ";") {
			q := strings.SplitN(p, "/", 3)
			b := &c02bind{v: c02parseVal(q[1])}
			if q[2] != "none" {
				b.exp = c02srvT0 + int64(atoi(q[2]))
			}
			mr.ks[string(unhx(q[0]))] = b
		}
	}
	shift := time.Duration(int64(atoi(cfg["shift"])))
	conf.Options.KeyExists = map[string]string{"n": "none", "r": "rewrite", "i": "ignore"}[cfg["pol"]]
	conf.Options.TargetReplace = cfg["rep"] == "1"
	conf.Options.BigKeyThreshold = uint64(atoi(cfg["thr"]))
	conf.Options.TargetVersion = string(unhx(cfg["ver"]))
	conf.Options.ShiftTime = shift
	conf.Options.ReplaceHashTag = cfg["tag"] == "1"
	conf.Options.SourceRdbSpecialCloud = ""
	if cfg["uc"] == "1" {
		conf.Options.SourceRdbSpecialCloud = utils.UCloudCluster
	}
	conf.Options.FilterLua = cfg["flua"] == "1"
	conf.Options.Metric = true

	var results, traces, flushes []string
	for _, g := range groups[1:] {
		ent := map[string]string{}
		for _, t := range g {
			k, v := c02kv(t)
			ent[k] = v
		}
		mr.advance(mr.now + int64(atoi(ent["gap"])))
		c := &c02conn{mr: mr}
		e := &rdb.BinEntry{
			Key:             unhx(ent["key"]),
			Type:            byte(atoi(ent["type"])),
			Value:           unhx(ent["val"]),
			RealMemberCount: uint32(atoi(ent["rmc"])),
			NeedReadLen:     byte(atoi(ent["nrl"])),
			IdleTime:        uint32(atoi(ent["idle"])),
			Freq:            uint8(atoi(ent["freq"])),
		}
		mr.payload = e.Value
		mr.load = c02parseVal(ent["load"])
		c.t0 = time.Now()
		if ent["exp"] != "none" {
			c.hasExp = true
			c.expOff = int64(atoi(ent["exp"]))
			e.ExpireAt = uint64(int64(uint64(c.t0.Add(shift).UnixNano())/uint64(time.Millisecond)) + c.expOff)
		}
		res := func() (res string) {
			defer func() {
				if r := recover(); r != nil {
					res = "abort"
					if c.hang {
						res = "hang"
					}
				}
			}()
			if err := utils.RestoreRdbEntry(c, e); err != nil {
				return "error"
			}
			return "ok"
		}()
		results = append(results, res)
		traces = append(traces, strings.Join(c.trace, ";"))
		flushes = append(flushes, strings.Join(c.flog, ","))
		if res != "ok" {
			break
		}
	}
	keys := make([]string, 0, len(mr.ks))
	for k := range mr.ks {
		keys = append(keys, k)
	}
	sort.Strings(keys)
	var ks []string
	for _, k := range keys {
		b := mr.ks[k]
		ttl := "none"
		if b.exp != 0 {
			ttl = strconv.FormatInt(b.exp-mr.now, 10)
		}
		ks = append(ks, hx([]byte(k))+"="+c02showVal(b.v)+"@"+ttl)
	}
	var sc []string
	for _, s := range mr.scripts {
		sc = append(sc, c02showArg(s))
	}
	dash := func(s string) string {
		if s == "" {
			return "-"
		}
		return s
	}
	return fmt.Sprintf("R=%s T=%s F=%s KS=%s S=%s", strings.Join(results, ","), dash(strings.Join(traces, "/")), dash(strings.Join(flushes, "/")), dash(strings.Join(ks, ";")), dash(strings.Join(sc, ",")))
}
