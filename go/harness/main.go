// vharness: case generators and drivers of the REAL RedisShake code for the correspondence checks.
//
//	vharness gen <Cxx> <seed> <tier>      writes one case per line to stdout
//	vharness run <Cxx>                    reads cases on stdin, runs the real code, one result line per case
package main

import (
	"sort"
	"bufio"
	"fmt"
	"math/rand"
	"os"
	"strconv"
	"strings"
)

type prop struct {
	gen func(g *gen)
	run func(fields []string) string
	// optional: set up / tear down around a run
	init func()
	// concurrent > 1: the cases are independent and are run by that many goroutines at once (results are
	// still printed in input order). The real tool runs several loaders / digests concurrently, so state
	// shared between supposedly independent instances shows up as a wrong answer here.
	concurrent int
	// exclusive (optional, with concurrent): cases that must run alone (e.g. mutated files whose
	// inflated length fields make the real code allocate gigabytes)
	exclusive func(fields []string) bool
}

var props = map[string]*prop{}

// extra arguments of `gen` after the tier (e.g. "scaled 64")
var extraArgs []string

type gen struct {
	r    *rand.Rand
	tier string
	w    *bufio.Writer
	n    int
}

func (g *gen) emit(format string, a ...interface{}) {
	fmt.Fprintf(g.w, format, a...)
	g.w.WriteByte('\n')
	g.n++
}
func (g *gen) thorough() bool { return g.tier == "thorough" }
func (g *gen) pickInts(q, t []int) []int {
	if g.thorough() {
		return t
	}
	return q
}

func (g *gen) pick(q, t int) int {
	if g.thorough() {
		return t
	}
	if g.tier == "escalated" {
		// the anchored source files differ from the ones the models were written against:
		// look harder (3x the quick budget, never more than the thorough one)
		if q*3 < t {
			return q * 3
		}
		return t
	}
	return q
}
func (g *gen) bytes(n int) []byte {
	b := make([]byte, n)
	g.r.Read(b)
	return b
}

func main() {
	if len(os.Args) == 2 && os.Args[1] == "list" {
		// the properties this binary serves (a file that did not compile against the current source is left out of the
		// build by ./check, together with whatever depends on it)
		var ids []string
		for id := range props {
			ids = append(ids, id)
		}
		sort.Strings(ids)
		fmt.Println(strings.Join(ids, " "))
		return
	}
	if len(os.Args) < 3 {
		fmt.Fprintln(os.Stderr, "usage: vharness gen|run Cxx [seed tier] | vharness list")
		os.Exit(2)
	}
	p, ok := props[os.Args[2]]
	if !ok {
		fmt.Fprintln(os.Stderr, "unknown property", os.Args[2])
		os.Exit(2)
	}
	switch os.Args[1] {
	case "gen":
		seed, _ := strconv.ParseInt(os.Args[3], 10, 64)
		if len(os.Args) > 5 {
			extraArgs = os.Args[5:]
		}
		g := &gen{r: rand.New(rand.NewSource(seed)), tier: os.Args[4], w: bufio.NewWriterSize(os.Stdout, 1<<20)}
		p.gen(g)
		g.w.Flush()
	case "run":
		if ambientHook != nil {
			ambientHook(os.Args[2], "process:"+os.Getenv("VERIF_SEED"), true)
		}
		if p.init != nil {
			p.init()
		}
		in := bufio.NewReaderSize(os.Stdin, 1<<20)
		out := bufio.NewWriterSize(os.Stdout, 1<<16)
		if p.concurrent > 1 {
			runConcurrent(p, in, out)
			return
		}
		for {
			line, err := in.ReadString('\n')
			if len(line) > 0 {
				line = strings.TrimRight(line, "\n")
				out.WriteString(safeRun(p, line))
				out.WriteByte('\n')
				out.Flush()
			}
			if err != nil {
				break
			}
		}
	}
}

func runConcurrent(p *prop, in *bufio.Reader, out *bufio.Writer) {
	var lines []string
	for {
		line, err := in.ReadString('\n')
		if len(line) > 0 {
			lines = append(lines, strings.TrimRight(line, "\n"))
		}
		if err != nil {
			break
		}
	}
	res := make([]string, len(lines))
	next := make(chan int, len(lines))
	var alone []int
	for i := range lines {
		if p.exclusive != nil && p.exclusive(strings.Fields(lines[i])) {
			alone = append(alone, i)
		} else {
			next <- i
		}
	}
	close(next)
	done := make(chan bool)
	for w := 0; w < p.concurrent; w++ {
		go func() {
			for i := range next {
				res[i] = safeRun(p, lines[i])
			}
			done <- true
		}()
	}
	for w := 0; w < p.concurrent; w++ {
		<-done
	}
	// the exclusive cases run one after the other, after the concurrent phase
	for _, i := range alone {
		res[i] = safeRun(p, lines[i])
	}
	for _, r := range res {
		out.WriteString(r)
		out.WriteByte('\n')
	}
	out.Flush()
}

// set by ambient.go (left nil when that file does not compile against the current source)
var ambientHook func(pid, line string, start bool)

func safeRun(p *prop, line string) (res string) {
	if ambientHook != nil {
		ambientHook(os.Args[2], line, false)
	}
	defer func() {
		if e := recover(); e != nil {
			res = "panic"
			if os.Getenv("VERIF_DEBUG") != "" {
				res = fmt.Sprintf("panic %v", e)
			}
		}
	}()
	return p.run(strings.Fields(line))
}

func hx(b []byte) string {
	if len(b) == 0 {
		return "-"
	}
	return fmt.Sprintf("%x", b)
}

func unhx(s string) []byte {
	if s == "-" {
		return nil
	}
	b := make([]byte, len(s)/2)
	for i := range b {
		v, err := strconv.ParseUint(s[2*i:2*i+2], 16, 8)
		if err != nil {
			panic("bad hex")
		}
		b[i] = byte(v)
	}
	return b
}

func atoi(s string) int {
	v, err := strconv.Atoi(s)
	if err != nil {
		panic("bad int " + s)
	}
	return v
}

// crc64Trailer: the 8-byte little-endian CRC-64 of data, computed bit by bit by the harness itself — generators never ask the
// code under test for a checksum
func crc64Trailer(data []byte) []byte {
	v := crc64bitwise(0, data)
	out := make([]byte, 8)
	for k := 0; k < 8; k++ {
		out[k] = byte(v >> (8 * uint(k)))
	}
	return out
}
