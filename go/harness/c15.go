package main

// C15 — key → slot mapping, checkpoint key search, key filter (real code side).
//
//   slot <keyhex>                      KeyToSlot, both crc16 copies, external redis.GetSlot
//   chose <prefixhex> <l> <r>          ChoseSlotInRange + FilterKey of the result under 3 configurations
//   filter <keyhex> <n|b|w> <p1,p2,..> FilterKey under a black/white list
//   fslot <keyhex> <s1,s2,..>          FilterSlot(KeyToSlot(key)) as used by syncRDB
//   latency <l> <r>                    latencymonitor.findKeyInRange (valid ranges only: it has no bound)

import (
	"fmt"
	"sort"
	"strconv"
	"strings"
	"time"

	utils "github.com/alibaba/RedisShake/redis-shake/common"
	conf "github.com/alibaba/RedisShake/redis-shake/configure"
	"github.com/alibaba/RedisShake/redis-shake/dbSync/latencymonitor"
	"github.com/alibaba/RedisShake/redis-shake/filter"
	redis "github.com/vinllen/redis-go-cluster"
)

func init() {
	props["C15"] = &prop{gen: genC15, run: runC15}
}

func c15HxList(l []string) string {
	if len(l) == 0 {
		return "-"
	}
	p := make([]string, len(l))
	for i, s := range l {
		p[i] = hx([]byte(s))
	}
	return strings.Join(p, ",")
}

func c15UnhxList(s string) []string {
	if s == "-" {
		return nil
	}
	var out []string
	for _, p := range strings.Split(s, ",") {
		out = append(out, string(unhx(p)))
	}
	return out
}

func genC15(g *gen) {
	ck := utils.CheckpointKey
	// --- brace layouts named by the property text (also in corpus/C15)
	for _, k := range []string{"", "a", "{a}{b}", "{a}b{c}", "{}{b}", "{}", "{", "}", "}{", "{a", "a}", "{{a}}", "{a}}", "{a}{", "{a}{}",
		"x{a}y{b}z", "{a{b}c}", "}{a}", "{}}{a}", "a{}b{c}", "{\x80}{a}", "\xc3{a}", "\xe2\x82{a}{b}", "\xe2\x82\xac{a}", "\xf0\x9f\x98\x80{a}{b}",
		ck, ck + "-aaaa", "{" + ck + "}", "foo{bar}{zap}", "user:{1000}:following", "foo{{bar}}zap", "foo{}{bar}"} {
		g.emit("slot %s", hx([]byte(k)))
	}
	// --- every table entry of both crc16 copies: all one-byte keys (index = byte), all (b, b') pairs sampled
	for b := 0; b < 256; b++ {
		g.emit("slot %02x", b)
	}
	// --- exhaustive over the alphabet { } a b \x80 up to length 7, sampled up to length 10
	alpha := []byte{'{', '}', 'a', 'b', 0x80}
	maxEx := g.pick(7, 9)
	var rec func(cur []byte, n int)
	rec = func(cur []byte, n int) {
		if len(cur) == n {
			g.emit("slot %s", hx(cur))
			return
		}
		for _, c := range alpha {
			rec(append(cur, c), n)
		}
	}
	for n := 1; n <= maxEx; n++ {
		rec(make([]byte, 0, n), n)
	}
	ns := g.pick(6000, 300000)
	for i := 0; i < ns; i++ {
		n := 8 + g.r.Intn(3)
		k := make([]byte, n)
		for j := range k {
			k[j] = alpha[g.r.Intn(len(alpha))]
		}
		g.emit("slot %s", hx(k))
	}
	// --- UTF-8 shaped keys: lead bytes, continuation bytes at the accept-range borders, braces in between
	u8 := []byte{'{', '}', 'a', 0x7f, 0x80, 0x8f, 0x90, 0x9f, 0xa0, 0xbf, 0xc0, 0xc1, 0xc2, 0xdf, 0xe0, 0xe1, 0xec, 0xed, 0xee, 0xef,
		0xf0, 0xf1, 0xf3, 0xf4, 0xf5, 0xff}
	nu := g.pick(6000, 200000)
	for i := 0; i < nu; i++ {
		n := 1 + g.r.Intn(9)
		k := make([]byte, n)
		for j := range k {
			if g.r.Intn(3) == 0 {
				k[j] = alpha[g.r.Intn(2)]
			} else {
				k[j] = u8[g.r.Intn(len(u8))]
			}
		}
		g.emit("slot %s", hx(k))
	}
	// --- random binary keys, with and without injected braces
	nb := g.pick(4000, 200000)
	for i := 0; i < nb; i++ {
		n := g.r.Intn(48)
		if i%20 == 0 {
			n = g.r.Intn(600)
		}
		k := g.bytes(n)
		for j := g.r.Intn(4); j > 0 && n > 0; j-- {
			k[g.r.Intn(n)] = alpha[g.r.Intn(2)]
		}
		g.emit("slot %s", hx(k))
	}

	// --- ChoseSlotInRange with the real checkpoint prefix
	pre := hx([]byte(ck))
	g.emit("chose %s 0 16383", pre)
	g.emit("chose %s 0 0", pre)
	g.emit("chose %s 16383 16383", pre)
	g.emit("chose %s 0 5460", pre)
	g.emit("chose %s 5461 10922", pre)
	g.emit("chose %s 10923 16383", pre)
	nc := g.pick(150, 2000)
	for i := 0; i < nc; i++ {
		switch i % 3 {
		case 0, 1: // a single slot: the hardest ranges
			s := g.r.Intn(16384)
			g.emit("chose %s %d %d", pre, s, s)
		default:
			l := g.r.Intn(16384)
			r := l + g.r.Intn(16384-l)
			if g.r.Intn(2) == 0 {
				r = l + g.r.Intn(8)
				if r > 16383 {
					r = 16383
				}
			}
			g.emit("chose %s %d %d", pre, l, r)
		}
	}
	// ranges outside the property's quantifier and other prefixes: model fidelity only
	g.emit("chose %s 5 4", pre)
	g.emit("chose %s -1 -1", pre)
	g.emit("chose %s 16384 20000", pre)
	g.emit("chose %s -5 3", pre)
	for _, p := range []string{"", "x", "{tag}", "redis-shake", "a{b"} {
		s := g.r.Intn(16384)
		g.emit("chose %s %d %d", hx([]byte(p)), s, s+g.r.Intn(3))
	}

	// --- FilterKey
	keys := []string{"", ck, ck + "-aaaa", ck + "x", ck[:len(ck)-1], "a" + ck, "abc", "ab", "b", "redis", "re"}
	lists := [][]string{nil, {"a"}, {"ab", "re"}, {"redis-shake"}, {""}, {"zz", "b"}}
	for _, k := range keys {
		for _, l := range lists {
			for _, m := range []string{"n", "b", "w"} {
				g.emit("filter %s %s %s", hx([]byte(k)), m, c15HxList(l))
			}
		}
	}
	// --- the slot filter of full sync
	nf := g.pick(300, 5000)
	for i := 0; i < nf; i++ {
		var k []byte
		switch i % 3 {
		case 0:
			k = []byte(fmt.Sprintf("{%c}{%c}", 'a'+g.r.Intn(26), 'a'+g.r.Intn(26)))
		case 1:
			k = []byte(fmt.Sprintf("k%d{t%d}x", g.r.Intn(100), g.r.Intn(50)))
		default:
			k = g.bytes(1 + g.r.Intn(12))
		}
		var sl []string
		for j := g.r.Intn(4); j > 0; j-- {
			sl = append(sl, fmt.Sprint(g.r.Intn(16384)))
		}
		if g.r.Intn(3) == 0 {
			sl = append(sl, fmt.Sprint(c15RedisSlotForGen(k))) // make "passes" frequent
		}
		if len(sl) == 0 {
			g.emit("fslot %s -", hx(k))
		} else {
			g.emit("fslot %s %s", hx(k), strings.Join(sl, ","))
		}
	}
	// --- latency key search (valid ranges only)
	g.emit("latency 0 16383")
	// the single-slot ranges whose first witness `synthetic_latency_generator_<i>` lies furthest out (found here with the
	// generator's own slot function over i = 0 … 400 000): the longest searches the code can be asked for. Every run takes
	// the 24 hardest and a sample of the next 200.
	first := make([]int, 16384)
	for i := range first {
		first[i] = -1
	}
	for i, seen := 0, 0; i < 400000 && seen < 16384; i++ {
		s := c15RedisSlotForGen([]byte("synthetic_latency_generator_" + strconv.Itoa(i)))
		if first[s] < 0 {
			first[s] = i
			seen++
		}
	}
	order := make([]int, 16384)
	for i := range order {
		order[i] = i
	}
	sort.Slice(order, func(a, b int) bool { return first[order[a]] > first[order[b]] })
	for k := 0; k < 224; k++ {
		if k < 24 || g.r.Intn(g.pick(10, 2)) == 0 {
			g.emit("latency %d %d", order[k], order[k])
		}
	}
	nl := g.pick(25, 400)
	for i := 0; i < nl; i++ {
		l := g.r.Intn(16384)
		r := l
		if i%4 == 3 {
			r = l + g.r.Intn(16384-l)
		}
		g.emit("latency %d %d", l, r)
	}
}

// c15RedisSlotForGen is used by the GENERATOR only, to build slot lists that contain the key's slot
// often enough; it is the external library, never the code under test.
func c15RedisSlotForGen(k []byte) int {
	s, _ := redis.GetSlot(k)
	return int(s)
}

var c15LatencyTimeouts int

func c15Bools(b ...bool) string {
	p := make([]string, len(b))
	for i, x := range b {
		p[i] = fmt.Sprint(x)
	}
	return strings.Join(p, ",")
}

func c15SetLists(black, white []string) {
	conf.Options.FilterKeyBlacklist = black
	conf.Options.FilterKeyWhitelist = white
}

func runC15(f []string) string {
	defer c15SetLists(nil, nil)
	switch f[0] {
	case "slot":
		k := unhx(f[1])
		ext, err := redis.GetSlot(k)
		if err != nil {
			return "exterr"
		}
		return fmt.Sprintf("slot=%d common=%04x latency=%04x ext=%d", utils.KeyToSlot(string(k)), utils.VerifC15Crc16(string(k)),
			latencymonitor.VerifC15Crc16(string(k)), ext)
	case "chose":
		p := string(unhx(f[1]))
		l, r := atoi(f[2]), atoi(f[3])
		key := utils.ChoseSlotInRange(p, l, r)
		in := false
		if len(key) > 0 {
			s1 := int(utils.KeyToSlot(key))
			s2, err := redis.GetSlot([]byte(key))
			in = err == nil && s1 == int(s2) && l <= s1 && s1 <= r
		}
		c15SetLists(nil, nil)
		f0 := filter.FilterKey(key)
		c15SetLists(nil, []string{"user:"})
		f1 := filter.FilterKey(key)
		c15SetLists([]string{"zzz"}, nil)
		f2 := filter.FilterKey(key)
		return fmt.Sprintf("key=%s inrange=%v filtered=%s", hx([]byte(key)), in, c15Bools(f0, f1, f2))
	case "filter":
		k := string(unhx(f[1]))
		switch f[2] {
		case "b":
			c15SetLists(c15UnhxList(f[3]), nil)
		case "w":
			c15SetLists(nil, c15UnhxList(f[3]))
		default:
			c15SetLists(nil, nil)
		}
		return fmt.Sprint(filter.FilterKey(k))
	case "fslot":
		k := string(unhx(f[1]))
		conf.Options.FilterSlot = nil
		if f[2] != "-" {
			conf.Options.FilterSlot = strings.Split(f[2], ",")
		}
		defer func() { conf.Options.FilterSlot = nil }()
		// the two lines of dbSync/syncRDB.go:63-64
		slot := int(utils.KeyToSlot(k))
		return fmt.Sprint(filter.FilterSlot(slot))
	case "latency":
		// findKeyInRange has no bound: on the unchanged tree the longest search is 147 918 iterations
		// (≈ 30 ms); a search still running after 5 s is reported as such. The goroutine cannot be
		// stopped, so after two of them the remaining latency cases are not started any more.
		if c15LatencyTimeouts >= 2 {
			return "not-started-because-two-earlier-searches-did-not-end"
		}
		l, r := atoi(f[1]), atoi(f[2])
		ch := make(chan string, 1)
		go func() { ch <- latencymonitor.VerifC15FindKeyInRange(l, r) }()
		select {
		case k := <-ch:
			return "key=" + hx([]byte(k))
		case <-time.After(5 * time.Second):
			c15LatencyTimeouts++
			return "no-key-after-5s"
		}
	}
	return "badcase"
}
