package main

// Ambient configuration. A property's cases set the options the property is about; every OTHER option of the tool's
// configuration must not change what the property promises. Before each case the harness therefore puts a pseudo-random but
// legal value (derived from the case text alone, so a replay sees the same) into the options listed for that property
// below — options the property's code paths can read but its statement does not mention. The expected results never
// depend on them (the Lean driver does not even see them).
//
// The lists are whitelists: an option is varied for a property only if the property's statement is silent about it AND the
// harness of that property does not set it itself.

import (
	"hash/fnv"

	conf "github.com/alibaba/RedisShake/redis-shake/configure"
)

var ambientBase = []string{"Id", "NCpu", "SourceVersion", "Version", "KeepAlive", "HeartbeatInterval", "Rewrite", "TargetDBString"}

var ambientExtra = map[string][]string{
	"C01": {"BigKeyThreshold", "Parallel", "TargetVersion", "KeyExists", "SenderSize", "SenderCount", "ScanKeyNumber", "Qps", "Psync", "Resume", "SourceRdbParallel"},
	"C02": {"SenderSize", "SenderCount", "ScanKeyNumber", "Qps", "Psync", "Resume", "SourceRdbParallel"},
	"C03": {"BigKeyThreshold", "Parallel", "TargetVersion", "KeyExists", "ScanKeyNumber", "Qps", "SourceRdbParallel"},
	"C04": {"BigKeyThreshold", "Parallel", "TargetVersion", "KeyExists", "ScanKeyNumber", "Qps", "SourceRdbParallel"},
	"C05": {"BigKeyThreshold", "Parallel", "TargetVersion", "KeyExists", "SenderSize", "SenderCount", "ScanKeyNumber", "Qps"},
	"C06": {"SenderSize", "SenderCount", "SourceRdbParallel", "Psync"},
	"C07": {"SenderSize", "SenderCount", "ScanKeyNumber", "Qps", "Psync", "Resume", "SourceRdbParallel"},
	"C08": {"BigKeyThreshold", "Parallel", "TargetVersion", "KeyExists", "ScanKeyNumber", "Qps", "SourceRdbParallel"},
	"C11": {"BigKeyThreshold", "Parallel", "TargetVersion", "KeyExists", "SenderSize", "SenderCount", "ScanKeyNumber", "Qps", "Psync", "Resume", "SourceRdbParallel"},
	"C13": {"BigKeyThreshold", "Parallel", "TargetVersion", "KeyExists", "SenderSize", "SenderCount", "ScanKeyNumber", "Qps", "Psync", "Resume", "SourceRdbParallel"},
	"C14": {"BigKeyThreshold", "Parallel", "TargetVersion", "KeyExists", "ScanKeyNumber", "Qps", "SourceRdbParallel"},
	"C15": {"BigKeyThreshold", "Parallel", "TargetVersion", "KeyExists", "SenderSize", "SenderCount", "ScanKeyNumber", "Qps", "Psync", "Resume", "SourceRdbParallel"},
	"C16": {"Parallel", "SenderSize", "SenderCount", "Psync", "Resume", "SourceRdbParallel"},
	"C17": {"BigKeyThreshold", "TargetVersion", "KeyExists", "SenderSize", "SenderCount", "ScanKeyNumber", "Qps", "Psync", "Resume", "SourceRdbParallel"},
	"C20": {"BigKeyThreshold", "Parallel", "TargetVersion", "KeyExists", "SenderSize", "SenderCount", "ScanKeyNumber", "Qps", "SourceRdbParallel"},
}

// properties whose cases run concurrently inside one process (the options are process-wide): one setting per process,
// derived from VERIF_SEED, applied before anything runs
var ambientPerProcess = map[string]bool{"C01": true, "C08": true, "C11": true, "C03": true, "C04": true}

var ambientNoBase = map[string]bool{"C19": true} // C19 reads every option's text; it sets its own

func init() { ambientHook = ambientApply }

func ambientApply(pid, line string, start bool) {
	if ambientNoBase[pid] || ambientPerProcess[pid] != start {
		return
	}
	h := fnv.New64a()
	h.Write([]byte(line))
	seed := h.Sum64()
	pick := func(field string, n int) int {
		g := fnv.New64a()
		g.Write([]byte(field))
		x := (seed ^ g.Sum64()) * 0x9E3779B97F4A7C15
		return int((x >> 33) % uint64(n))
	}
	o := &conf.Options
	for _, f := range append(append([]string{}, ambientBase...), ambientExtra[pid]...) {
		switch f {
		case "Id":
			o.Id = []string{"", "redis-shake", "id-7"}[pick(f, 3)]
		case "NCpu":
			o.NCpu = []int{0, 1, 8}[pick(f, 3)]
		case "SourceVersion":
			o.SourceVersion = []string{"", "4.0.14", "7.0"}[pick(f, 3)]
		case "Version":
			o.Version = []string{"", "develop,abcdef,go1.20"}[pick(f, 2)]
		case "KeepAlive":
			o.KeepAlive = []uint{0, 5}[pick(f, 2)]
		case "HeartbeatInterval":
			o.HeartbeatInterval = []uint{0, 10}[pick(f, 2)]
		case "Rewrite":
			o.Rewrite = pick(f, 2) == 1
		case "TargetDBString":
			o.TargetDBString = []string{"-1", "0", "5"}[pick(f, 3)]
		case "BigKeyThreshold":
			o.BigKeyThreshold = []uint64{1, 2, 4096, 52428800, 524288000}[pick(f, 5)]
		case "Parallel":
			o.Parallel = []int{1, 3, 32}[pick(f, 3)]
		case "TargetVersion":
			o.TargetVersion = []string{"", "2.8.0", "4.0.11", "5.0.5", "6.2"}[pick(f, 5)]
		case "KeyExists":
			o.KeyExists = []string{"none", "rewrite", "ignore"}[pick(f, 3)]
		case "SenderSize":
			o.SenderSize = []uint64{1, 4096, 104857600}[pick(f, 3)]
		case "SenderCount":
			o.SenderCount = []uint{1, 4095}[pick(f, 2)]
		case "ScanKeyNumber":
			o.ScanKeyNumber = []uint32{1, 50, 100}[pick(f, 3)]
		case "Qps":
			o.Qps = []int{1, 200000}[pick(f, 2)]
		case "Psync":
			o.Psync = pick(f, 2) == 1
		case "Resume":
			o.ResumeFromBreakPoint = pick(f, 2) == 1
		case "SourceRdbParallel":
			o.SourceRdbParallel = []int{1, 4}[pick(f, 2)]
		}
	}
}
