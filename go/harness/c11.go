package main

import (
	"bufio"
	"bytes"
	"fmt"
	"io"
	"os"
	"os/exec"
	"strings"
	"time"

	"github.com/alibaba/RedisShake/pkg/libs/atomic2"
	"github.com/alibaba/RedisShake/pkg/libs/log"
	conf "github.com/alibaba/RedisShake/redis-shake/configure"

	cupcake "github.com/alibaba/RedisShake/pkg/libs/cupcake/rdb"
	cupcrc "github.com/alibaba/RedisShake/pkg/libs/cupcake/rdb/crc64"
	"github.com/alibaba/RedisShake/pkg/rdb"
	"github.com/alibaba/RedisShake/pkg/rdb/digest"
	utils "github.com/alibaba/RedisShake/redis-shake/common"
	extcrc "github.com/cupcake/rdb/crc64"
)

func init() {
	props["C11"] = &prop{gen: genC11, run: runC11, concurrent: 8}
}

func genC11(g *gen) {
	// digests under random chunkings
	nd := g.pick(400, 20000)
	for i := 0; i < nd; i++ {
		n := g.r.Intn(64)
		if i%10 == 0 {
			n = g.r.Intn(2000)
		}
		data := g.bytes(n)
		var cuts []string
		rem := n
		for rem > 0 {
			c := g.r.Intn(rem + 1)
			if g.r.Intn(4) == 0 {
				c = 0 // empty write
			}
			cuts = append(cuts, fmt.Sprint(c))
			rem -= c
		}
		if len(cuts) == 0 {
			cuts = []string{"0"}
		}
		g.emit("digest %s %s", hx(data), strings.Join(cuts, ","))
	}
	// DUMP payloads: emitted ones, then EVERY single byte substitution of a few, truncations, versions
	na := g.pick(3, 40)
	for i := 0; i < na; i++ {
		t := byte(g.r.Intn(16))
		val := g.bytes(g.r.Intn(g.pick(6, 24)))
		g.emit("mkdump %d %s", t, hx(val))
		d := rdb.VerifCreateValueDump(t, val) // the generator may use the emitter; results are re-derived by both sides
		g.emit("verify %s", hx(d))
		for pos := 0; pos < len(d); pos++ {
			for v := 0; v < 256; v++ {
				if byte(v) == d[pos] {
					continue
				}
				e := append([]byte{}, d...)
				e[pos] = byte(v)
				g.emit("verify %s", hx(e))
			}
		}
		for l := 0; l < len(d); l++ {
			g.emit("verify %s", hx(d[:l]))
		}
	}
	// version field sweep with a matching checksum (so only the version decides)
	for _, ver := range []int{0, 1, 5, 6, 7, 8, 9, 10, 11, 255, 256, 257, 262, 265, 266, 512, 0x0901, 0x0a00, 65535} {
		body := append(g.bytes(g.r.Intn(5)+1), byte(ver), byte(ver>>8))
		sum := extcrc.Digest(body)
		d := append([]byte{}, body...)
		for k := 0; k < 8; k++ {
			d = append(d, byte(sum>>(8*uint(k))))
		}
		g.emit("verify %s", hx(d))
	}
	nm := g.pick(200, 5000)
	for i := 0; i < nm; i++ {
		g.emit("mkdump %d %s", g.r.Intn(256), hx(g.bytes(g.r.Intn(40))))
		g.emit("verify %s", hx(g.bytes(g.r.Intn(30))))
	}
	// footer: intact, each byte substituted (covered or trailer)
	nf := g.pick(4, 60)
	for i := 0; i < nf; i++ {
		cov := g.bytes(1 + g.r.Intn(g.pick(12, 40)))
		tr := crc64Trailer(cov)
		g.emit("footer %s %s", hx(cov), hx(tr))
		all := append(append([]byte{}, cov...), tr...)
		for pos := 0; pos < len(all); pos++ {
			for _, dv := range []int{1, 2, 0x80, 0xff, 1 + g.r.Intn(255)} {
				e := append([]byte{}, all...)
				e[pos] ^= byte(dv)
				g.emit("footer %s %s", hx(e[:len(cov)]), hx(e[len(cov):]))
			}
		}
		g.emit("footer %s %s", hx(cov), hx(tr[:g.r.Intn(8)]))
		// long covered ranges read in requests of very different sizes (one byte, a length prefix, a 4 KiB … 70 KB body), as the
		// parser does for long strings: every byte goes into the CRC once, in order, whatever the request pattern
		for k := 0; k < 3; k++ {
			var req []string
			tot := 0
			for len(req) < 3+g.r.Intn(5) {
				n := []int{1, 2, 5, 9, 4095, 4096, 4097, 8192, 20000, 70000, 1 + g.r.Intn(300)}[g.r.Intn(11)]
				if tot+n > 90000 {
					n = 3
				}
				req = append(req, fmt.Sprint(n))
				tot += n
			}
			big := g.bytes(tot)
			bsum := crc64Trailer(big)
			dl := "x"
			if g.r.Intn(2) == 0 {
				dl = "x/" + deliveryModes[g.r.Intn(len(deliveryModes))] + fmt.Sprint(g.r.Intn(1000))
			}
			g.emit("footer %s %s %s@%s", hx(big), hx(bsum), dl, strings.Join(req, "+"))
		}
		// the same intact / damaged stream reaching the loader in pieces (short reads, byte by byte, data together with EOF,
		// interleaved empty reads): the running CRC must cover every byte exactly once, however it was delivered
		for k := 0; k < 6; k++ {
			dl := "x/" + deliveryModes[g.r.Intn(len(deliveryModes))] + fmt.Sprint(g.r.Intn(1000))
			big := g.bytes(20 + g.r.Intn(300))
			bsum := crc64Trailer(big)
			g.emit("footer %s %s %s", hx(big), hx(bsum), dl)
			e := append([]byte{}, big...)
			e[g.r.Intn(len(e))] ^= byte(1 << uint(g.r.Intn(8)))
			g.emit("footer %s %s %s", hx(e), hx(bsum), dl)
		}
		// structured wrong trailers: the special values of a 64-bit comparison
		for _, t := range specialTrailers(tr) {
			g.emit("footer %s %s", hx(cov), hx(t))
			// … also together with an altered data byte
			e := append([]byte{}, cov...)
			e[g.r.Intn(len(e))] ^= byte(1 + g.r.Intn(255))
			g.emit("footer %s %s", hx(e), hx(t))
		}
	}
	// whole RDB files through utils.NewRDBLoader — the entry point of sync, restore and decode — under different
	// configurations (big_key_threshold 1 is what a given target.version forces; parallel, rewrite, …): intact files are
	// accepted with all their entries, a changed value byte, a changed or a short checksum makes the tool stop
	nl := g.pick(6, 40)
	for i := 0; i < nl; i++ {
		var b bytes.Buffer
		b.WriteString([]string{"REDIS0006", "REDIS0007", "REDIS0009", "REDIS0008"}[g.r.Intn(4)])
		var dataPos []int
		ne := 1 + g.r.Intn(4)
		for k := 0; k < ne; k++ {
			key, val := g.bytes(1+g.r.Intn(6)), g.bytes(1+g.r.Intn(20))
			b.WriteByte(0)
			b.WriteByte(byte(len(key)))
			b.Write(key)
			b.WriteByte(byte(len(val)))
			for range val {
				dataPos = append(dataPos, b.Len())
				b.WriteByte(0)
			}
			copy(b.Bytes()[b.Len()-len(val):], val)
		}
		b.WriteByte(0xff)
		cov := b.Bytes()
		tr := crc64Trailer(cov)
		cfgs := []string{"1", "2", "52428800", "524288000", "1/tv=4.0", "16/par=1", "1/rw=0"}
		for _, cf := range cfgs {
			g.emit("ldfile %s %d %s %s", cf, ne, hx(cov), hx(tr))
		}
		for m := 0; m < g.pick(10, 40); m++ {
			cf := cfgs[g.r.Intn(len(cfgs))]
			e := append([]byte{}, cov...)
			t := append([]byte{}, tr...)
			switch g.r.Intn(3) {
			case 0:
				e[dataPos[g.r.Intn(len(dataPos))]] ^= byte(1 + g.r.Intn(255))
			case 1:
				t[g.r.Intn(8)] ^= byte(1 + g.r.Intn(255))
			default:
				t = t[:g.r.Intn(8)]
			}
			g.emit("ldfile %s %d %s %s", cf, ne, hx(e), hx(t))
		}
	}
	// DUMP payloads with structured wrong checksums / versions
	for i := 0; i < g.pick(6, 60); i++ {
		t := byte(g.r.Intn(16))
		val := g.bytes(g.r.Intn(12))
		d := rdb.VerifCreateValueDump(t, val)
		body, tr := d[:len(d)-8], d[len(d)-8:]
		for _, st := range specialTrailers(tr) {
			g.emit("verify %s", hx(append(append([]byte{}, body...), st...)))
		}
	}
}

// specialTrailers: wrong 8-byte checksums that a sloppy comparison might accept:
// zero ("checksum disabled"), all ones, off by one, halves zeroed or swapped, byte order reversed.
func specialTrailers(tr []byte) [][]byte {
	var v uint64
	for k := 0; k < 8; k++ {
		v |= uint64(tr[k]) << (8 * uint(k))
	}
	le := func(x uint64) []byte {
		b := make([]byte, 8)
		for k := 0; k < 8; k++ {
			b[k] = byte(x >> (8 * uint(k)))
		}
		return b
	}
	rev := make([]byte, 8)
	for k := 0; k < 8; k++ {
		rev[k] = tr[7-k]
	}
	cands := [][]byte{le(0), le(^uint64(0)), le(v + 1), le(v - 1), le(v & 0xffffffff), le(v &^ 0xffffffff),
		le(v>>32 | v<<32), rev, le(^v), le(v ^ (1 << 63)), le(1)}
	var out [][]byte
	for _, c := range cands {
		if !bytes.Equal(c, tr) {
			out = append(out, c)
		}
	}
	return out
}

func errClass(err error) string {
	if err == nil {
		return "ok"
	}
	s := err.Error()
	switch {
	case strings.Contains(s, "invalid dump length"):
		return "length"
	case strings.Contains(s, "invalid version"), strings.Contains(s, "current version"):
		return "version"
	case strings.Contains(s, "invalid CRC"):
		return "crc"
	}
	return "other"
}

func runC11(f []string) string {
	switch f[0] {
	case "digest":
		data := unhx(f[1])
		d := digest.New()
		off := 0
		for _, c := range strings.Split(f[2], ",") {
			n := atoi(c)
			d.Write(data[off : off+n])
			off += n
		}
		d.Write(data[off:])
		h2 := cupcrc.New()
		h2.Write(data)
		return fmt.Sprintf("digest=%016x sum=%x cupcake=%016x cupcakehash=%016x external=%016x",
			d.Sum64(), d.Sum(nil), cupcrc.Digest(data), h2.Sum64(), extcrc.Digest(data))
	case "mkdump":
		return hx(rdb.VerifCreateValueDump(byte(atoi(f[1])), unhx(f[2])))
	case "verify":
		d := unhx(f[1])
		e1 := cupcake.VerifVerifyDump(d)
		ver, sum, e2 := utils.CheckVersionChecksum(d)
		r := "verifyDump=" + errClass(e1) + " check=" + errClass(e2)
		if e2 == nil {
			r += fmt.Sprintf(":%d:%016x", ver, sum)
		}
		return r
	case "ldfile":
		if os.Getenv("VERIF_C11_CHILD") == "" {
			return c11Parent(strings.Join(f, " "))
		}
		for i, kv := range strings.Split(f[1], "/") {
			switch {
			case i == 0:
				conf.Options.BigKeyThreshold = uint64(atoi(kv))
			case strings.HasPrefix(kv, "tv="):
				conf.Options.TargetVersion = kv[3:]
			case strings.HasPrefix(kv, "par="):
				conf.Options.Parallel = atoi(kv[4:])
			case strings.HasPrefix(kv, "rw="):
				conf.Options.KeyExists = "rewrite"
			}
		}
		log.VerifExitNow = true // as in the tool: the process ends inside log.PanicError, the entry channel is never closed
		var rbytes atomic2.Int64
		n := 0
		for range utils.NewRDBLoader(bufio.NewReader(bytes.NewReader(append(unhx(f[3]), unhx(f[4])...))), &rbytes, 16) {
			n++
		}
		return fmt.Sprintf("accept %d", n)
	case "footer":
		cov, tr := unhx(f[1]), unhx(f[2])
		var src io.Reader = bytes.NewReader(append(append([]byte{}, cov...), tr...))
		parts := []int{len(cov)}
		if len(f) > 3 {
			// <delivery flag>[@<n1>+<n2>+…]: how the source hands the bytes out, and in which requests the loader asks for them
			fl := strings.SplitN(f[3], "@", 2)
			src = newDelivery(append(append([]byte{}, cov...), tr...), fl[0])
			if len(fl) == 2 {
				parts = nil
				for _, t := range strings.Split(fl[1], "+") {
					parts = append(parts, atoi(t))
				}
			}
		}
		l := rdb.NewLoader(src)
		if err := l.VerifSkipParts(parts); err != nil {
			return "skiperr"
		}
		if err := l.Footer(); err != nil {
			if strings.Contains(err.Error(), "checksum validation failed") {
				return "mismatch"
			}
			return "eof"
		}
		return "ok"
	}
	return "badcase"
}

// c11Parent runs one case in a child process: utils.NewRDBLoader stops the tool (log.PanicError) from its own goroutine
func c11Parent(line string) string {
	cmd := exec.Command(os.Args[0], "run", "C11")
	cmd.Env = append(os.Environ(), "VERIF_C11_CHILD=1")
	in, _ := cmd.StdinPipe()
	out, _ := cmd.StdoutPipe()
	var tail bytes.Buffer
	cmd.Stderr = &tail
	if err := cmd.Start(); err != nil {
		return "spawn-failed"
	}
	type ans struct {
		s   string
		err error
	}
	ch := make(chan ans, 1)
	go func() {
		io.WriteString(in, line+"\n")
		in.Close() // the concurrent runner reads its whole input first
		s, err := bufio.NewReaderSize(out, 1<<20).ReadString('\n')
		ch <- ans{strings.TrimRight(s, "\n"), err}
	}()
	select {
	case a := <-ch:
		if a.err != nil {
			cmd.Wait()
			if strings.Contains(tail.String(), "VerifExit") {
				return "abort"
			}
			return "crash"
		}
		cmd.Process.Kill()
		cmd.Wait()
		return a.s
	case <-time.After(40 * time.Second):
		cmd.Process.Kill()
		cmd.Wait()
		return "timeout"
	}
}
