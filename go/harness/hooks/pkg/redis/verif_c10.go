//go:build verif
// +build verif

package redis

// Add-only verification hooks for property C10 (injected through `go build -overlay`; never part of /repo).

// VerifC10Decode is MustDecodeOpt without the abort: one top-level value, the decoder's running offset
// afterwards, and the error instead of log.PanicError.
func VerifC10Decode(d *Decoder) (Resp, int64, error) {
	r, err := d.decodeResp(0)
	return r, d.offset, err
}

// VerifC10Offset exposes the unexported running offset.
func VerifC10Offset(d *Decoder) int64 { return d.offset }

// VerifC10Itos exposes the decimal renderer used by the encoder (imap table or strconv).
func VerifC10Itos(i int64) string { return itos(i) }

// VerifC10ImapLen exposes the length of the pre-rendered table.
func VerifC10ImapLen() int { return len(imap) }
