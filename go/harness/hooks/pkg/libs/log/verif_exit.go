//go:build verif
// +build verif

package log

// VerifExit is what the normalised Panic* helpers panic with instead of calling os.Exit(1)
// (build normalisation N2 of /verif/DESIGN.md), so that an abort is an observable outcome.
type VerifExit struct{}
