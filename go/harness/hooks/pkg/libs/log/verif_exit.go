//go:build verif
// +build verif

package log

import "os"

// VerifExit is what the normalised Panic* helpers panic with instead of calling os.Exit(1)
// (build normalisation N2 of /verif/DESIGN.md), so that an abort is an observable outcome.
type VerifExit struct{}

// VerifExitNow: a child process of the harness that wants exactly what the tool does — the process ends where Panic* was
// called, no deferred call of the calling goroutine runs (a deferred close(channel) would otherwise let the consumer go on
// for a moment as if the producer had finished) — sets this; the parent recognises the exit by the word on stderr.
var VerifExitNow bool

func verifExit() {
	if VerifExitNow {
		os.Stderr.WriteString("VerifExit\n")
		os.Exit(3)
	}
	panic(VerifExit{})
}
