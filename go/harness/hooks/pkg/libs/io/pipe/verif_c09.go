//go:build verif
// +build verif

package pipe

// Add-only verification hooks for C09 (injected through `go build -overlay`; never part of /repo).
// They do not change any behaviour of the package: two extra constructors that skip `align`
// (so that the *same* memBuffer/fileBuffer code can be run with tiny ring sizes) and a read-only
// probe of the two condition variables.

import (
	"os"
	"reflect"
	"sync"
)

// VerifC09NewMemRaw builds a memory pipe whose ring has exactly `size` bytes (no alignment).
func VerifC09NewMemRaw(size int) (Reader, Writer) {
	if size <= 0 {
		panic("invalid pipe buffer size")
	}
	return newPipe(&memBuffer{b: make([]byte, size), size: uint64(size)})
}

// VerifC09NewFileRaw builds a file pipe whose ring has exactly `size` bytes (no alignment).
func VerifC09NewFileRaw(size int, f *os.File) (Reader, Writer) {
	if size <= 0 {
		panic("invalid pipe buffer size")
	}
	return newPipe(&fileBuffer{f: f, size: uint64(size)})
}

// VerifC09NewMemRawAt / VerifC09NewFileRawAt: the same buffers in a state that only a long history reaches — read
// position rpos (any uint64), len(content) unread bytes lying in the ring where that history would have put them.
// (The pipe resets both positions to 0 whenever it runs empty, so large positions need gigabytes of traffic without
// a drain; the hook sets them directly. Nothing else is touched.)
func VerifC09NewMemRawAt(size int, rpos uint64, content []byte) (Reader, Writer) {
	if size <= 0 || len(content) == 0 || len(content) > size {
		panic("invalid preset")
	}
	m := &memBuffer{b: make([]byte, size), size: uint64(size), rpos: rpos, wpos: rpos + uint64(len(content))}
	for j, c := range content {
		m.b[(rpos+uint64(j))%uint64(size)] = c
	}
	return newPipe(m)
}

func VerifC09NewFileRawAt(size int, f *os.File, rpos uint64, content []byte) (Reader, Writer) {
	if size <= 0 || len(content) == 0 || len(content) > size {
		panic("invalid preset")
	}
	img := make([]byte, size) // the ring has wrapped: the file has its full length
	for j, c := range content {
		img[(rpos+uint64(j))%uint64(size)] = c
	}
	if _, err := f.WriteAt(img, 0); err != nil {
		panic(err)
	}
	return newPipe(&fileBuffer{f: f, size: uint64(size), rpos: rpos, wpos: rpos + uint64(len(content))})
}

func verifC09PipeOf(x interface{}) *pipe {
	switch v := x.(type) {
	case *reader:
		return v.p
	case *writer:
		return v.p
	}
	panic("verif: not a pipe endpoint")
}

// waiters of a sync.Cond = notify.wait - notify.notify (runtime notifyList ticket counters).
// Read with the cond's Locker held: `wait` only moves inside Cond.Wait before L is released and every
// Signal of this package is issued with L held, so the difference is stable while we look at it.
func verifC09CondWaiters(c *sync.Cond) int {
	nl := reflect.ValueOf(c).Elem().FieldByName("notify")
	if !nl.IsValid() {
		return -1
	}
	w, n := nl.FieldByName("wait"), nl.FieldByName("notify")
	if !w.IsValid() || !n.IsValid() {
		return -1
	}
	return int(uint32(w.Uint()) - uint32(n.Uint()))
}

// VerifC09Waiters reports how many goroutines are parked (inside Wait, not yet signalled) on the reader's
// and on the writer's condition variable. -1 = the runtime layout is not the expected one.
func VerifC09Waiters(x interface{}) (rparked, wparked int) {
	p := verifC09PipeOf(x)
	p.mu.Lock()
	defer p.mu.Unlock()
	return verifC09CondWaiters(p.rwait), verifC09CondWaiters(p.wwait)
}
