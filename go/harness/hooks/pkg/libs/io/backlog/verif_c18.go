//go:build verif
// +build verif

package backlog

import (
	"reflect"
	"time"
)

// Add-only verification hooks (injected through `go build -overlay`; never part of /repo).

// VerifC18Roffset / VerifC18Woffset / VerifC18Align expose the ring arithmetic.
func VerifC18Roffset(blen int, size, rpos, wpos uint64) (uint64, uint64) {
	return roffset(blen, size, rpos, wpos)
}
func VerifC18Woffset(blen int, size, wpos uint64) (uint64, uint64) { return woffset(blen, size, wpos) }
func VerifC18Align(size, unit int) int                           { return align(size, unit) }

// VerifC18WriteSome is one `writeSome` critical section (a `Write` is a loop of these).
func VerifC18WriteSome(bl *Backlog, b []byte) (int, error) { return bl.writeSome(b) }

// VerifC18Waiters returns how many goroutines are inside `bl.rwait.Wait()` and have not been notified:
// sync.Cond keeps `notify.wait` (tickets handed out, incremented by Wait BEFORE it unlocks bl.mu) and
// `notify.notify` (tickets notified). Read under bl.mu, so the count is exact. -1 if the layout of
// sync.Cond is not the expected one (the harness then falls back to a grace period).
func VerifC18Waiters(bl *Backlog) (n int) {
	defer func() {
		if recover() != nil {
			n = -1
		}
	}()
	bl.mu.Lock()
	defer bl.mu.Unlock()
	nl := reflect.ValueOf(bl.rwait).Elem().FieldByName("notify")
	w := nl.FieldByName("wait")
	nt := nl.FieldByName("notify")
	if !w.IsValid() || !nt.IsValid() {
		return -1
	}
	return int(uint32(w.Uint()) - uint32(nt.Uint()))
}

// verifSlowClose is the backlog's own store with a close() that takes a while (a large file being truncated and closed):
// nothing else is changed. It widens the window between "the readers were woken" and "the store is closed".
type verifSlowClose struct {
	buffer
	d time.Duration
}

func (s *verifSlowClose) close() error {
	time.Sleep(s.d)
	return s.buffer.close()
}

// VerifC18SlowClose makes the next Close of bl take at least d inside store.close().
func VerifC18SlowClose(bl *Backlog, d time.Duration) {
	bl.mu.Lock()
	defer bl.mu.Unlock()
	if bl.store != nil {
		if _, ok := bl.store.(*verifSlowClose); !ok {
			bl.store = &verifSlowClose{buffer: bl.store, d: d}
		}
	}
}
