//go:build verif
// +build verif

package rdb

// VerifVerifyDump exposes verifyDump.
func VerifVerifyDump(d []byte) error { return verifyDump(d) }
