//go:build verif
// +build verif

package rdb

// Add-only verification hooks (injected through `go build -overlay`; never part of /repo).

// VerifCreateValueDump exposes createValueDump.
func VerifCreateValueDump(t byte, val []byte) []byte { return createValueDump(t, val) }

// VerifSkip reads exactly n bytes through the loader's tee reader (so that they are covered
// by the running CRC) and discards them.
func (l *Loader) VerifSkip(n int) error {
	if n == 0 {
		return nil
	}
	buf := make([]byte, n)
	return l.readFull(buf)
}
