//go:build verif
// +build verif

package rdb

// Add-only verification hooks (injected through `go build -overlay`; never part of /repo).

// VerifCreateValueDump exposes createValueDump.
func VerifCreateValueDump(t byte, val []byte) []byte { return createValueDump(t, val) }

// VerifSkipParts reads the given numbers of bytes through the loader's tee reader, one request after the other (the way
// the parser asks for a length byte, then a 4-byte length, then a long string body), and discards them.
func (l *Loader) VerifSkipParts(parts []int) error {
	for _, n := range parts {
		if err := l.VerifSkip(n); err != nil {
			return err
		}
	}
	return nil
}

// VerifSkip reads exactly n bytes through the loader's tee reader (so that they are covered
// by the running CRC) and discards them.
func (l *Loader) VerifSkip(n int) error {
	if n == 0 {
		return nil
	}
	buf := make([]byte, n)
	return l.readFull(buf)
}
