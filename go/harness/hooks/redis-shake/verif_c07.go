//go:build verif
// +build verif

package run

// Add-only verification hook for property C07 (injected through `go build -overlay`; never part of /repo).

import (
	"bufio"
	"reflect"
)

// VerifC07RestoreRDBFile runs the real restore-mode worker pool (`restoreRDBFile`) over `reader`.
// The call goes through reflection so that the hook compiles against both shapes of the function:
// the pinned one (no result: a failed restore cannot be reported, deviation D11) and the repaired one
// (returns the first worker error).  `reports` tells which shape was found.
func VerifC07RestoreRDBFile(reader *bufio.Reader, target []string, nsize int64) (err error, reports bool) {
	dr := &dbRestorer{id: 0, input: "verif", target: target}
	f := reflect.ValueOf(dr.restoreRDBFile)
	out := f.Call([]reflect.Value{
		reflect.ValueOf(reader), reflect.ValueOf(target), reflect.ValueOf("auth"), reflect.ValueOf(""),
		reflect.ValueOf(nsize), reflect.ValueOf(false),
	})
	if len(out) == 0 {
		return nil, false
	}
	if !out[0].IsNil() {
		return out[0].Interface().(error), true
	}
	return nil, true
}
