//go:build verif
// +build verif

package utils

// Add-only verification hook for C15 (injected through `go build -overlay`; never part of /repo).

// VerifC15Crc16 exposes the unexported table driven crc16 of redis-shake/common.
func VerifC15Crc16(buf string) uint16 { return crc16(buf) }
