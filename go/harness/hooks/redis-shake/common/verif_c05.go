//go:build verif
// +build verif

package utils

import "io"

// Add-only verification hooks for property C05 (injected through `go build -overlay`).

// VerifC05WaitRdbDump exposes waitRdbDump (the '$<n>\r\n' header reader with keep-alive newlines).
func VerifC05WaitRdbDump(r io.Reader) <-chan int64 { return waitRdbDump(r) }
