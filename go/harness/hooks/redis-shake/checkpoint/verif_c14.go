//go:build verif
// +build verif

package checkpoint

import redigo "github.com/garyburd/redigo/redis"

// Add-only verification hook for C14 (injected through `go build -overlay`; never part of /repo).

// VerifC14Fetch exposes fetchCheckpoint.
func VerifC14Fetch(sourceAddr string, c redigo.Conn, db int, checkpointName string) (string, int64, int, error) {
	return fetchCheckpoint(sourceAddr, c, db, checkpointName)
}
