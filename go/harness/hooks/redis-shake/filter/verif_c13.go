//go:build verif
// +build verif

package filter

import "sort"

// Add-only verification hooks for C13 (injected through `go build -overlay`; never part of /repo).

// VerifRow is one row of RedisCommands as the running code sees it.
type VerifRow struct {
	Name              string
	First, Last, Step int
	HasProc           bool
}

// VerifRedisCommands lists the real table, sorted by name (Go map order is random).
func VerifRedisCommands() []VerifRow {
	out := make([]VerifRow, 0, len(RedisCommands))
	for name, c := range RedisCommands {
		out = append(out, VerifRow{name, c.firstkey, c.lastkey, c.keystep, c.getkey_proc != nil})
	}
	sort.Slice(out, func(i, j int) bool { return out[i].Name < out[j].Name })
	return out
}

// VerifGetMatchKeys runs the real getMatchKeys on an explicit row (used to tie the model on rows
// outside the table and to replay the behaviour of the rows as pinned).
func VerifGetMatchKeys(first, last, step int, args [][]byte) ([][]byte, bool) {
	return getMatchKeys(redisCommand{nil, first, last, step}, args)
}
