//go:build verif
// +build verif

package run

// Add-only verification hook for property C17 (injected through `go build -overlay`; never part of /repo).

import (
	conf "github.com/alibaba/RedisShake/redis-shake/configure"
)

// VerifC17Decode runs the real decode pipeline of CmdDecode (reader -> RDB loader channel -> `parallel`
// decoder workers -> writer goroutine) on the file `input`, writing the JSON lines to `output`.
// It returns when CmdDecode.decode returns, i.e. when the real code considers the run finished.
func VerifC17Decode(input, output string, parallel int) (rbytes, wbytes, nentry int64) {
	conf.Options.Parallel = parallel
	cmd := &CmdDecode{}
	cmd.decode(input, output)
	st := cmd.Stat()
	return st.rbytes, st.wbytes, st.nentry
}
