//go:build verif
// +build verif

package run

import "bufio"

// Add-only verification hooks for property C05 (injected through `go build -overlay`).

// VerifC05Dump runs the real dbDumper.dump (OpenSyncConn + waitRdbDump + dumpRDBFile).
func VerifC05Dump(source, output string) (*bufio.Reader, *bufio.Writer, int64) {
	dd := &dbDumper{id: 0, source: source, sourcePassword: "", output: output}
	return dd.dump()
}

// VerifC05DumpRDBFile runs the real dumpRDBFile on caller-supplied reader/writer.
func VerifC05DumpRDBFile(reader *bufio.Reader, writer *bufio.Writer, nsize int64) {
	dd := &dbDumper{id: 0}
	dd.dumpRDBFile(reader, writer, nsize)
}
