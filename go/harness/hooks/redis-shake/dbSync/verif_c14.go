//go:build verif
// +build verif

package dbSync

import (
	"github.com/alibaba/RedisShake/redis-shake/dbSync/slot"
	"github.com/alibaba/RedisShake/redis-shake/metric"
	redigo "github.com/garyburd/redigo/redis"
)

// Add-only verification hook for C14 (injected through `go build -overlay`; never part of /repo).

// VerifC14Cmd is one parsed source command as IncrParse hands it to the sender.
type VerifC14Cmd struct {
	Cmd    string
	Args   [][]byte
	Offset int64
	Db     int
}

// VerifC14StartSender starts the real incremental sender (sendTargetCommand) with resume enabled for
// `source`, writing to `c`. The returned function queues one command. The sender goroutine never exits
// (as in the tool); it idles once nothing more is queued.
func VerifC14StartSender(id int, source, runId, checkpointName string, c redigo.Conn) func(VerifC14Cmd) {
	metric.AddMetric(id)
	ds := &DbSyncer{
		id:                         id,
		node:                       &slot.SyncNode{Id: id, Source: source},
		enableResumeFromBreakPoint: true,
		checkpointName:             checkpointName,
		runId:                      runId,
		sendBuf:                    make(chan cmdDetail, 4096),
	}
	go ds.sendTargetCommand(c)
	return func(x VerifC14Cmd) {
		args := make([]interface{}, len(x.Args))
		for i := range x.Args {
			args[i] = x.Args[i]
		}
		ds.sendBuf <- cmdDetail{Cmd: x.Cmd, Args: args, Offset: x.Offset, Db: x.Db}
	}
}
