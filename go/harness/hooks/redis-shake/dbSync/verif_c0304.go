//go:build verif
// +build verif

package dbSync

// Add-only verification hooks for C03/C04 (injected through `go build -overlay`; never part of /repo).
// They only construct a DbSyncer without network and expose the two goroutine bodies and the queue.

import (
	"bufio"

	"github.com/alibaba/RedisShake/redis-shake/dbSync/slot"
	"github.com/alibaba/RedisShake/redis-shake/metric"
	redigo "github.com/garyburd/redigo/redis"
)

// VerifC03Item mirrors cmdDetail.
type VerifC03Item struct {
	Cmd    string
	Args   [][]byte
	Offset int64
	Db     int
}

// VerifC03NewSyncer builds a DbSyncer the way NewDbSyncer + Sync() leave it when incremental sync starts.
func VerifC03NewSyncer(id int, source, runId, checkpointName string, resume bool, startDb int, base int64, bufCap int) *DbSyncer {
	metric.AddMetric(id)
	ds := &DbSyncer{
		id:                         id,
		node:                       &slot.SyncNode{Id: id, Source: source},
		runId:                      runId,
		enableResumeFromBreakPoint: resume,
		checkpointName:             checkpointName,
		startDbId:                  startDb,
		sourceOffset:               base,
	}
	ds.sendBuf = make(chan cmdDetail, bufCap)
	ds.delayChannel = make(chan *delayNode, 16)
	return ds
}

// VerifC03SetDelayCap replaces the delay channel by one of the given capacity (sender.delay_channel_size).
func (ds *DbSyncer) VerifC03SetDelayCap(n int) { ds.delayChannel = make(chan *delayNode, n) }

// VerifC03Parse runs the real parseSourceCommand; returns when it aborts (it never returns normally).
func (ds *DbSyncer) VerifC03Parse(r *bufio.Reader) (aborted bool) {
	defer func() {
		if e := recover(); e != nil {
			aborted = true
		}
	}()
	ds.parseSourceCommand(r)
	return false
}

// VerifC03Send runs the real sendTargetCommand; returns when it aborts (it never returns normally).
func (ds *DbSyncer) VerifC03Send(c redigo.Conn) (aborted bool) {
	defer func() {
		if e := recover(); e != nil {
			aborted = true
		}
	}()
	ds.sendTargetCommand(c)
	return false
}

func verifC03ToItem(c cmdDetail) VerifC03Item {
	it := VerifC03Item{Cmd: c.Cmd, Offset: c.Offset, Db: c.Db}
	for _, a := range c.Args {
		if b, ok := a.([]byte); ok {
			it.Args = append(it.Args, b)
		} else {
			it.Args = append(it.Args, []byte("<non-bytes>"))
		}
	}
	return it
}

// VerifC03Push puts one item on sendBuf (blocks while the queue is full, like the parser).
func (ds *DbSyncer) VerifC03Push(it VerifC03Item) {
	args := make([]interface{}, 0, len(it.Args))
	for _, a := range it.Args {
		args = append(args, a)
	}
	ds.sendBuf <- cmdDetail{Cmd: it.Cmd, Args: args, Offset: it.Offset, Db: it.Db}
}

// VerifC03TryPush is the non-blocking variant (used only to wake a sender that is being shut down).
func (ds *DbSyncer) VerifC03TryPush(it VerifC03Item) bool {
	select {
	case ds.sendBuf <- cmdDetail{Cmd: it.Cmd, Offset: it.Offset, Db: it.Db}:
		return true
	default:
		return false
	}
}

// VerifC03Drain removes and returns everything currently queued on sendBuf.
func (ds *DbSyncer) VerifC03Drain() []VerifC03Item {
	var out []VerifC03Item
	for {
		select {
		case c := <-ds.sendBuf:
			out = append(out, verifC03ToItem(c))
		default:
			return out
		}
	}
}

func (ds *DbSyncer) VerifC03BufLen() int { return len(ds.sendBuf) }
