//go:build verif
// +build verif

package slotsupervisor

// Add-only verification hooks for C20 (injected through `go build -overlay`; never part of /repo).

import (
	"github.com/alibaba/RedisShake/redis-shake/dbSync/redisConnWrapper"
	"github.com/alibaba/RedisShake/redis-shake/dbSync/slot"
)

// VerifNew builds the supervisor exactly as New does (so the retry depth is the one New chooses)
// and then replaces the connection factory, the way supervisor_test.go does.
func VerifNew(node slot.SyncNode, f redisConnWrapper.RedisConnFactory) SlotSupervisor {
	ss := New(node).(*slotSupervisor)
	ss.redisConnFactory = f
	return ss
}

// VerifMaxRetries reports the retry depth New configured (used only to size the harness'
// runaway guard; the compared value comes from factgen).
func VerifMaxRetries(s SlotSupervisor) int {
	if ss, ok := s.(*slotSupervisor); ok {
		return ss.maxRetries
	}
	return -1
}
