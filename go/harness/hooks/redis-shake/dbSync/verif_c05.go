//go:build verif
// +build verif

package dbSync

import (
	"bufio"
	"io"
	"net"

	"github.com/alibaba/RedisShake/pkg/libs/io/pipe"
	"github.com/alibaba/RedisShake/redis-shake/dbSync/slot"
	"github.com/alibaba/RedisShake/redis-shake/metric"
)

// Add-only verification hooks for property C05 (injected through `go build -overlay`).

// VerifC05PSync is what sendPSyncCmd hands to DbSyncer.Sync, plus the offset it stored.
type VerifC05PSync struct {
	Reader       pipe.Reader
	Nsize        int64
	IsFull       bool
	RunId        string
	Err          error
	SourceOffset int64
	// Done reports that pSyncPipeCopy has returned (runIncrementalSync counts a retry right after it).
	Done func() bool
	// SourceOffsetAtReturn is ds.sourceOffset when sendPSyncCmd returned (SourceOffset; kept separate for the ack kind).
	SourceOffsetAtReturn int64
	// Retries is how often pSyncPipeCopy has returned so far.
	Retries func() int
	// CloseWaitFull declares the full sync finished, as DbSyncer.Sync does before syncCommand.
	CloseWaitFull func()
}

func verifC05Syncer(inOffset int64) *DbSyncer {
	metric.AddMetric(0)
	return &DbSyncer{
		id:           0,
		node:         &slot.SyncNode{Id: 0},
		WaitFull:     make(chan struct{}),
		Restart:      make(chan struct{}),
		sourceOffset: inOffset,
	}
}

// VerifC05SendPSync runs the real sendPSyncCmd (which starts runIncrementalSync/pSyncPipeCopy itself)
// against the source listening at addr.
func VerifC05SendPSync(addr, runId string, inOffset int64) VerifC05PSync {
	ds := verifC05Syncer(inOffset)
	r, n, full, rid, err := ds.sendPSyncCmd(addr, "auth", "", false, runId)
	return VerifC05PSync{Reader: r, Nsize: n, IsFull: full, RunId: rid, Err: err, SourceOffset: ds.sourceOffset,
		SourceOffsetAtReturn: ds.sourceOffset,
		Done:                 func() bool { return ds.fullSyncRetryCounter > 0 },
		Retries:              func() int { return ds.fullSyncRetryCounter },
		CloseWaitFull:        func() { close(ds.WaitFull) }}
}

// VerifC05SendSync runs the real sendSyncCmd.
func VerifC05SendSync(addr string) (net.Conn, int64) {
	ds := verifC05Syncer(0)
	return ds.sendSyncCmd(addr, "auth", "", false)
}

// VerifC05RunIncremental runs the real runIncrementalSync on a caller-supplied reader (exact control of
// what every Read returns). It never returns unless the code aborts; `aborted` is closed in that case.
// `started` receives an accessor of the retry counter (pSyncPipeCopy has returned = the code is in its reconnect loop).
func VerifC05RunIncremental(c net.Conn, src io.Reader, bufSize, rdbSize int, master string, pipew pipe.Writer, aborted chan<- struct{},
	started func(retries func() int)) {
	ds := verifC05Syncer(0)
	if started != nil {
		started(func() int { return ds.fullSyncRetryCounter })
	}
	br := bufio.NewReaderSize(src, bufSize)
	bw := bufio.NewWriterSize(c, 4096)
	defer func() {
		if e := recover(); e != nil {
			close(aborted)
		}
	}()
	ds.runIncrementalSync(c, br, bw, rdbSize, "verif", master, "auth", "", false, pipew, true)
}
