//go:build verif
// +build verif

package latencymonitor

// Add-only verification hooks for C15 (injected through `go build -overlay`; never part of /repo).

// VerifC15Crc16 exposes the latencymonitor copy of crc16.
func VerifC15Crc16(buf string) uint16 { return crc16(buf) }

// VerifC15FindKeyInRange exposes findKeyInRange (loops forever if no key hashes into [min, max]).
func VerifC15FindKeyInRange(min, max int) string { return findKeyInRange(min, max) }
