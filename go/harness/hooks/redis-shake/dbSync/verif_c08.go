//go:build verif
// +build verif

package dbSync

import (
	"bufio"
	"io"
	"net"
	"time"

	"github.com/alibaba/RedisShake/pkg/libs/io/pipe"
	"github.com/alibaba/RedisShake/redis-shake/dbSync/slot"
	"github.com/alibaba/RedisShake/redis-shake/metric"
)

// Add-only verification hooks for property C08 (injected through `go build -overlay`).

// VerifC08Syncer wraps one real DbSyncer whose offset arithmetic is observed from outside.
type VerifC08Syncer struct{ ds *DbSyncer }

// VerifC08New builds the part of a DbSyncer that sendPSyncCmd/runIncrementalSync/pSyncPipeCopy touch.
// `offset` is what Sync() would have left in ds.sourceOffset before the handshake (checkpoint / last commit).
func VerifC08New(id int, offset int64) *VerifC08Syncer {
	metric.AddMetric(id)
	return &VerifC08Syncer{ds: &DbSyncer{
		id:           id,
		node:         &slot.SyncNode{Id: id},
		WaitFull:     make(chan struct{}),
		Restart:      make(chan struct{}),
		sourceOffset: offset,
	}}
}

// CloseWaitFull is what Sync() does once the full sync is over (`close(ds.WaitFull)`).
func (v *VerifC08Syncer) CloseWaitFull() { close(v.ds.WaitFull) }

// TagBase evaluates the base expression parseSourceCommand adds to the decoder position
// (`Offset: ds.sourceOffset + incrOffset`), read the way that goroutine reads it.
func (v *VerifC08Syncer) TagBase() int64 { return v.ds.sourceOffset }

// QuietHour makes the last retry lie more than an hour back (what an hour without a broken connection does
// to the state incrementRetryCounter looks at). Call it only while no connection is being re-established.
func (v *VerifC08Syncer) QuietHour() { v.ds.lastRetry = v.ds.lastRetry.Add(-2 * time.Hour) }

// ParseCommands runs the real parseSourceCommand on the pipe and reports, in order, the Offset it attaches to
// every command it forwards (`ds.sourceOffset + incrOffset`). Returns when parseSourceCommand aborts (it does
// so at the end of the pipe: log.PanicError on the decode error).
func (v *VerifC08Syncer) ParseCommands(r io.Reader, sink func(offset int64)) {
	v.ds.sendBuf = make(chan cmdDetail, 1<<16)
	done := make(chan struct{})
	go func() {
		defer close(done)
		defer func() { recover() }()
		v.ds.parseSourceCommand(bufio.NewReaderSize(r, 1<<12))
	}()
	for {
		select {
		case c := <-v.ds.sendBuf:
			sink(c.Offset)
		case <-done:
			for {
				select {
				case c := <-v.ds.sendBuf:
					sink(c.Offset)
				default:
					return
				}
			}
		}
	}
}

// SendPSync runs the real sendPSyncCmd: dial, listening-port, PSYNC, reply, start of runIncrementalSync.
func (v *VerifC08Syncer) SendPSync(addr, runId string) (pipe.Reader, int64, bool, string, error) {
	return v.ds.sendPSyncCmd(addr, "auth", "", false, runId)
}

// RunIncremental runs the real runIncrementalSync (copy loop, ACK goroutine, reconnect loop) on an
// established connection. It returns only if the code aborts (log.Panic*), reporting true.
func (v *VerifC08Syncer) RunIncremental(c net.Conn, br *bufio.Reader, bw *bufio.Writer, runId, master string,
	pipew pipe.Writer) (aborted bool) {
	defer func() {
		if e := recover(); e != nil {
			aborted = true
		}
	}()
	v.ds.runIncrementalSync(c, br, bw, 0, runId, master, "auth", "", false, pipew, true)
	return false
}
