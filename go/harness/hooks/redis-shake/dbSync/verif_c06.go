//go:build verif
// +build verif

package dbSync

// Add-only verification hooks for C06 (injected through `go build -overlay`; never part of /repo).
// They only construct the receiver and call the real loops.

import (
	"bufio"
	"bytes"

	"github.com/alibaba/RedisShake/redis-shake/metric"
)

// VerifC06FullSync runs the real syncRDBFile (full phase of sync) over an RDB image against `target`.
func VerifC06FullSync(rdbImage []byte, target string) error {
	metric.AddMetric(0)
	ds := &DbSyncer{id: 0}
	reader := bufio.NewReaderSize(bytes.NewReader(rdbImage), 4096)
	return ds.syncRDBFile(reader, []string{target}, "auth", "", int64(len(rdbImage)), false)
}

// VerifC06Cmd is one element the real parseSourceCommand queued for the sender.
type VerifC06Cmd struct {
	Cmd  string
	Args [][]byte
	Db   int
}

// VerifC06Incr feeds a replication command stream to the real parseSourceCommand until the stream ends
// (the loop then aborts through log.Panic, recovered here) and returns what it queued, in order.
func VerifC06Incr(stream []byte, capacity int) (out []VerifC06Cmd, aborted interface{}) {
	metric.AddMetric(0)
	ds := &DbSyncer{id: 0, sendBuf: make(chan cmdDetail, capacity+16)}
	done := make(chan interface{}, 1)
	go func() {
		defer func() { done <- recover() }()
		ds.parseSourceCommand(bufio.NewReader(bytes.NewReader(stream)))
	}()
	aborted = <-done
	for {
		select {
		case c := <-ds.sendBuf:
			v := VerifC06Cmd{Cmd: c.Cmd, Db: c.Db}
			for _, a := range c.Args {
				if b, ok := a.([]byte); ok {
					v.Args = append(v.Args, b)
				}
			}
			out = append(out, v)
		default:
			return
		}
	}
}
