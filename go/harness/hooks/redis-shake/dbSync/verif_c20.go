//go:build verif
// +build verif

package dbSync

// Add-only verification hook for C20 (injected through `go build -overlay`; never part of /repo).

import "github.com/alibaba/RedisShake/redis-shake/dbSync/slot"

// VerifUpdateSlotTopology runs the start-of-sync source re-discovery (DbSyncer.updateSlotTopology, the first
// thing Sync() does after counting the retry) of a syncer built around `node`, and returns the node the
// syncer would then sync from. A failed discovery aborts through log.Panicf.
func VerifUpdateSlotTopology(node slot.SyncNode) *slot.SyncNode {
	ds := &DbSyncer{id: node.Id, node: &node}
	ds.updateSlotTopology()
	return ds.node
}
