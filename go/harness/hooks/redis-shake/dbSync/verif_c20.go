//go:build verif
// +build verif

package dbSync

// Add-only verification hook for C20 (injected through `go build -overlay`; never part of /repo).

import (
	"time"

	"github.com/alibaba/RedisShake/redis-shake/dbSync/slot"
	"github.com/alibaba/RedisShake/redis-shake/metric"
)

// VerifUpdateSlotTopology runs the first two statements of DbSyncer.Sync — the retry is counted
// (incrementRetryCounter), then the source is re-discovered (updateSlotTopology) — on a syncer built around `node`
// that has already been restarted `priorRetries` times, the last time `agedMinutes` ago, and returns the node the syncer
// would then sync from. A failed discovery aborts through log.Panicf.
func VerifUpdateSlotTopology(node slot.SyncNode, priorRetries, agedMinutes int) *slot.SyncNode {
	metric.AddMetric(node.Id)
	ds := &DbSyncer{id: node.Id, node: &node}
	ds.fullSyncRetryCounter = priorRetries
	ds.lastRetry = time.Now().Add(-time.Duration(agedMinutes) * time.Minute)
	ds.incrementRetryCounter()
	ds.updateSlotTopology()
	return ds.node
}
