//go:build verif
// +build verif

package dbSync

// Add-only verification hook for property C07 (injected through `go build -overlay`; never part of /repo).

import (
	"bufio"

	"github.com/alibaba/RedisShake/redis-shake/metric"
)

// VerifC07SyncRDBFile runs the real full-sync worker pool (`syncRDBFile`) of a fresh DbSyncer over `reader`
// against the target address list; configuration comes from conf.Options as in production.
func VerifC07SyncRDBFile(reader *bufio.Reader, target []string, nsize int64) error {
	metric.AddMetric(0)
	ds := &DbSyncer{id: 0}
	return ds.syncRDBFile(reader, target, "auth", "", nsize, false)
}
