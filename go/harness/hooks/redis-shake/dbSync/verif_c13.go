//go:build verif
// +build verif

package dbSync

import (
	"bufio"
	"bytes"

	"github.com/alibaba/RedisShake/pkg/libs/log"
	"github.com/alibaba/RedisShake/redis-shake/metric"
)

// Add-only verification hook for C13 (injected through `go build -overlay`; never part of /repo).

// VerifC13Cmd is one command as parseSourceCommand queued it for the target.
type VerifC13Cmd struct {
	Cmd  string
	Args [][]byte
}

// VerifC13ParseSource feeds a RESP stream to the real parseSourceCommand of a fresh DbSyncer and returns
// what it put on the sending queue until the input ended (the decoder then aborts through log.Panic*,
// which the build normalisation turns into panic(log.VerifExit{})). `crashed` reports any other panic.
func VerifC13ParseSource(stream []byte, maxCmds int) (out []VerifC13Cmd, crashed bool) {
	const id = 1313
	metric.AddMetric(id)
	ds := &DbSyncer{id: id, sendBuf: make(chan cmdDetail, maxCmds+4)}
	done := make(chan struct{})
	go func() {
		defer func() {
			if e := recover(); e != nil {
				if _, ok := e.(log.VerifExit); !ok {
					crashed = true
				}
			}
			close(done)
		}()
		ds.parseSourceCommand(bufio.NewReader(bytes.NewReader(stream)))
	}()
	<-done
	close(ds.sendBuf)
	for c := range ds.sendBuf {
		v := VerifC13Cmd{Cmd: c.Cmd}
		for _, a := range c.Args {
			b, _ := a.([]byte)
			v.Args = append(v.Args, b)
		}
		out = append(out, v)
	}
	return
}
