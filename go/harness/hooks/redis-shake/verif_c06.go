//go:build verif
// +build verif

package run

// Add-only verification hooks for C06 (injected through `go build -overlay`; never part of /repo).

import (
	"bufio"
	"bytes"
	"io"

	"github.com/alibaba/RedisShake/redis-shake/scanner"
	"github.com/garyburd/redigo/redis"
)

// VerifC06Restore runs the real restoreRDBFile (restore mode) over an RDB image against `target`.
func VerifC06Restore(rdbImage []byte, target string) {
	dr := &dbRestorer{id: 0, input: "verif", target: []string{target}}
	reader := bufio.NewReaderSize(bytes.NewReader(rdbImage), 4096)
	dr.restoreRDBFile(reader, dr.target, "auth", "", int64(len(rdbImage)), false)
}

// VerifC06RestoreTail starts the real restoreCommand (the `extra` command tail of restore mode) on
// `stream`. restoreCommand never returns; the caller keeps the stream open and abandons the goroutine.
func VerifC06RestoreTail(stream io.Reader, target string) {
	dr := &dbRestorer{id: 0, input: "verif", target: []string{target}}
	go func() {
		defer func() { recover() }()
		dr.restoreCommand(bufio.NewReader(stream), dr.target, "auth", "", false)
	}()
}

// VerifC06Rump runs one real rump executor (getSourceDbList, fetcher, writer, receiver) between two connections.
func VerifC06Rump(source, target redis.Conn) {
	NewDbRumperExecutor(0, 0, source, target, target, "").exec()
}

// VerifC06Key is one element the real fetcher put on the key channel.
type VerifC06Key struct {
	Db  int
	Key string
}

// VerifC06RumpFetch runs the fetch side of a rump executor exactly as exec() sets it up
// (scanner, getSourceDbList, fetcher → doFetch) and returns what it queued for the writer.
func VerifC06RumpFetch(source redis.Conn) []VerifC06Key {
	dre := NewDbRumperExecutor(0, 0, source, nil, nil, "")
	dre.scanner = scanner.NewScanner(dre.sourceClient, dre.tencentNodeId, dre.executorId)
	var err error
	dre.dbList, dre.keyNumber, err = dre.getSourceDbList()
	if err != nil {
		panic(err)
	}
	dre.keyChan = make(chan *KeyNode, int(dre.keyNumber)+16)
	dre.fetcher()
	var out []VerifC06Key
	for kn := range dre.keyChan {
		out = append(out, VerifC06Key{Db: kn.db, Key: kn.key})
	}
	return out
}
