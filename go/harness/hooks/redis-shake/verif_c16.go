//go:build verif
// +build verif

package run

// Add-only verification hook for C16 (injected through `go build -overlay`; never part of /repo).
//
// VerifC16RunRump builds a dbRumperExecutor exactly as dbRumper.run/exec do (NewDbRumperExecutor, scanner.NewScanner,
// the two channels of capacity 2*scan.key_number) but with connections supplied by the caller and the db list given
// directly (exec obtains it from `info keyspace` through a Go map, i.e. in random order), then runs the three REAL
// stage methods fetcher/writer/receiver, each in its own goroutine as exec does. The only additions are a recover()
// per goroutine (log.Panic* = abort of the whole process in production) and, after an abort of one stage, closing /
// draining the channel that stage would have served, so that the other two stages still run to their end and the
// harness can observe a deterministic outcome. exec's 1 s metric ticker loop is replaced by waiting for the three
// goroutines (bounded by `timeout`).

import (
	"sync"
	"time"

	"github.com/alibaba/RedisShake/redis-shake/configure"
	"github.com/alibaba/RedisShake/redis-shake/scanner"

	"github.com/garyburd/redigo/redis"
)

type VerifC16Outcome struct {
	ScannerNil    bool
	FetcherAbort  bool
	WriterAbort   bool
	ReceiverAbort bool
	Closed        bool  // dre.close, set by receiver when resultChan is closed and drained
	Confirmed     int64 // stat.cCommands
	Written       int64 // stat.wCommands
	Read          int64 // stat.rCommands
	TimedOut      bool  // some stage was still running after `timeout`
	KeyChanLeft   int   // elements left in keyChan at the end (only after a writer abort)
	ResultLeft    int   // elements left in resultChan at the end (only after a receiver abort)
}

func VerifC16RunRump(source, target, bigTarget redis.Conn, dbList []int32, timeout time.Duration) VerifC16Outcome {
	var out VerifC16Outcome
	dre := NewDbRumperExecutor(0, 0, source, target, bigTarget, "")
	dre.scanner = scanner.NewScanner(dre.sourceClient, dre.tencentNodeId, dre.executorId)
	if dre.scanner == nil {
		out.ScannerNil = true
		return out
	}
	defer func() {
		if kfs, ok := dre.scanner.(*scanner.KeyFileScanner); ok {
			kfs.Close()
		}
	}()
	chanSize := int(conf.Options.ScanKeyNumber * 2)
	dre.keyChan = make(chan *KeyNode, chanSize)
	dre.resultChan = make(chan *KeyNode, chanSize)
	dre.dbList = dbList
	dre.keyNumber = 1

	var wg sync.WaitGroup
	var mu sync.Mutex
	wg.Add(3)
	go func() {
		defer wg.Done()
		defer func() {
			if e := recover(); e != nil {
				mu.Lock()
				out.FetcherAbort = true
				mu.Unlock()
				close(dre.keyChan) // let the writer finish what was fetched
			}
		}()
		dre.fetcher()
	}()
	go func() {
		defer wg.Done()
		defer func() {
			if e := recover(); e != nil {
				mu.Lock()
				out.WriterAbort = true
				mu.Unlock()
				close(dre.resultChan) // let the receiver finish what was written
				n := 0
				for range dre.keyChan { // unblock the fetcher
					n++
				}
				mu.Lock()
				out.KeyChanLeft = n
				mu.Unlock()
			}
		}()
		dre.writer()
	}()
	go func() {
		defer wg.Done()
		defer func() {
			if e := recover(); e != nil {
				mu.Lock()
				out.ReceiverAbort = true
				mu.Unlock()
				n := 0
				for range dre.resultChan { // unblock the writer
					n++
				}
				mu.Lock()
				out.ResultLeft = n
				mu.Unlock()
			}
		}()
		dre.receiver()
	}()
	done := make(chan struct{})
	go func() { wg.Wait(); close(done) }()
	select {
	case <-done:
	case <-time.After(timeout):
		mu.Lock()
		out.TimedOut = true
		mu.Unlock()
	}
	mu.Lock()
	defer mu.Unlock()
	out.Closed = dre.close
	out.Confirmed = dre.stat.cCommands.Get()
	out.Written = dre.stat.wCommands.Get()
	out.Read = dre.stat.rCommands.Get()
	return out
}

// VerifC16DbList exposes getSourceDbList (the db list exec hands to the fetcher, and the key total).
func VerifC16DbList(source redis.Conn) ([]int32, int64, error) {
	dre := NewDbRumperExecutor(0, 0, source, nil, nil, "")
	return dre.getSourceDbList()
}
