package main

import (
	"fmt"
	"strings"
)

// C18: alignment units of the backlog stores (the capacity of a backlog is `align(request, unit)`).
func init() { register(genC18) }

func genC18() {
	var b strings.Builder
	b.WriteString(header)
	b.WriteString("namespace RSVerif.Generated.C18\n\n")
	fmt.Fprintf(&b, "/-- `BuffSizeAlign` of pkg/libs/io/backlog/buff.go -/\ndef buffSizeAlign : Nat := %d\n",
		intConst("pkg/libs/io/backlog/buff.go", "BuffSizeAlign"))
	fmt.Fprintf(&b, "/-- `FileSizeAlign` of pkg/libs/io/backlog/file.go -/\ndef fileSizeAlign : Nat := %d\n",
		intConst("pkg/libs/io/backlog/file.go", "FileSizeAlign"))
	b.WriteString("\nend RSVerif.Generated.C18\n")
	writeIfChanged("C18.lean", b.String())

	for _, f := range []struct{ recv, name string }{
		{"", "roffset"}, {"", "woffset"}, {"", "align"},
		{"Backlog", "ReadAt"}, {"Backlog", "readSomeAt"}, {"Backlog", "Write"}, {"Backlog", "writeSome"},
		{"Backlog", "CloseWithError"}, {"Backlog", "DataRange"}, {"Backlog", "NewReader"},
		{"Reader", "Read"}, {"Reader", "IsValid"}, {"Reader", "SeekTo"},
	} {
		addFP("C18."+f.recv+"."+f.name, "pkg/libs/io/backlog/backlog.go", f.recv, f.name)
	}
	for _, f := range []string{"readSomeAt", "writeSome", "dataRange", "close"} {
		addFP("C18.memBuffer."+f, "pkg/libs/io/backlog/buff.go", "memBuffer", f)
		addFP("C18.fileBuffer."+f, "pkg/libs/io/backlog/file.go", "fileBuffer", f)
	}
}
