package main

// C05: buffer sizes of the RDB/command-stream hand-off, extracted from the function bodies that allocate them.

import (
	"fmt"
	"go/ast"
	"strings"
)

func init() { register(genC05) }

// c05Resolve rewrites `pkg.Name` selectors into identifiers `pkg_Name` so that evalInt can fold them.
func c05Resolve(e ast.Expr) ast.Expr {
	switch x := e.(type) {
	case *iotaExpr:
		return &iotaExpr{c05Resolve(x.Expr), x.iota}
	case *ast.SelectorExpr:
		if id, ok := x.X.(*ast.Ident); ok {
			return &ast.Ident{Name: id.Name + "_" + x.Sel.Name}
		}
	case *ast.BinaryExpr:
		return &ast.BinaryExpr{X: c05Resolve(x.X), Op: x.Op, Y: c05Resolve(x.Y)}
	case *ast.ParenExpr:
		return &ast.ParenExpr{X: c05Resolve(x.X)}
	case *ast.UnaryExpr:
		return &ast.UnaryExpr{Op: x.Op, X: c05Resolve(x.X)}
	case *ast.CallExpr:
		args := make([]ast.Expr, len(x.Args))
		for i, a := range x.Args {
			args[i] = c05Resolve(a)
		}
		return &ast.CallExpr{Fun: x.Fun, Args: args}
	}
	return e
}

// c05Env: constants of the function's own file, of redis-shake/common (as utils_X and X) and of bytesize (bytesize_X).
func c05Env(rel string) constEnv {
	env := constEnv{}
	for k, v := range fileConsts(parse("pkg/libs/bytesize/bytesize.go")) {
		env["bytesize_"+k] = c05Resolve(v)
	}
	for k, v := range fileConsts(parse("redis-shake/common/common.go")) {
		env["utils_"+k] = c05Resolve(v)
		env[k] = c05Resolve(v)
	}
	for k, v := range fileConsts(parse(rel)) {
		env[k] = c05Resolve(v)
	}
	return env
}

// c05MakeSize folds X of the idx-th `make([]byte, X)` in the body of the given function.
func c05MakeSize(rel, recv, name string, idx int) int64 {
	fd := funcDecl(rel, recv, name)
	if fd == nil || fd.Body == nil {
		fail("%s: function %s.%s not found", rel, recv, name)
		return 0
	}
	var sizes []ast.Expr
	ast.Inspect(fd.Body, func(n ast.Node) bool {
		ce, ok := n.(*ast.CallExpr)
		if !ok {
			return true
		}
		if id, ok := ce.Fun.(*ast.Ident); ok && id.Name == "make" && len(ce.Args) == 2 {
			if at, ok := ce.Args[0].(*ast.ArrayType); ok && at.Len == nil {
				if el, ok := at.Elt.(*ast.Ident); ok && el.Name == "byte" {
					sizes = append(sizes, ce.Args[1])
				}
			}
		}
		return true
	})
	if idx >= len(sizes) {
		fail("%s: %s has no make([]byte, …) number %d", rel, name, idx)
		return 0
	}
	v, ok := evalInt(c05Resolve(sizes[idx]), c05Env(rel))
	if !ok {
		fail("%s: buffer size in %s is not a foldable constant: %s", rel, name, srcOf(sizes[idx]))
	}
	return v
}

func c05Const(name string) int64 {
	env := c05Env("redis-shake/common/common.go")
	e, ok := env[name]
	if !ok {
		fail("redis-shake/common/common.go: constant %s not found", name)
		return 0
	}
	v, ok := evalInt(e, env)
	if !ok {
		fail("redis-shake/common/common.go: constant %s not foldable", name)
	}
	return v
}

func genC05() {
	var b strings.Builder
	b.WriteString(header)
	b.WriteString("namespace RSVerif.Generated.Handoff\n\n")
	fmt.Fprintf(&b, "/-- `make([]byte, …)` of DbSyncer.runIncrementalSync (redis-shake/dbSync/syncBegin.go): the RDB-phase copy buffer -/\ndef rdbCopyBuf : Nat := %d\n",
		c05MakeSize("redis-shake/dbSync/syncBegin.go", "DbSyncer", "runIncrementalSync", 0))
	fmt.Fprintf(&b, "/-- `make([]byte, …)` of DbSyncer.pSyncPipeCopy: the command-phase copy buffer -/\ndef pipeCopyBuf : Nat := %d\n",
		c05MakeSize("redis-shake/dbSync/syncBegin.go", "DbSyncer", "pSyncPipeCopy", 0))
	fmt.Fprintf(&b, "/-- `make([]byte, …)` of dbDumper.dumpRDBFile (redis-shake/dump.go) -/\ndef dumpCopyBuf : Nat := %d\n",
		c05MakeSize("redis-shake/dump.go", "dbDumper", "dumpRDBFile", 0))
	fmt.Fprintf(&b, "/-- `ReaderBufferSize` of redis-shake/common/common.go (bufio layer and pipe capacity) -/\ndef readerBufferSize : Nat := %d\n", c05Const("ReaderBufferSize"))
	fmt.Fprintf(&b, "/-- `WriterBufferSize` of redis-shake/common/common.go -/\ndef writerBufferSize : Nat := %d\n", c05Const("WriterBufferSize"))
	b.WriteString("\nend RSVerif.Generated.Handoff\n")
	writeIfChanged("Handoff.lean", b.String())

	addFP("C05.waitRdbDump", "redis-shake/common/utils.go", "", "waitRdbDump")
	addFP("C05.SendPSyncContinue", "redis-shake/common/utils.go", "", "SendPSyncContinue")
	addFP("C05.OpenSyncConn", "redis-shake/common/utils.go", "", "OpenSyncConn")
	addFP("C05.Iocopy", "redis-shake/common/utils.go", "", "Iocopy")
	addFP("C05.sendPSyncCmd", "redis-shake/dbSync/syncBegin.go", "DbSyncer", "sendPSyncCmd")
	addFP("C05.sendSyncCmd", "redis-shake/dbSync/syncBegin.go", "DbSyncer", "sendSyncCmd")
	addFP("C05.runIncrementalSync", "redis-shake/dbSync/syncBegin.go", "DbSyncer", "runIncrementalSync")
	addFP("C05.pSyncPipeCopy", "redis-shake/dbSync/syncBegin.go", "DbSyncer", "pSyncPipeCopy")
	addFP("C05.dump", "redis-shake/dump.go", "dbDumper", "dump")
	addFP("C05.sendCmd", "redis-shake/dump.go", "dbDumper", "sendCmd")
	addFP("C05.dumpRDBFile", "redis-shake/dump.go", "dbDumper", "dumpRDBFile")
	addFP("C05.decodeType", "pkg/redis/decoder.go", "Decoder", "decodeType")
	addFP("C05.decodeText", "pkg/redis/decoder.go", "Decoder", "decodeText")
}
