package main

// C14 facts: the checkpoint hash key, the field-name format `<source><sep><suffix>` as the SENDER builds it
// (dbSync/syncIncrease.go: sendTargetCommand) and as ClearCheckpoint deletes it (checkpoint/checkpoint.go),
// which fields each of them touches, the value the sender stores as version, and FcvCheckpoint.
// Output: RSVerif/Generated/CheckpointConsts.lean

import (
	"fmt"
	"go/ast"
	"go/token"
	"regexp"
	"strings"
)

func init() { register(genC14) }

const (
	c14Common = "redis-shake/common/common.go"
	c14Fcv    = "redis-shake/common/fcv.go"
	c14Sender = "redis-shake/dbSync/syncIncrease.go"
	c14Loader = "redis-shake/checkpoint/checkpoint.go"
)

func c14LeanBytes(s string) string {
	var p []string
	for _, c := range []byte(s) {
		p = append(p, fmt.Sprint(c))
	}
	return "[" + strings.Join(p, ", ") + "]"
}

// c14Field describes one `name := fmt.Sprintf("%s<sep>%s", <source expr>, utils.<Const>)`.
type c14Field struct {
	sep, suffixConst, suffix string
	ok                       bool
}

var c14Fmt = regexp.MustCompile(`^%s([^%]*)%s$`)

// c14Sprintfs collects, inside one function, every `ident := fmt.Sprintf(fmt, src, utils.Const)`.
func c14Sprintfs(rel, fn string) map[string]c14Field {
	out := map[string]c14Field{}
	fd := funcDecl(rel, "", fn)
	if fd == nil {
		fd = funcDecl(rel, "DbSyncer", fn)
	}
	if fd == nil {
		fail("%s: function %s not found", rel, fn)
		return out
	}
	ast.Inspect(fd.Body, func(n ast.Node) bool {
		as, ok := n.(*ast.AssignStmt)
		if !ok || as.Tok != token.DEFINE || len(as.Lhs) != 1 || len(as.Rhs) != 1 {
			return true
		}
		id, ok := as.Lhs[0].(*ast.Ident)
		if !ok {
			return true
		}
		call, ok := as.Rhs[0].(*ast.CallExpr)
		if !ok || srcOf(call.Fun) != "fmt.Sprintf" || len(call.Args) != 3 {
			return true
		}
		lit, ok := call.Args[0].(*ast.BasicLit)
		if !ok || lit.Kind != token.STRING {
			return true
		}
		f, _ := evalStr(lit, constEnv{})
		m := c14Fmt.FindStringSubmatch(f)
		sel, ok2 := call.Args[2].(*ast.SelectorExpr)
		if m == nil || !ok2 || srcOf(sel.X) != "utils" {
			return true
		}
		out[id.Name] = c14Field{sep: m[1], suffixConst: sel.Sel.Name, suffix: strConst(c14Common, sel.Sel.Name), ok: true}
		return true
	})
	return out
}

// c14Calls returns the argument lists of every `<recv>.<method>("<cmd>", …)` call in a function.
func c14Calls(rel, fn, cmd string) [][]ast.Expr {
	var out [][]ast.Expr
	fd := funcDecl(rel, "", fn)
	if fd == nil {
		fd = funcDecl(rel, "DbSyncer", fn)
	}
	if fd == nil {
		return out
	}
	ast.Inspect(fd.Body, func(n ast.Node) bool {
		call, ok := n.(*ast.CallExpr)
		if !ok || len(call.Args) < 1 {
			return true
		}
		sel, ok := call.Fun.(*ast.SelectorExpr)
		if !ok || (sel.Sel.Name != "Send" && sel.Sel.Name != "Do") {
			return true
		}
		lit, ok := call.Args[0].(*ast.BasicLit)
		if !ok || lit.Kind != token.STRING {
			return true
		}
		s, _ := evalStr(lit, constEnv{})
		if strings.EqualFold(s, cmd) {
			out = append(out, call.Args[1:])
		}
		return true
	})
	return out
}

func c14StructField(rel, varName, field string) int64 {
	f := parse(rel)
	env := fileConsts(f)
	e, ok := env[varName]
	if !ok {
		fail("%s: %s not found", rel, varName)
		return 0
	}
	if ie, ok := e.(*iotaExpr); ok {
		e = ie.Expr
	}
	cl, ok := e.(*ast.CompositeLit)
	if !ok {
		fail("%s: %s is not a composite literal", rel, varName)
		return 0
	}
	for _, el := range cl.Elts {
		kv, ok := el.(*ast.KeyValueExpr)
		if !ok {
			continue
		}
		if k, ok := kv.Key.(*ast.Ident); ok && k.Name == field {
			v, ok := evalInt(kv.Value, env)
			if !ok {
				fail("%s: %s.%s not foldable", rel, varName, field)
			}
			return v
		}
	}
	fail("%s: %s.%s not found", rel, varName, field)
	return 0
}

func genC14() {
	var b strings.Builder
	b.WriteString(header)
	b.WriteString("namespace RSVerif.Generated.C14\n\n")
	for _, c := range []struct{ lean, name string }{
		{"ckptKey", "CheckpointKey"}, {"ckptOffset", "CheckpointOffset"},
		{"ckptRunId", "CheckpointRunId"}, {"ckptVersion", "CheckpointVersion"},
	} {
		v := strConst(c14Common, c.name)
		fmt.Fprintf(&b, "/-- `%s` of %s = %q -/\ndef %s : List UInt8 := %s\n", c.name, c14Common, v, c.lean, c14LeanBytes(v))
	}
	fmt.Fprintf(&b, "/-- `FcvCheckpoint.CurrentVersion` of %s -/\ndef fcvCheckpointCurrent : Int := %d\n", c14Fcv,
		c14StructField(c14Fcv, "FcvCheckpoint", "CurrentVersion"))
	fmt.Fprintf(&b, "/-- `FcvCheckpoint.FeatureCompatibleVersion` of %s -/\ndef fcvCheckpointCompatible : Int := %d\n", c14Fcv,
		c14StructField(c14Fcv, "FcvCheckpoint", "FeatureCompatibleVersion"))

	// the sender: which hash fields it `hset`s (in program order) and with what kind of value
	wf := c14Sprintfs(c14Sender, "sendTargetCommand")
	b.WriteString("\n/-- sender (`sendTargetCommand`): every `hset <checkpointName> <field> <value>`, in program order, as\n")
	b.WriteString("    (separator, suffix, value kind: current-version = the constant FcvCheckpoint.CurrentVersion, var = a run-time value); the field name is `<source> ++ separator ++ suffix` -/\n")
	b.WriteString("def ckptSenderHsets : List (List UInt8 × List UInt8 × String) := [")
	n := 0
	for _, args := range c14Calls(c14Sender, "sendTargetCommand", "hset") {
		if len(args) != 3 {
			fail("%s: hset with %d arguments in sendTargetCommand", c14Sender, len(args)+1)
			continue
		}
		if srcOf(args[0]) != "ds.checkpointName" {
			continue
		}
		id, ok := args[1].(*ast.Ident)
		fld, ok2 := wf[c14SrcOfIdent(id, ok)]
		if !ok || !ok2 {
			fail("%s: sender hset field %s is not a `%%s<sep>%%s` Sprintf of a utils constant", c14Sender, srcOf(args[1]))
			continue
		}
		if n > 0 {
			b.WriteString(",")
		}
		kind := "var" // a run-time value of the sender (run id, offset)
		if srcOf(args[2]) == "utils.FcvCheckpoint.CurrentVersion" {
			kind = "current-version"
		}
		fmt.Fprintf(&b, "\n  (%s, %s, %s)", c14LeanBytes(fld.sep), c14LeanBytes(fld.suffix), leanStr(kind))
		n++
	}
	b.WriteString("]\n")
	if n == 0 {
		fail("%s: no checkpoint hset found in sendTargetCommand", c14Sender)
	}

	// ClearCheckpoint: the fields of the `hdel`
	cf := c14Sprintfs(c14Loader, "ClearCheckpoint")
	b.WriteString("\n/-- `ClearCheckpoint`: the fields of its `hdel <checkpointName> …` call(s), as (separator, suffix) -/\n")
	b.WriteString("def ckptClearHdel : List (List UInt8 × List UInt8) := [")
	n = 0
	hd := c14Calls(c14Loader, "ClearCheckpoint", "hdel")
	if len(hd) == 0 {
		fail("%s: no hdel in ClearCheckpoint", c14Loader)
	}
	for _, args := range hd {
		for _, a := range args[1:] {
			id, ok := a.(*ast.Ident)
			fld, ok2 := cf[c14SrcOfIdent(id, ok)]
			if !ok || !ok2 {
				fail("%s: hdel field %s is not a `%%s<sep>%%s` Sprintf of a utils constant", c14Loader, srcOf(a))
				continue
			}
			if n > 0 {
				b.WriteString(", ")
			}
			fmt.Fprintf(&b, "(%s, %s)", c14LeanBytes(fld.sep), c14LeanBytes(fld.suffix))
			n++
		}
	}
	b.WriteString("]\n")
	b.WriteString("\nend RSVerif.Generated.C14\n")
	writeIfChanged("CheckpointConsts.lean", b.String())

	addFP("C14.LoadCheckpoint", c14Loader, "", "LoadCheckpoint")
	addFP("C14.fetchCheckpoint", c14Loader, "", "fetchCheckpoint")
	addFP("C14.ClearCheckpoint", c14Loader, "", "ClearCheckpoint")
	addFP("C14.ParseKeyspace", "redis-shake/common/command.go", "", "ParseKeyspace")
}

func c14SrcOfIdent(id *ast.Ident, ok bool) string {
	if !ok || id == nil {
		return ""
	}
	return id.Name
}
