module factgen

go 1.21
