package main

// C10: facts of pkg/redis/{encoder,resp}.go — the bounds of the pre-rendered decimal table `imap`
// (its length, the offset used when it is filled, the offset used when it is looked up) and the five
// RESP type bytes. Emitted as Generated/RespConsts.lean.

import (
	"fmt"
	"go/ast"
	"go/token"
	"strings"
)

func init() { register(genC10) }

// c10FindAssign returns the right-hand side of the first `lhs = …` / `lhs := …` inside fn whose
// left-hand side prints as lhs.
func c10FindAssign(fn *ast.FuncDecl, lhs string) ast.Expr {
	var out ast.Expr
	if fn == nil || fn.Body == nil {
		return nil
	}
	ast.Inspect(fn.Body, func(n ast.Node) bool {
		if out != nil {
			return false
		}
		if as, ok := n.(*ast.AssignStmt); ok && len(as.Lhs) == 1 && len(as.Rhs) == 1 {
			if srcOf(as.Lhs[0]) == lhs {
				out = as.Rhs[0]
				return false
			}
		}
		return true
	})
	return out
}

// c10OffsetOf matches `<ident> + K` / `<ident> - K` (K a foldable constant) and returns the signed K.
func c10OffsetOf(e ast.Expr, ident string, env constEnv) (int64, bool) {
	if p, ok := e.(*ast.ParenExpr); ok {
		return c10OffsetOf(p.X, ident, env)
	}
	be, ok := e.(*ast.BinaryExpr)
	if !ok {
		if id, ok := e.(*ast.Ident); ok && id.Name == ident {
			return 0, true
		}
		return 0, false
	}
	id, ok := be.X.(*ast.Ident)
	if !ok || id.Name != ident {
		return 0, false
	}
	k, ok := evalInt(be.Y, env)
	if !ok {
		return 0, false
	}
	switch be.Op {
	case token.ADD:
		return k, true
	case token.SUB:
		return -k, true
	}
	return 0, false
}

func genC10() {
	const enc = "pkg/redis/encoder.go"
	const rsp = "pkg/redis/resp.go"
	f := parse(enc)
	env := fileConsts(f)

	var imapLen, fillOff, lookOff int64
	// func init() { imap = make([]string, LEN); for i … { imap[i] = strconv.Itoa(i - K) } }
	ini := funcDecl(enc, "", "init")
	if e := c10FindAssign(ini, "imap"); e == nil {
		fail("%s: `imap = make(...)` not found in init()", enc)
	} else if ce, ok := e.(*ast.CallExpr); !ok || srcOf(ce.Fun) != "make" || len(ce.Args) != 2 {
		fail("%s: imap is not made with make([]string, n)", enc)
	} else if v, ok := evalInt(ce.Args[1], env); !ok {
		fail("%s: imap length not foldable", enc)
	} else {
		imapLen = v
	}
	if e := c10FindAssign(ini, "imap[i]"); e == nil {
		fail("%s: `imap[i] = …` not found in init()", enc)
	} else if ce, ok := e.(*ast.CallExpr); !ok || srcOf(ce.Fun) != "strconv.Itoa" || len(ce.Args) != 1 {
		fail("%s: imap[i] is not strconv.Itoa(…)", enc)
	} else if k, ok := c10OffsetOf(ce.Args[0], "i", env); !ok {
		fail("%s: imap[i] argument is not `i ± const`", enc)
	} else {
		fillOff = k
	}
	// func itos(i int64) string { if n := i + K; n >= 0 && n < int64(len(imap)) { return imap[n] } … }
	it := funcDecl(enc, "", "itos")
	if e := c10FindAssign(it, "n"); e == nil {
		fail("%s: `n := i + K` not found in itos()", enc)
	} else if k, ok := c10OffsetOf(e, "i", env); !ok {
		fail("%s: itos index is not `i ± const`", enc)
	} else {
		lookOff = k
	}
	// the guard and the indexing of itos must still have the shape the model assumes
	if it != nil {
		s := srcOf(it.Body)
		for _, want := range []string{"n >= 0 && n < int64(len(imap))", "return imap[n]", "strconv.FormatInt(i, 10)"} {
			if !strings.Contains(s, want) {
				fail("%s: itos() no longer contains `%s`", enc, want)
			}
		}
	}

	var b strings.Builder
	b.WriteString(header)
	b.WriteString("namespace RSVerif.Generated.C10\n\n")
	fmt.Fprintf(&b, "/-- `len(imap)` (pkg/redis/encoder.go, init) -/\ndef imapLen : Int := %d\n", imapLen)
	fmt.Fprintf(&b, "/-- `imap[i] = strconv.Itoa(i + imapFillOff)` (pkg/redis/encoder.go, init) -/\ndef imapFillOff : Int := %d\n", fillOff)
	fmt.Fprintf(&b, "/-- `itos`: looks up `imap[i + imapLookupOff]` (pkg/redis/encoder.go) -/\ndef imapLookupOff : Int := %d\n", lookOff)
	for _, c := range [][2]string{{"respTypeString", "typeString"}, {"respTypeError", "typeError"}, {"respTypeInt", "typeInt"},
		{"respTypeBulkBytes", "typeBulkBytes"}, {"respTypeArray", "typeArray"}} {
		fmt.Fprintf(&b, "/-- `%s` of %s -/\ndef %s : Nat := %d\n", c[1], rsp, c[0], intConst(rsp, c[1]))
	}
	b.WriteString("\nend RSVerif.Generated.C10\n")
	writeIfChanged("RespConsts.lean", b.String())

	for _, fn := range []string{"decodeResp", "decodeType", "decodeText", "decodeInt", "decodeBulkBytes", "decodeArray", "decodeSingleLineBulkBytesArray"} {
		addFP("C10.Decoder."+fn, "pkg/redis/decoder.go", "Decoder", fn)
	}
	for _, fn := range []string{"encodeResp", "encodeText", "encodeString", "encodeInt", "encodeBulkBytes", "encodeArray"} {
		addFP("C10.encoder."+fn, enc, "encoder", fn)
	}
	addFP("C10.itos", enc, "", "itos")
	addFP("C10.MustDecodeOpt", "pkg/redis/decoder.go", "", "MustDecodeOpt")
	addFP("C10.ParseArgs", "pkg/redis/handler.go", "", "ParseArgs")
	addFP("C10.ChangeArgsToResp", "pkg/redis/handler.go", "", "ChangeArgsToResp")
}
