package main

import (
	"fmt"
	"strings"
)

type constSpec struct {
	lean, rel, name string
	str             bool
}

// Constants the models depend on. Each becomes `def <lean> : Int/String` in Generated/Consts.lean.
var constSpecs = []constSpec{
	{"rdbFromVersion", "pkg/rdb/reader.go", "FromVersion", false},
	{"rdbToVersion", "pkg/rdb/reader.go", "ToVersion", false},
	{"cupcakeVersion", "pkg/libs/cupcake/rdb/encoder.go", "Version", false},
	{"commonRDBVersion", "redis-shake/common/common.go", "RDBVersion", false},
}

func init() { register(genAll) }

func genAll() {
	var b strings.Builder
	b.WriteString(header)
	b.WriteString("namespace RSVerif.Generated\n\n")
	for _, c := range constSpecs {
		if c.str {
			fmt.Fprintf(&b, "/-- `%s` of %s -/\ndef %s : String := %s\n", c.name, c.rel, c.lean, leanStr(strConst(c.rel, c.name)))
		} else {
			fmt.Fprintf(&b, "/-- `%s` of %s -/\ndef %s : Int := %d\n", c.name, c.rel, c.lean, intConst(c.rel, c.name))
		}
	}
	b.WriteString("\nend RSVerif.Generated\n")
	writeIfChanged("Consts.lean", b.String())
}
