package main

// C16 (rump): no tables or constants are translated — the model is tied to the code by the differential run. Only the
// fingerprints of the modelled functions are recorded (Generated/fingerprints.txt).

func init() { register(genC16) }

func genC16() {
	addFP("C16.rump.fetcher", "redis-shake/rump.go", "dbRumperExecutor", "fetcher")
	addFP("C16.rump.doFetch", "redis-shake/rump.go", "dbRumperExecutor", "doFetch")
	addFP("C16.rump.writer", "redis-shake/rump.go", "dbRumperExecutor", "writer")
	addFP("C16.rump.writeSend", "redis-shake/rump.go", "dbRumperExecutor", "writeSend")
	addFP("C16.rump.receiver", "redis-shake/rump.go", "dbRumperExecutor", "receiver")
	addFP("C16.split.RestoreBigkey", "redis-shake/common/split.go", "", "RestoreBigkey")
	addFP("C16.speed.StartQoS", "redis-shake/common/speed.go", "", "StartQoS")
	addFP("C16.scanner.NewScanner", "redis-shake/scanner/scanner.go", "", "NewScanner")
	addFP("C16.scanner.normal.ScanKey", "redis-shake/scanner/normalScanner.go", "NormalScanner", "ScanKey")
	addFP("C16.scanner.normal.EndNode", "redis-shake/scanner/normalScanner.go", "NormalScanner", "EndNode")
	addFP("C16.scanner.keyfile.ScanKey", "redis-shake/scanner/keyFileScanner.go", "KeyFileScanner", "ScanKey")
	addFP("C16.scanner.keyfile.EndNode", "redis-shake/scanner/keyFileScanner.go", "KeyFileScanner", "EndNode")
}
