package main

// C17 facts from src/redis-shake/decode.go: the printable range of toText, the JSON field names (struct tags,
// in declaration order) and the "type" literal of every record kind, the channel size.

import (
	"path/filepath"
	"fmt"
	"go/ast"
	"go/token"
	"reflect"
	"strconv"
	"strings"
)

func init() { register(genC17) }

const c17DecodeRel = "redis-shake/decode.go"

type c17RecFacts struct {
	fields   [][2]string // json tag, Go type
	typeName string
}

// c17StructFacts reads the first anonymous struct composite literal below n.
func c17StructFacts(n ast.Node, what string) c17RecFacts {
	var out c17RecFacts
	found := false
	ast.Inspect(n, func(x ast.Node) bool {
		if found {
			return false
		}
		cl, ok := x.(*ast.CompositeLit)
		if !ok {
			return true
		}
		st, ok := cl.Type.(*ast.StructType)
		if !ok {
			return true
		}
		found = true
		var flat []*ast.Field
		for _, f := range st.Fields.List {
			if len(f.Names) == 0 {
				// an embedded struct of the package: encoding/json promotes its fields in place
				if id, ok := f.Type.(*ast.Ident); ok {
					if est := c17NamedStruct(id.Name); est != nil {
						flat = append(flat, est.Fields.List...)
						continue
					}
				}
			}
			flat = append(flat, f)
		}
		for _, f := range flat {
			tag := ""
			if f.Tag != nil {
				if s, err := strconv.Unquote(f.Tag.Value); err == nil {
					tag = reflect.StructTag(s).Get("json")
				}
			}
			if i := strings.Index(tag, ","); i >= 0 {
				tag = tag[:i] // options such as omitempty are reported as part of the type below
			}
			ty := srcOf(f.Type)
			for _, nm := range f.Names {
				t := tag
				if t == "" {
					t = nm.Name
				}
				out.fields = append(out.fields, [2]string{t, ty})
			}
		}
		// the record's type name: the first string literal among the element expressions (directly, or as an argument of a
		// constructor call that fills the leading fields)
		for _, e := range cl.Elts {
			if out.typeName != "" {
				break
			}
			ast.Inspect(e, func(y ast.Node) bool {
				if bl, ok := y.(*ast.BasicLit); ok && bl.Kind == token.STRING && out.typeName == "" {
					out.typeName, _ = strconv.Unquote(bl.Value)
				}
				return out.typeName == ""
			})
		}
		return false
	})
	if !found {
		fail("%s: no anonymous struct literal found for %s", c17DecodeRel, what)
	}
	return out
}

// c17NamedStruct: `type <name> struct {…}` declared in the package of decode.go
func c17NamedStruct(name string) *ast.StructType {
	for _, file := range pkgFiles(filepath.Dir(c17DecodeRel)) {
		f := parseQuiet(file)
		if f == nil {
			continue
		}
		for _, d := range f.Decls {
			if gd, ok := d.(*ast.GenDecl); ok && gd.Tok == token.TYPE {
				for _, sp := range gd.Specs {
					if ts, ok := sp.(*ast.TypeSpec); ok && ts.Name.Name == name {
						if st, ok := ts.Type.(*ast.StructType); ok {
							return st
						}
					}
				}
			}
		}
	}
	return nil
}

// c17ScoreType: `type zsetScore T` and the string constants inside `func (zsetScore) MarshalJSON` (written as
// []byte(`"inf"`) — the JSON quotes are stripped)
func c17ScoreType() (string, []string) {
	f := parse(c17DecodeRel)
	if f == nil {
		return "", nil
	}
	under := ""
	for _, d := range f.Decls {
		if gd, ok := d.(*ast.GenDecl); ok && gd.Tok == token.TYPE {
			for _, sp := range gd.Specs {
				if ts, ok := sp.(*ast.TypeSpec); ok && ts.Name.Name == "zsetScore" {
					under = srcOf(ts.Type)
				}
			}
		}
	}
	var spell []string
	if fd := funcDecl(c17DecodeRel, "zsetScore", "MarshalJSON"); fd != nil && fd.Body != nil {
		ast.Inspect(fd.Body, func(n ast.Node) bool {
			if bl, ok := n.(*ast.BasicLit); ok && bl.Kind == token.STRING {
				if v, ok := evalStr(bl, nil); ok {
					spell = append(spell, leanStr(strings.Trim(v, "\"")))
				}
			}
			return true
		})
	}
	return under, spell
}

func genC17() {
	fd := funcDecl(c17DecodeRel, "CmdDecode", "decoderMain")
	var b strings.Builder
	b.WriteString(header)
	b.WriteString("namespace RSVerif.Generated.C17\n\n")
	lo, hi, sub := int64(-1), int64(-1), int64(-1)
	recs := map[string]c17RecFacts{}
	if fd == nil {
		fail("%s: CmdDecode.decoderMain not found", c17DecodeRel)
	} else {
		// toText: `toText := func(p []byte) string { … case c >= '#' && c <= '~': b.WriteByte(c); default: b.WriteByte('.') … }`
		// inside decoderMain, or the same body as a function/method of the package (switch or if/else form)
		var body ast.Node
		ast.Inspect(fd.Body, func(x ast.Node) bool {
			as, ok := x.(*ast.AssignStmt)
			if !ok || len(as.Lhs) != 1 || len(as.Rhs) != 1 {
				return true
			}
			if id, ok := as.Lhs[0].(*ast.Ident); ok && id.Name == "toText" {
				body = as.Rhs[0]
				return false
			}
			return true
		})
		if body == nil {
			if f2 := funcDecl(c17DecodeRel, "", "toText"); f2 != nil {
				body = f2
			} else if f2 := funcDecl(c17DecodeRel, "CmdDecode", "toText"); f2 != nil {
				body = f2
			}
			funcDecl(c17DecodeRel, "CmdDecode", "decoderMain") // constants context back to decoderMain
		}
		if body != nil {
			ast.Inspect(body, func(y ast.Node) bool {
				be, ok := y.(*ast.BinaryExpr)
				if !ok || be.Op != token.LAND || lo >= 0 {
					return true
				}
				l, ok1 := be.X.(*ast.BinaryExpr)
				r, ok2 := be.Y.(*ast.BinaryExpr)
				if !ok1 || !ok2 {
					return true
				}
				if v, ok := evalInt(l.Y, nil); ok {
					switch l.Op {
					case token.GEQ:
						lo = v
					case token.GTR:
						lo = v + 1
					}
				}
				if v, ok := evalInt(r.Y, nil); ok {
					switch r.Op {
					case token.LEQ:
						hi = v
					case token.LSS:
						hi = v - 1
					}
				}
				return true
			})
			// the substitute: the one character constant written that is not a bound of the range
			subs := map[int64]bool{}
			ast.Inspect(body, func(z ast.Node) bool {
				if ce, ok := z.(*ast.CallExpr); ok && len(ce.Args) == 1 && strings.HasSuffix(srcOf(ce.Fun), "WriteByte") {
					if v, ok := evalInt(ce.Args[0], nil); ok {
						subs[v] = true
					}
				}
				return true
			})
			if len(subs) == 1 {
				for v := range subs {
					sub = v
				}
			}
		}
		// record kinds: the aux branch (if e.Type == rdb.RdbFlagAUX {...}) and the type switch cases
		ast.Inspect(fd.Body, func(x ast.Node) bool {
			switch n := x.(type) {
			case *ast.IfStmt:
				if strings.Contains(srcOf(n.Cond), "RdbFlagAUX") {
					recs["Aux"] = c17StructFacts(n.Body, "the aux branch")
					return false
				}
			case *ast.TypeSwitchStmt:
				for _, c := range n.Body.List {
					cc := c.(*ast.CaseClause)
					if len(cc.List) != 1 {
						continue
					}
					name := srcOf(cc.List[0])
					if strings.HasPrefix(name, "rdb.") {
						recs[strings.TrimPrefix(name, "rdb.")] = c17StructFacts(cc, "case "+name)
					}
				}
				return false
			}
			return true
		})
	}
	if lo < 0 || hi < 0 || sub < 0 {
		fail("%s: toText's `case c >= LO && c <= HI` / default substitute not recognised", c17DecodeRel)
	}
	// the score type of the sorted-set line: `type zsetScore float64` with a MarshalJSON that spells the non-finite values
	under, spell := c17ScoreType()
	fmt.Fprintf(&b, "/-- underlying type of `zsetScore` (\"\" = no such type) and the string literals its MarshalJSON returns, in source order -/\n")
	fmt.Fprintf(&b, "def zsetScoreUnderlying : String := %s\ndef zsetScoreSpellings : List String := [%s]\n\n", leanStr(under), strings.Join(spell, ", "))
	fmt.Fprintf(&b, "/-- toText of decoderMain keeps bytes in [decodeTextLo, decodeTextHi] and writes decodeTextSub otherwise -/\n")
	nat := func(v int64) int64 { // (a value that was not found is reported through fail(); the file must still be valid Lean)
		if v < 0 {
			return 0
		}
		return v
	}
	fmt.Fprintf(&b, "def decodeTextLo : Nat := %d\ndef decodeTextHi : Nat := %d\ndef decodeTextSub : Nat := %d\n\n", nat(lo), nat(hi), nat(sub))
	fmt.Fprintf(&b, "/-- `RDBPipeSize` of redis-shake/base (capacity of ipipe and opipe) -/\ndef decodePipeSize : Nat := %d\n\n", intConst("redis-shake/base/runner.go", "RDBPipeSize"))
	for _, k := range []string{"Aux", "String", "List", "Hash", "Set", "ZSet"} {
		r, ok := recs[k]
		if !ok {
			fail("%s: record kind %s not found in decoderMain", c17DecodeRel, k)
		}
		fmt.Fprintf(&b, "/-- json tags and Go types of the struct marshalled for %s, in declaration order -/\n", k)
		fmt.Fprintf(&b, "def decodeFields%s : List (String × String) := [", k)
		for i, f := range r.fields {
			if i > 0 {
				b.WriteString(", ")
			}
			fmt.Fprintf(&b, "(%s, %s)", leanStr(f[0]), leanStr(f[1]))
		}
		b.WriteString("]\n")
		fmt.Fprintf(&b, "def decodeTypeName%s : String := %s\n\n", k, leanStr(r.typeName))
	}
	b.WriteString("end RSVerif.Generated.C17\n")
	writeIfChanged("DecodeFacts.lean", b.String())
	addFP("C17.decoderMain", c17DecodeRel, "CmdDecode", "decoderMain")
	addFP("C17.decode", c17DecodeRel, "CmdDecode", "decode")
}
