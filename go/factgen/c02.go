package main

import (
	"fmt"
	"go/ast"
	"go/token"
	"strings"
)

// C02: the literals the restore model hard-codes, re-read from redis-shake/common/utils.go on every run:
//   - every `count == N` of restoreBigRdbEntry / restoreQuicklistEntry (the flush batch size),
//   - the arguments of `CompareVersion(conf.Options.TargetVersion, "5.0", 2)` in RestoreRdbEntry.
func init() { register(genC02) }

func c02LeanBytes(s string) string {
	var parts []string
	for _, c := range []byte(s) {
		parts = append(parts, fmt.Sprintf("%d", c))
	}
	return "[" + strings.Join(parts, ", ") + "]"
}

func genC02() {
	const rel = "redis-shake/common/utils.go"
	var batches []string
	for _, fn := range []string{"restoreBigRdbEntry", "restoreQuicklistEntry"} {
		fd := funcDecl(rel, "", fn)
		if fd == nil {
			fail("%s: function %s not found", rel, fn)
			continue
		}
		n := 0
		for _, scope := range withCallees(rel, fd) {
			if scope != fd && (scope.Name.Name == "restoreBigRdbEntry" || scope.Name.Name == "restoreQuicklistEntry" || scope.Name.Name == "flushAndCheckReply") {
				continue
			}
			ast.Inspect(scope, func(x ast.Node) bool {
				be, ok := x.(*ast.BinaryExpr)
				if !ok || be.Op != token.EQL {
					return true
				}
				id, ok := be.X.(*ast.Ident)
				if !ok || id.Name != "count" {
					return true
				}
				if v, ok := evalInt(be.Y, constEnv{}); ok {
					batches = append(batches, fmt.Sprintf("%d", v))
					n++
				}
				return true
			})
		}
		if n == 0 {
			fail("%s: no `count == N` comparison found in %s", rel, fn)
		}
	}
	verRef, verLevel := "", int64(-1)
	if fd := funcDecl(rel, "", "RestoreRdbEntry"); fd == nil {
		fail("%s: function RestoreRdbEntry not found", rel)
	} else {
		ast.Inspect(fd, func(x ast.Node) bool {
			ce, ok := x.(*ast.CallExpr)
			if !ok || len(ce.Args) != 3 {
				return true
			}
			if id, ok := ce.Fun.(*ast.Ident); ok && id.Name == "CompareVersion" {
				if s, ok := evalStr(ce.Args[1], constEnv{}); ok {
					verRef = s
				}
				if v, ok := evalInt(ce.Args[2], constEnv{}); ok {
					verLevel = v
				}
			}
			return true
		})
		if verLevel < 0 {
			fail("%s: CompareVersion(_, <string>, <int>) call not found in RestoreRdbEntry", rel)
		}
	}
	var b strings.Builder
	b.WriteString(header)
	b.WriteString("namespace RSVerif.Generated.C02\n\n")
	fmt.Fprintf(&b, "/-- every `count == N` in restoreBigRdbEntry and restoreQuicklistEntry and the unexported helpers they call, in source order -/\ndef flushBatches : List Nat := [%s]\n", strings.Join(batches, ", "))
	fmt.Fprintf(&b, "/-- second argument of the CompareVersion call of RestoreRdbEntry (%q), as bytes -/\ndef versionRef : List UInt8 := %s\n", verRef, c02LeanBytes(verRef))
	fmt.Fprintf(&b, "/-- third argument of that call -/\ndef versionLevel : Int := %d\n", verLevel)
	b.WriteString("\nend RSVerif.Generated.C02\n")
	writeIfChanged("C02.lean", b.String())

	for _, f := range []string{"RestoreRdbEntry", "restoreBigRdbEntry", "restoreQuicklistEntry", "flushAndCheckReply", "set", "Float64ToByte"} {
		addFP("C02."+f, rel, "", f)
	}
	addFP("C02.CompareVersion", "redis-shake/common/common.go", "", "CompareVersion")
}
