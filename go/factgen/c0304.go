package main

// C03/C04: facts of the incremental parser + sender (dbSync/syncIncrease.go, dbSync/syncUtils.go,
// common/common.go, common/fcv.go, main/main.go) -> RSVerif/Generated/SyncConsts.lean

import (
	"path/filepath"
	"fmt"
	"go/ast"
	"go/token"
	"strings"
)

func init() { register(genC0304) }

const (
	c0304Utils = "redis-shake/dbSync/syncUtils.go"
	c0304Incr  = "redis-shake/dbSync/syncIncrease.go"
	c0304Comm  = "redis-shake/common/common.go"
	c0304Fcv   = "redis-shake/common/fcv.go"
	c0304Main  = "redis-shake/main/main.go"
)

// unwrap the iota wrapper fileConsts puts around every initialiser
func c0304UnwrapIota(e ast.Expr) ast.Expr {
	if ie, ok := e.(*iotaExpr); ok {
		return ie.Expr
	}
	return e
}

// barrierMap = map[string]string{ "select": barrierStatusAdd, ... } in source order
func c0304BarrierMap() [][2]string {
	f := parse(c0304Utils)
	if f == nil {
		return nil
	}
	env := fileConsts(f)
	e, ok := env["barrierMap"]
	if !ok {
		fail("%s: barrierMap not found", c0304Utils)
		return nil
	}
	cl, ok := c0304UnwrapIota(e).(*ast.CompositeLit)
	if !ok {
		fail("%s: barrierMap is not a composite literal", c0304Utils)
		return nil
	}
	var out [][2]string
	for _, el := range cl.Elts {
		kv, ok := el.(*ast.KeyValueExpr)
		if !ok {
			fail("%s: barrierMap element is not key: value", c0304Utils)
			return nil
		}
		k, ok1 := evalStr(kv.Key, env)
		v, ok2 := evalStr(kv.Value, env)
		if !ok1 || !ok2 {
			fail("%s: barrierMap element not foldable", c0304Utils)
			return nil
		}
		out = append(out, [2]string{k, v})
	}
	return out
}

// duration expression `N * time.Millisecond` etc. -> milliseconds
func c0304DurationMs(e ast.Expr) (int64, bool) {
	switch x := e.(type) {
	case *ast.ParenExpr:
		return c0304DurationMs(x.X)
	case *ast.BasicLit:
		return evalInt(x, constEnv{})
	case *ast.SelectorExpr:
		if id, ok := x.X.(*ast.Ident); ok && id.Name == "time" {
			switch x.Sel.Name {
			case "Millisecond":
				return 1, true
			case "Second":
				return 1000, true
			case "Minute":
				return 60000, true
			}
		}
	case *ast.CallExpr: // time.Duration(500)
		if len(x.Args) == 1 {
			return c0304DurationMs(x.Args[0])
		}
	case *ast.BinaryExpr:
		if x.Op == token.MUL {
			a, ok1 := c0304DurationMs(x.X)
			b, ok2 := c0304DurationMs(x.Y)
			return a * b, ok1 && ok2
		}
	}
	return 0, false
}

func c0304IsSel(e ast.Expr, pkg, name string) bool {
	s, ok := e.(*ast.SelectorExpr)
	if !ok || s.Sel.Name != name {
		return false
	}
	id, ok := s.X.(*ast.Ident)
	return ok && id.Name == pkg
}

// ticker period of sendTargetCommand in ms
func c0304Ticker() int64 {
	fd := funcDecl(c0304Incr, "DbSyncer", "sendTargetCommand")
	if fd == nil {
		fail("%s: sendTargetCommand not found", c0304Incr)
		return 0
	}
	var res int64 = -1
	n := 0
	ast.Inspect(fd.Body, func(nd ast.Node) bool {
		if ce, ok := nd.(*ast.CallExpr); ok && c0304IsSel(ce.Fun, "time", "NewTicker") && len(ce.Args) == 1 {
			if v, ok := c0304DurationMs(ce.Args[0]); ok {
				res = v
			}
			n++
		}
		return true
	})
	if n != 1 || res < 0 {
		fail("%s: expected exactly one foldable time.NewTicker in sendTargetCommand (found %d)", c0304Incr, n)
		return 0
	}
	return res
}

// first-argument string literals of every c.Send(...) inside sendTargetCommand, in source order,
// and the format strings of the three checkpoint field names
func c0304SendLits() (lits []string, formats []string, suffixes []string) {
	fd := funcDecl(c0304Incr, "DbSyncer", "sendTargetCommand")
	if fd == nil {
		return
	}
	// forwarding closures: `mustSend := func(cmd string, args ...interface{}) { if err := c.Send(cmd, args...); … }` —
	// a call of such a closure IS the c.Send of its first argument
	alias := map[string]bool{}
	var aliasBodies []*ast.FuncLit
	ast.Inspect(fd.Body, func(nd ast.Node) bool {
		as, ok := nd.(*ast.AssignStmt)
		if !ok || len(as.Lhs) != 1 || len(as.Rhs) != 1 {
			return true
		}
		id, ok1 := as.Lhs[0].(*ast.Ident)
		fl, ok2 := as.Rhs[0].(*ast.FuncLit)
		if !ok1 || !ok2 || fl.Type.Params == nil || len(fl.Type.Params.List) == 0 || len(fl.Type.Params.List[0].Names) == 0 {
			return true
		}
		p0 := fl.Type.Params.List[0].Names[0].Name
		sends, forwards := 0, 0
		ast.Inspect(fl.Body, func(x ast.Node) bool {
			if ce, ok := x.(*ast.CallExpr); ok && c0304IsSel(ce.Fun, "c", "Send") && len(ce.Args) >= 1 {
				sends++
				if a, ok := ce.Args[0].(*ast.Ident); ok && a.Name == p0 {
					forwards++
				}
			}
			return true
		})
		if sends == 1 && forwards == 1 {
			alias[id.Name] = true
			aliasBodies = append(aliasBodies, fl)
		}
		return true
	})
	// forwarding functions/methods of the package: `func (ds *DbSyncer) mustSend(c redigo.Conn, cmd string, args ...interface{})`
	// whose body holds exactly one `<param>.Send(<param>, …)` — a call of it IS that Send of the corresponding argument
	fwdArg := map[string]int{}
	for _, file := range pkgFiles(filepath.Dir(c0304Incr)) {
		pf := parseQuiet(file)
		if pf == nil {
			continue
		}
		for _, d := range pf.Decls {
			fn, ok := d.(*ast.FuncDecl)
			if !ok || fn.Body == nil || fn.Type.Params == nil || fn.Name.Name == "sendTargetCommand" {
				continue
			}
			var params []string
			for _, fl := range fn.Type.Params.List {
				for _, n := range fl.Names {
					params = append(params, n.Name)
				}
			}
			sends, idx := 0, -1
			ast.Inspect(fn.Body, func(x ast.Node) bool {
				ce, ok := x.(*ast.CallExpr)
				if !ok || len(ce.Args) < 1 {
					return true
				}
				se, ok := ce.Fun.(*ast.SelectorExpr)
				if !ok || se.Sel.Name != "Send" {
					return true
				}
				recv, ok1 := se.X.(*ast.Ident)
				a0, ok2 := ce.Args[0].(*ast.Ident)
				if !ok1 || !ok2 {
					return true
				}
				isParam := func(n string) int {
					for i, p := range params {
						if p == n {
							return i
						}
					}
					return -1
				}
				if isParam(recv.Name) >= 0 && isParam(a0.Name) >= 0 {
					sends++
					idx = isParam(a0.Name)
				}
				return true
			})
			if sends == 1 {
				fwdArg[fn.Name.Name] = idx
			}
		}
	}
	inAlias := func(n ast.Node) bool {
		for _, fl := range aliasBodies {
			if n.Pos() >= fl.Pos() && n.End() <= fl.End() {
				return true
			}
		}
		return false
	}
	ast.Inspect(fd.Body, func(nd ast.Node) bool {
		ce, ok := nd.(*ast.CallExpr)
		if !ok {
			return true
		}
		isSend := c0304IsSel(ce.Fun, "c", "Send") && !inAlias(ce)
		if id, ok := ce.Fun.(*ast.Ident); ok && alias[id.Name] {
			isSend = true
		}
		sendArg := 0
		{
			name := ""
			switch f := ce.Fun.(type) {
			case *ast.Ident:
				name = f.Name
			case *ast.SelectorExpr:
				name = f.Sel.Name
			}
			if i, ok := fwdArg[name]; ok && name != "Send" && i < len(ce.Args) {
				isSend, sendArg = true, i
			}
		}
		if isSend && len(ce.Args) > sendArg {
			ce = &ast.CallExpr{Fun: ce.Fun, Args: ce.Args[sendArg:]}
			if bl, ok := ce.Args[0].(*ast.BasicLit); ok && bl.Kind == token.STRING {
				s, _ := evalStr(bl, constEnv{})
				lits = append(lits, s)
			} else {
				lits = append(lits, "<"+srcOf(ce.Args[0])+">")
			}
		}
		if c0304IsSel(ce.Fun, "c", "Flush") && sendArg == 0 {
			lits = append(lits, "<Flush>")
		}
		if c0304IsSel(ce.Fun, "fmt", "Sprintf") && len(ce.Args) == 3 {
			if s, ok := ce.Args[2].(*ast.SelectorExpr); ok && strings.HasPrefix(s.Sel.Name, "Checkpoint") {
				if fs, ok := evalStr(ce.Args[0], constEnv{}); ok {
					formats = append(formats, fs)
					suffixes = append(suffixes, s.Sel.Name+"/"+srcOf(ce.Args[1]))
				}
			}
		}
		return true
	})
	if len(lits) == 0 {
		fail("%s: no c.Send call found in sendTargetCommand", c0304Incr)
	}
	return
}

// FcvCheckpoint.CurrentVersion
func c0304FcvCurrent() int64 {
	f := parse(c0304Fcv)
	if f == nil {
		return 0
	}
	env := fileConsts(f)
	e, ok := env["FcvCheckpoint"]
	if !ok {
		fail("%s: FcvCheckpoint not found", c0304Fcv)
		return 0
	}
	cl, ok := c0304UnwrapIota(e).(*ast.CompositeLit)
	if !ok {
		fail("%s: FcvCheckpoint is not a composite literal", c0304Fcv)
		return 0
	}
	for _, el := range cl.Elts {
		if kv, ok := el.(*ast.KeyValueExpr); ok {
			if id, ok := kv.Key.(*ast.Ident); ok && id.Name == "CurrentVersion" {
				if v, ok := evalInt(kv.Value, env); ok {
					return v
				}
			}
		}
	}
	fail("%s: FcvCheckpoint.CurrentVersion not foldable", c0304Fcv)
	return 0
}

// D8 repair detector: is the assignment `lastDb = n` of the select branch of parseSourceCommand guarded by
// `conf.Options.TargetDB == -1`?  (pinned tree: unguarded)
func c0304SelectGuard() bool {
	fd := funcDecl(c0304Incr, "DbSyncer", "parseSourceCommand")
	if fd == nil {
		fail("%s: parseSourceCommand not found", c0304Incr)
		return false
	}
	found, guarded := 0, false
	var walk func(n ast.Node, underGuard bool)
	walk = func(n ast.Node, underGuard bool) {
		switch x := n.(type) {
		case nil:
			return
		case *ast.IfStmt:
			g := underGuard
			c := strings.ReplaceAll(srcOf(x.Cond), " ", "")
			if c == "conf.Options.TargetDB==-1" {
				g = true
			}
			if x.Init != nil {
				walk(x.Init, underGuard)
			}
			walk(x.Body, g)
			if x.Else != nil {
				walk(x.Else, underGuard)
			}
			return
		case *ast.AssignStmt:
			if len(x.Lhs) == 1 && len(x.Rhs) == 1 && x.Tok == token.ASSIGN {
				l, ok1 := x.Lhs[0].(*ast.Ident)
				r, ok2 := x.Rhs[0].(*ast.Ident)
				if ok1 && ok2 && l.Name == "lastDb" && r.Name == "n" {
					found++
					guarded = underGuard
				}
			}
			return
		}
		ast.Inspect(n, func(c ast.Node) bool {
			if c == n || c == nil {
				return true
			}
			walk(c, underGuard)
			return false
		})
	}
	walk(fd.Body, false)
	if found != 1 {
		fail("%s: expected exactly one `lastDb = n` in parseSourceCommand (found %d)", c0304Incr, found)
	}
	return guarded
}

func c0304LeanBytes(s string) string {
	var b strings.Builder
	b.WriteString("[")
	for i, c := range []byte(s) {
		if i > 0 {
			b.WriteString(", ")
		}
		fmt.Fprintf(&b, "0x%02x", c)
	}
	b.WriteString("]")
	return b.String()
}

func genC0304() {
	var b strings.Builder
	b.WriteString(header)
	b.WriteString("namespace RSVerif.Generated.SyncConsts\n\n")
	str := func(lean, rel, name string) {
		v := strConst(rel, name)
		fmt.Fprintf(&b, "/-- `%s` of %s -/\ndef %s : String := %s\n", name, rel, lean, leanStr(v))
		fmt.Fprintf(&b, "def %sBytes : List UInt8 := %s\n", lean, c0304LeanBytes(v))
	}
	num := func(lean, rel, name string) {
		fmt.Fprintf(&b, "/-- `%s` of %s -/\ndef %s : Nat := %d\n", name, rel, lean, intConst(rel, name))
	}
	for _, n := range []string{"barrierStatusNo", "barrierStatusAdd", "barrierStatusHoldStart", "barrierStatusHolding", "barrierStatusHoldEnd"} {
		fmt.Fprintf(&b, "/-- `%s` of %s -/\ndef %s : String := %s\n", n, c0304Utils, n, leanStr(strConst(c0304Utils, n)))
	}
	num("flushStatusNo", c0304Utils, "flushStatusNo")
	num("flushStatusYes", c0304Utils, "flushStatusYes")
	b.WriteString("/-- `barrierMap` of " + c0304Utils + " (key, status string), source order -/\ndef barrierMap : List (String × String) := [")
	for i, kv := range c0304BarrierMap() {
		if i > 0 {
			b.WriteString(", ")
		}
		fmt.Fprintf(&b, "(%s, %s)", leanStr(kv[0]), leanStr(kv[1]))
	}
	b.WriteString("]\n")
	fmt.Fprintf(&b, "/-- period of the flush ticker in sendTargetCommand, milliseconds -/\ndef tickerPeriodMs : Nat := %d\n", c0304Ticker())
	str("checkpointKey", c0304Comm, "CheckpointKey")
	str("checkpointOffset", c0304Comm, "CheckpointOffset")
	str("checkpointRunId", c0304Comm, "CheckpointRunId")
	str("checkpointVersion", c0304Comm, "CheckpointVersion")
	fmt.Fprintf(&b, "/-- `FcvCheckpoint.CurrentVersion` of %s -/\ndef fcvCheckpointCurrent : Nat := %d\n", c0304Fcv, c0304FcvCurrent())
	num("defaultSenderSize", c0304Main, "defaultSenderSize")
	num("defaultSenderCount", c0304Main, "defaultSenderCount")
	lits, formats, sfx := c0304SendLits()
	b.WriteString("/-- first arguments of the `c.Send` calls (and the `c.Flush`) of sendTargetCommand, source order -/\ndef sendFuncCalls : List String := [")
	for i, l := range lits {
		if i > 0 {
			b.WriteString(", ")
		}
		b.WriteString(leanStr(l))
	}
	b.WriteString("]\n")
	b.WriteString("/-- format strings of the checkpoint field names built in sendTargetCommand -/\ndef checkpointFieldFormats : List (String × String) := [")
	for i := range formats {
		if i > 0 {
			b.WriteString(", ")
		}
		fmt.Fprintf(&b, "(%s, %s)", leanStr(sfx[i]), leanStr(formats[i]))
	}
	b.WriteString("]\n")
	g := "false"
	if c0304SelectGuard() {
		g = "true"
	}
	b.WriteString("/-- is `lastDb = n` in the select branch of parseSourceCommand guarded by `conf.Options.TargetDB == -1`\n    (the proposed repair of deviation D8; `false` on the pinned tree) -/\n")
	fmt.Fprintf(&b, "def selectKeepsLastDbUnderTargetDb : Bool := %s\n", g)
	b.WriteString("\nend RSVerif.Generated.SyncConsts\n")
	writeIfChanged("SyncConsts.lean", b.String())

	addFP("C03.parseSourceCommand", c0304Incr, "DbSyncer", "parseSourceCommand")
	addFP("C03.sendTargetCommand", c0304Incr, "DbSyncer", "sendTargetCommand")
	addFP("C03.barrierStatus", c0304Utils, "", "barrierStatus")
}
