package main

// C07: structural facts about the two worker pools (syncRDBFile, restoreRDBFile) that the Lean model takes for granted,
// read off the current source with go/ast:
//   * `lastdb` is declared inside the worker goroutine's function literal (one per worker), initialised with a literal
//     (the model starts every worker at the database a fresh connection is in: 0);
//   * the result of utils.RestoreRdbEntry is looked at (not an expression statement);
//   * the parent waits for the workers with a plain `wg.Wait()` statement;
//   * the SELECT bookkeeping precedes the call of RestoreRdbEntry inside the loop body.
// Emitted as Generated/C07Facts.lean; Properties/C07.lean proves `source_facts` about them (by `decide`), so a change of
// any of these makes `lake build` fail at that theorem.

import (
	"fmt"
	"go/ast"
	"go/token"
	"strings"
)

func init() { register(genC07) }

type c07Facts struct {
	found          bool
	lastdbInit     int64
	lastdbInWorker bool
	errChecked     bool
	waits          bool
	selectFirst    bool
}

func c07IsCall(e ast.Expr, recv, name string) bool {
	c, ok := e.(*ast.CallExpr)
	if !ok {
		return false
	}
	s, ok := c.Fun.(*ast.SelectorExpr)
	if !ok || s.Sel.Name != name {
		return false
	}
	id, ok := s.X.(*ast.Ident)
	return ok && id.Name == recv
}

func c07Extract(rel, recv, name string) c07Facts {
	var f c07Facts
	fd := funcDecl(rel, recv, name)
	if fd == nil || fd.Body == nil {
		fail("%s: function %s not found", rel, name)
		return f
	}
	f.found = true
	// the worker literal = the innermost FuncLit containing `for e := range pipe`
	var worker *ast.FuncLit
	var stack []*ast.FuncLit
	var walk func(n ast.Node)
	walk = func(n ast.Node) {
		ast.Inspect(n, func(x ast.Node) bool {
			switch v := x.(type) {
			case *ast.FuncLit:
				stack = append(stack, v)
				walk(v.Body)
				stack = stack[:len(stack)-1]
				return false
			case *ast.RangeStmt:
				if id, ok := v.X.(*ast.Ident); ok && id.Name == "pipe" && len(stack) > 0 {
					worker = stack[len(stack)-1]
				}
			}
			return true
		})
	}
	walk(fd.Body)
	if worker == nil {
		fail("%s: %s has no worker literal ranging over pipe", rel, name)
		return f
	}
	// lastdb declared directly in the worker literal's body?
	for _, st := range worker.Body.List {
		ds, ok := st.(*ast.DeclStmt)
		if !ok {
			continue
		}
		gd, ok := ds.Decl.(*ast.GenDecl)
		if !ok || gd.Tok != token.VAR {
			continue
		}
		for _, sp := range gd.Specs {
			vs := sp.(*ast.ValueSpec)
			for i, n := range vs.Names {
				if n.Name == "lastdb" {
					f.lastdbInWorker = true
					if i < len(vs.Values) {
						if v, ok := evalInt(vs.Values[i], constEnv{}); ok {
							f.lastdbInit = v
						} else {
							fail("%s: %s: initial value of lastdb is not a literal", rel, name)
						}
					}
				}
			}
		}
	}
	// RestoreRdbEntry: is its result used? where does it stand relative to the first SelectDB call?
	var restorePos, selectPos token.Pos
	discarded := false
	ast.Inspect(worker.Body, func(x ast.Node) bool {
		switch v := x.(type) {
		case *ast.ExprStmt:
			if c07IsCall(v.X, "utils", "RestoreRdbEntry") {
				discarded = true
			}
		case *ast.CallExpr:
			if c07IsCall(v, "utils", "RestoreRdbEntry") && restorePos == token.NoPos {
				restorePos = v.Pos()
			}
			if c07IsCall(v, "utils", "SelectDB") && selectPos == token.NoPos {
				selectPos = v.Pos()
			}
		}
		return true
	})
	f.errChecked = restorePos != token.NoPos && !discarded
	if restorePos == token.NoPos || selectPos == token.NoPos {
		fail("%s: %s: RestoreRdbEntry / SelectDB call not found in the worker", rel, name)
	}
	f.selectFirst = selectPos < restorePos
	// wg.Wait() as a statement of its own (not `go wg.Wait()`)
	ast.Inspect(fd.Body, func(x ast.Node) bool {
		if v, ok := x.(*ast.ExprStmt); ok && c07IsCall(v.X, "wg", "Wait") {
			f.waits = true
		}
		return true
	})
	return f
}

func c07LeanBool(b bool) string {
	if b {
		return "true"
	}
	return "false"
}

func genC07() {
	var b strings.Builder
	b.WriteString(header)
	b.WriteString("namespace RSVerif.Generated.C07\n\n")
	for _, m := range []struct{ pre, rel, recv, name string }{
		{"sync", "redis-shake/dbSync/syncRDB.go", "DbSyncer", "syncRDBFile"},
		{"restore", "redis-shake/restore.go", "dbRestorer", "restoreRDBFile"},
	} {
		f := c07Extract(m.rel, m.recv, m.name)
		fmt.Fprintf(&b, "/-- `%s` of %s: `var lastdb uint32 = …` -/\ndef %sLastdbInit : Nat := %d\n", m.name, m.rel, m.pre, f.lastdbInit)
		fmt.Fprintf(&b, "/-- `lastdb` is declared inside the worker goroutine (one per worker) -/\ndef %sLastdbPerWorker : Bool := %s\n", m.pre, c07LeanBool(f.lastdbInWorker))
		fmt.Fprintf(&b, "/-- the result of `utils.RestoreRdbEntry` is looked at -/\ndef %sRestoreErrorChecked : Bool := %s\n", m.pre, c07LeanBool(f.errChecked))
		fmt.Fprintf(&b, "/-- the parent has a plain `wg.Wait()` statement -/\ndef %sWaitsForWorkers : Bool := %s\n", m.pre, c07LeanBool(f.waits))
		fmt.Fprintf(&b, "/-- the first `utils.SelectDB` call precedes `utils.RestoreRdbEntry` in the loop body -/\ndef %sSelectBeforeRestore : Bool := %s\n\n", m.pre, c07LeanBool(f.selectFirst))
		addFP("C07."+m.name, m.rel, m.recv, m.name)
	}
	b.WriteString("end RSVerif.Generated.C07\n")
	writeIfChanged("C07Facts.lean", b.String())
	addFP("C07.NewRDBLoader", "redis-shake/common/utils.go", "", "NewRDBLoader")
	addFP("C07.SelectDB", "redis-shake/common/utils.go", "", "SelectDB")
	addFP("C07.RestoreRdbEntry", "redis-shake/common/utils.go", "", "RestoreRdbEntry")
}
