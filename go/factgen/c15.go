package main

// C15 facts: the checkpoint key prefix and separator, the suffix alphabet and length of
// pickSuffixDfs, the slot masks of KeyToSlot / findKeyInRange, the latency key prefix, and a
// WITNESS TABLE: for every slot 0..16383 one suffix over the extracted alphabet/length whose key
// `<prefix><sep><suffix>` hashes to that slot. The witnesses are only *candidates*: every row is
// re-checked by the Lean kernel against the bitwise CRC16 specification (Lemmas/SlotWitness*.lean); all defs live in namespace RSVerif.Generated.C15.

import (
	"fmt"
	"go/ast"
	"go/token"
	"strconv"
	"strings"
)

func init() { register(genC15) }

const c15Chunks = 64 // 64 lists of 256 rows (a single 16384-element literal does not elaborate)
const c15Modules = 8 // spread over 8 modules so that lake checks them in parallel

func c15crc(bs []byte, c uint16) uint16 {
	for _, b := range bs {
		c ^= uint16(b) << 8
		for k := 0; k < 8; k++ {
			if c&0x8000 != 0 {
				c = (c << 1) ^ 0x1021
			} else {
				c <<= 1
			}
		}
	}
	return c
}

func c15ByteList(bs []byte) string {
	parts := make([]string, len(bs))
	for i, b := range bs {
		parts[i] = strconv.Itoa(int(b))
	}
	return "[" + strings.Join(parts, ", ") + "]"
}

func c15RowLit(bs []byte) string {
	v := uint64(0)
	for _, b := range bs {
		v = v<<8 | uint64(b)
	}
	return fmt.Sprintf("0x%x", v)
}

// sprintfSep: the literal that follows "%s" in the single fmt.Sprintf of ChoseSlotInRange.
func c15Separator() string {
	fd := funcDecl("redis-shake/common/slot.go", "", "ChoseSlotInRange")
	if fd == nil {
		fail("slot.go: ChoseSlotInRange not found")
		return ""
	}
	sep, found := "", 0
	ast.Inspect(fd, func(n ast.Node) bool {
		ce, ok := n.(*ast.CallExpr)
		if !ok {
			return true
		}
		se, ok := ce.Fun.(*ast.SelectorExpr)
		if !ok || se.Sel.Name != "Sprintf" || len(ce.Args) != 2 {
			return true
		}
		lit, ok := ce.Args[0].(*ast.BasicLit)
		if !ok || lit.Kind != token.STRING {
			return true
		}
		s, err := strconv.Unquote(lit.Value)
		if err != nil || !strings.HasPrefix(s, "%s") || strings.Contains(s[2:], "%") {
			return true
		}
		sep = s[2:]
		found++
		return true
	})
	if found != 1 {
		fail("slot.go: ChoseSlotInRange: expected exactly one Sprintf(\"%%s<sep>\", prefix), found %d", found)
	}
	return sep
}

// c15Alphabet: bounds of `for i = LO; i <= HI; i++` in pickSuffixDfs (inclusive).
func c15Alphabet() (int64, int64) {
	fd := funcDecl("redis-shake/common/slot.go", "", "pickSuffixDfs")
	if fd == nil {
		fail("slot.go: pickSuffixDfs not found")
		return 0, 0
	}
	var lo, hi int64
	found := 0
	ast.Inspect(fd, func(n ast.Node) bool {
		fs, ok := n.(*ast.ForStmt)
		if !ok || fs.Init == nil || fs.Cond == nil {
			return true
		}
		as, ok := fs.Init.(*ast.AssignStmt)
		if !ok || len(as.Rhs) != 1 {
			return true
		}
		be, ok := fs.Cond.(*ast.BinaryExpr)
		if !ok {
			return true
		}
		l, ok1 := evalInt(as.Rhs[0], constEnv{})
		h, ok2 := evalInt(be.Y, constEnv{})
		if !ok1 || !ok2 {
			return true
		}
		switch be.Op {
		case token.LEQ:
		case token.LSS:
			h--
		default:
			return true
		}
		lo, hi = l, h
		found++
		return true
	})
	if found != 1 || lo < 0 || hi > 255 || lo > hi {
		fail("slot.go: pickSuffixDfs: expected one loop `for i = LO; i <= HI; i++` over bytes, found %d (lo=%d hi=%d)", found, lo, hi)
		return 0, 0
	}
	return lo, hi
}

// c15Masks: the constants M of every `crc16(<arg>) & M` in function fn of file rel, keyed by <arg>.
func c15Masks(rel, fn string) map[string]int64 {
	out := map[string]int64{}
	fd := funcDecl(rel, "", fn)
	if fd == nil {
		fail("%s: %s not found", rel, fn)
		return out
	}
	env := fileConsts(parse(rel))
	ast.Inspect(fd, func(n ast.Node) bool {
		be, ok := n.(*ast.BinaryExpr)
		if !ok || be.Op != token.AND {
			return true
		}
		ce, ok := be.X.(*ast.CallExpr)
		if !ok || len(ce.Args) != 1 {
			return true
		}
		id, ok := ce.Fun.(*ast.Ident)
		if !ok || id.Name != "crc16" {
			return true
		}
		arg, ok := ce.Args[0].(*ast.Ident)
		if !ok {
			return true
		}
		if v, ok := evalInt(be.Y, env); ok {
			out[arg.Name] = v
		}
		return true
	})
	return out
}

func genC15() {
	prefix := strConst("redis-shake/common/common.go", "CheckpointKey")
	sep := c15Separator()
	lo, hi := c15Alphabet()
	slen := intConst("redis-shake/common/slot.go", "checkpointSuffixLen")
	km := c15Masks("redis-shake/common/slot.go", "KeyToSlot")
	lm := c15Masks("redis-shake/dbSync/latencymonitor/producer.go", "findKeyInRange")
	for _, a := range []string{"hashtag", "key"} {
		if _, ok := km[a]; !ok {
			fail("slot.go: KeyToSlot: `crc16(%s) & <const>` not found", a)
		}
	}
	if _, ok := lm["key"]; !ok {
		fail("producer.go: findKeyInRange: `crc16(key) & <const>` not found")
	}
	latPrefix := strConst("redis-shake/dbSync/latencymonitor/producer.go", "keyPrefix")

	full := []byte(prefix + sep)
	s0 := c15crc(full, 0)

	// C15Search.lean: exactly the inputs of the witness table (the witness modules import nothing else)
	var b strings.Builder
	b.WriteString(header)
	b.WriteString("namespace RSVerif.Generated.C15\n\n")
	fmt.Fprintf(&b, "/-- `CheckpointKey` of redis-shake/common/common.go (%s) -/\ndef checkpointKey : List UInt8 := %s\n", leanStr(prefix), c15ByteList([]byte(prefix)))
	fmt.Fprintf(&b, "/-- what `fmt.Sprintf(\"%%s…\", prefix)` in ChoseSlotInRange appends (%s) -/\ndef checkpointSep : List UInt8 := %s\n", leanStr(sep), c15ByteList([]byte(sep)))
	fmt.Fprintf(&b, "/-- bounds of `for i = LO; i <= HI; i++` in pickSuffixDfs -/\ndef suffixLo : UInt8 := %d\ndef suffixHi : UInt8 := %d\n", lo, hi)
	fmt.Fprintf(&b, "/-- `checkpointSuffixLen` of redis-shake/common/slot.go -/\ndef suffixLen : Nat := %d\n", slen)
	fmt.Fprintf(&b, "/-- candidate (computed by factgen, re-checked by the kernel): CRC16 state after `checkpointKey ++ checkpointSep` -/\ndef checkpointPrefixState : UInt16 := 0x%04x\n", s0)
	b.WriteString("\nend RSVerif.Generated.C15\n")
	writeIfChanged("C15Search.lean", b.String())

	b.Reset()
	b.WriteString(header)
	b.WriteString("namespace RSVerif.Generated.C15\n\n")
	fmt.Fprintf(&b, "/-- `crc16(hashtag) & M` and `crc16(key) & M` in KeyToSlot -/\ndef keyToSlotMaskTag : UInt16 := 0x%04x\ndef keyToSlotMaskKey : UInt16 := 0x%04x\n", uint16(km["hashtag"]), uint16(km["key"]))
	fmt.Fprintf(&b, "/-- the slot mask of latencymonitor/producer.go findKeyInRange -/\ndef latencyMask : UInt16 := 0x%04x\n", uint16(lm["key"]))
	b.WriteString("\nend RSVerif.Generated.C15\n")
	writeIfChanged("C15Consts.lean", b.String())

	// ---- witness search: first suffix in DFS (lexicographic) order for every slot
	const nslots = 16384
	wit := make([][]byte, nslots)
	left := nslots
	if slen >= 0 && slen <= 8 && lo <= hi {
		cur := make([]byte, slen)
		budget := 5000000
		var rec func(d int, c uint16)
		rec = func(d int, c uint16) {
			if left == 0 || budget <= 0 {
				return
			}
			if d == int(slen) {
				budget--
				s := int(c) % nslots
				if wit[s] == nil {
					wit[s] = append([]byte{}, cur...)
					left--
				}
				return
			}
			for ch := lo; ch <= hi; ch++ {
				cur[d] = byte(ch)
				rec(d+1, c15crc(cur[d:d+1], c))
			}
		}
		rec(0, s0)
	}
	// rows are the suffix read as a big-endian base-256 number (a list of 256 numerals elaborates ten
	// times faster than a list of 256 byte lists); a slot without witness gets the row 0, which the
	// kernel check rejects unless it happens to be a witness (the failing theorem names the chunk)
	per := c15Chunks / c15Modules
	for m := 0; m < c15Modules; m++ {
		b.Reset()
		b.WriteString(header)
		fmt.Fprintf(&b, "-- witness candidates for slots %d..%d: row i of chunk c is a suffix (big-endian base 256) for slot 256*c+i\n", m*per*256, (m+1)*per*256-1)
		b.WriteString("namespace RSVerif.Generated.C15\n\n")
		for c := m * per; c < (m+1)*per; c++ {
			fmt.Fprintf(&b, "def slotWitness%d : List Nat := [\n", c)
			for i := 0; i < 256; i++ {
				if i > 0 {
					b.WriteString(",")
					if i%8 == 0 {
						b.WriteString("\n")
					}
				}
				b.WriteString(" " + c15RowLit(wit[c*256+i]))
			}
			b.WriteString("]\n\n")
		}
		b.WriteString("end RSVerif.Generated.C15\n")
		writeIfChanged(fmt.Sprintf("C15Witness%d.lean", m), b.String())
	}

	// ---- latency key search: for every slot the smallest i such that `<keyPrefix><i>` hashes to it
	const latBudget = 3000000
	ls0 := c15crc([]byte(latPrefix), 0)
	lwit := make([]int, nslots)
	for i := range lwit {
		lwit[i] = -1
	}
	left = nslots
	maxIdx := 0
	for i := 0; i < latBudget && left > 0; i++ {
		s := int(c15crc([]byte(strconv.Itoa(i)), ls0)) % nslots
		if lwit[s] < 0 {
			lwit[s] = i
			left--
			maxIdx = i
		}
	}
	b.Reset()
	b.WriteString(header)
	b.WriteString("namespace RSVerif.Generated.C15\n\n")
	fmt.Fprintf(&b, "/-- `keyPrefix` of latencymonitor/producer.go (%s) -/\ndef latencyKeyPrefix : List UInt8 := %s\n", leanStr(latPrefix), c15ByteList([]byte(latPrefix)))
	fmt.Fprintf(&b, "/-- candidate (re-checked by the kernel): CRC16 state after `latencyKeyPrefix` -/\ndef latencyPrefixState : UInt16 := 0x%04x\n", ls0)
	fmt.Fprintf(&b, "/-- candidate (re-checked by the kernel): every slot is reached by some index ≤ this one -/\ndef latencyMaxIndex : Nat := %d\n", maxIdx)
	b.WriteString("\nend RSVerif.Generated.C15\n")
	writeIfChanged("C15LatSearch.lean", b.String())
	// a slot that no index below the budget reaches gets the row latencyMaxIndex+1, which the check rejects
	for m := 0; m < c15Modules; m++ {
		b.Reset()
		b.WriteString(header)
		fmt.Fprintf(&b, "-- latency key witnesses for slots %d..%d: row i of chunk c is an index whose key hashes to slot 256*c+i\n", m*per*256, (m+1)*per*256-1)
		b.WriteString("namespace RSVerif.Generated.C15\n\n")
		for c := m * per; c < (m+1)*per; c++ {
			fmt.Fprintf(&b, "def latencyWitness%d : List Nat := [\n", c)
			for i := 0; i < 256; i++ {
				if i > 0 {
					b.WriteString(",")
					if i%12 == 0 {
						b.WriteString("\n")
					}
				}
				v := lwit[c*256+i]
				if v < 0 {
					v = maxIdx + 1
				}
				fmt.Fprintf(&b, " %d", v)
			}
			b.WriteString("]\n\n")
		}
		b.WriteString("end RSVerif.Generated.C15\n")
		writeIfChanged(fmt.Sprintf("C15LatWitness%d.lean", m), b.String())
	}

	addFP("C15.FilterKey", "redis-shake/filter/filter.go", "", "FilterKey")
	addFP("C15.findKeyInRange", "redis-shake/dbSync/latencymonitor/producer.go", "", "findKeyInRange")
}
