package main

import (
	"fmt"
	"strings"
)

// C09: the two alignment units of the pipe buffers, and fingerprints of every modelled function.
func init() { register(genC09) }

func genC09() {
	var b strings.Builder
	b.WriteString(header)
	b.WriteString("namespace RSVerif.Generated.C09\n\n")
	fmt.Fprintf(&b, "/-- `BuffSizeAlign` of pkg/libs/io/pipe/buff.go -/\ndef pipeBuffSizeAlign : Nat := %d\n",
		intConst("pkg/libs/io/pipe/buff.go", "BuffSizeAlign"))
	fmt.Fprintf(&b, "/-- `FileSizeAlign` of pkg/libs/io/pipe/file.go -/\ndef pipeFileSizeAlign : Nat := %d\n",
		intConst("pkg/libs/io/pipe/file.go", "FileSizeAlign"))
	b.WriteString("\nend RSVerif.Generated.C09\n")
	writeIfChanged("C09Consts.lean", b.String())

	const d = "pkg/libs/io/pipe/"
	for _, f := range []string{"roffset", "woffset", "align", "newPipe"} {
		addFP("C09."+f, d+"pipe.go", "", f)
	}
	for _, f := range []string{"Read", "readSome", "Write", "writeSome", "RClose", "WClose", "Buffered", "Available"} {
		addFP("C09.pipe."+f, d+"pipe.go", "pipe", f)
	}
	for _, f := range []string{"readSome", "writeSome", "buffered", "available", "rclose", "wclose"} {
		addFP("C09.memBuffer."+f, d+"buff.go", "memBuffer", f)
		addFP("C09.fileBuffer."+f, d+"file.go", "fileBuffer", f)
	}
	addFP("C09.newMemBuffer", d+"buff.go", "", "newMemBuffer")
	addFP("C09.newFileBuffer", d+"file.go", "", "newFileBuffer")
}
