package main

import (
	"path/filepath"
	"fmt"
	"go/ast"
	"go/token"
	"strings"
)

// C01: the opcodes, type codes, length/string-encoding tags and module sub-opcodes of pkg/rdb/reader.go that
// Model/RdbRead.lean spells as numerals, plus the hash chunk limit (the right-hand side of the `b.Len() > …`
// comparison in readObjectValue, whatever form it is written in). Properties/C01.lean re-checks them (`consts_tie`).

var c01ConstSpecs = []constSpec{
	{"typeString", "pkg/rdb/reader.go", "RdbTypeString", false},
	{"typeList", "pkg/rdb/reader.go", "RdbTypeList", false},
	{"typeSet", "pkg/rdb/reader.go", "RdbTypeSet", false},
	{"typeZSet", "pkg/rdb/reader.go", "RdbTypeZSet", false},
	{"typeHash", "pkg/rdb/reader.go", "RdbTypeHash", false},
	{"typeZSet2", "pkg/rdb/reader.go", "RdbTypeZSet2", false},
	{"typeHashZipmap", "pkg/rdb/reader.go", "RdbTypeHashZipmap", false},
	{"typeListZiplist", "pkg/rdb/reader.go", "RdbTypeListZiplist", false},
	{"typeSetIntset", "pkg/rdb/reader.go", "RdbTypeSetIntset", false},
	{"typeZSetZiplist", "pkg/rdb/reader.go", "RdbTypeZSetZiplist", false},
	{"typeHashZiplist", "pkg/rdb/reader.go", "RdbTypeHashZiplist", false},
	{"typeQuicklist", "pkg/rdb/reader.go", "RdbTypeQuicklist", false},
	{"typeStream", "pkg/rdb/reader.go", "RDBTypeStreamListPacks", false},
	{"flagModuleAux", "pkg/rdb/reader.go", "rdbFlagModuleAux", false},
	{"flagIdle", "pkg/rdb/reader.go", "rdbFlagIdle", false},
	{"flagFreq", "pkg/rdb/reader.go", "rdbFlagFreq", false},
	{"flagAux", "pkg/rdb/reader.go", "RdbFlagAUX", false},
	{"flagResizeDB", "pkg/rdb/reader.go", "rdbFlagResizeDB", false},
	{"flagExpiryMS", "pkg/rdb/reader.go", "rdbFlagExpiryMS", false},
	{"flagExpiry", "pkg/rdb/reader.go", "rdbFlagExpiry", false},
	{"flagSelectDB", "pkg/rdb/reader.go", "rdbFlagSelectDB", false},
	{"flagEOF", "pkg/rdb/reader.go", "rdbFlagEOF", false},
	{"modEof", "pkg/rdb/reader.go", "rdbModuleOpcodeEof", false},
	{"modSint", "pkg/rdb/reader.go", "rdbModuleOpcodeSint", false},
	{"modUint", "pkg/rdb/reader.go", "rdbModuleOpcodeUint", false},
	{"modFloat", "pkg/rdb/reader.go", "rdbModuleOpcodeFloat", false},
	{"modDouble", "pkg/rdb/reader.go", "rdbModuleOpcodeDouble", false},
	{"modString", "pkg/rdb/reader.go", "rdbModuleOpcodeString", false},
	{"len6bit", "pkg/rdb/reader.go", "rdb6bitLen", false},
	{"len14bit", "pkg/rdb/reader.go", "rdb14bitLen", false},
	{"len32bit", "pkg/rdb/reader.go", "rdb32bitLen", false},
	{"len64bit", "pkg/rdb/reader.go", "rdb64bitLen", false},
	{"encVal", "pkg/rdb/reader.go", "rdbEncVal", false},
	{"encInt8", "pkg/rdb/reader.go", "rdbEncInt8", false},
	{"encInt16", "pkg/rdb/reader.go", "rdbEncInt16", false},
	{"encInt32", "pkg/rdb/reader.go", "rdbEncInt32", false},
	{"encLZF", "pkg/rdb/reader.go", "rdbEncLZF", false},
}

func init() { register(genC01) }

// c01ChunkLimit: in readObjectValue — or, when that name is gone, in whichever function of package pkg/rdb holds it — the
// constant the accumulated hash bytes are compared with (`b.Len() > K`). The span of K (file, byte offsets, text) is
// written to c01_chunklimit.pos for the scaled harness build (N3).
func c01ChunkLimit() int64 {
	rel := "pkg/rdb/reader.go"
	var found []int64
	var spans []string
	scan := func(file string, fd *ast.FuncDecl) {
		ast.Inspect(fd, func(n ast.Node) bool {
			be, ok := n.(*ast.BinaryExpr)
			if !ok {
				return true
			}
			var side ast.Expr
			switch {
			case (be.Op == token.GTR || be.Op == token.GEQ) && isLenCall(be.X):
				side = be.Y
			case (be.Op == token.LSS || be.Op == token.LEQ) && isLenCall(be.Y):
				side = be.X
			default:
				return true
			}
			if v, ok := evalInt(side, nil); ok && v >= 1024 {
				if be.Op == token.GEQ || be.Op == token.LEQ {
					v-- // `>= K` is `> K-1`
				}
				found = append(found, v)
				spans = append(spans, fmt.Sprintf("%d %d %s %s", fset.Position(side.Pos()).Offset, fset.Position(side.End()).Offset,
					strings.Join(strings.Fields(srcOf(side)), ""), file))
			}
			return true
		})
	}
	if fd := funcDecl(rel, "rdbReader", "readObjectValue"); fd != nil {
		scan(fset.Position(fd.Pos()).Filename, fd)
	} else {
		for _, file := range pkgFiles(filepath.Dir(rel)) {
			f := parseQuiet(file)
			if f == nil {
				continue
			}
			for _, d := range f.Decls {
				if fd, ok := d.(*ast.FuncDecl); ok && fd.Body != nil {
					funcDecl(file, recvName(fd), fd.Name.Name) // constants context of that function
					scan(filepath.Join(repo, file), fd)
				}
			}
		}
	}
	if len(found) != 1 {
		fail("%s: expected exactly one `….Len() > <constant>` comparison (the hash chunk limit), found %d", rel, len(found))
		return 0
	}
	writeIfChanged("c01_chunklimit.pos", spans[0]+"\n")
	return found[0]
}

func recvName(fd *ast.FuncDecl) string {
	if fd.Recv == nil || len(fd.Recv.List) != 1 {
		return ""
	}
	t := fd.Recv.List[0].Type
	if st, ok := t.(*ast.StarExpr); ok {
		t = st.X
	}
	if id, ok := t.(*ast.Ident); ok {
		return id.Name
	}
	return ""
}

func isLenCall(e ast.Expr) bool {
	c, ok := e.(*ast.CallExpr)
	if !ok || len(c.Args) != 0 {
		return false
	}
	s, ok := c.Fun.(*ast.SelectorExpr)
	return ok && s.Sel.Name == "Len"
}

func genC01() {
	var b strings.Builder
	b.WriteString(header)
	b.WriteString("namespace RSVerif.Generated.C01\n\n")
	for _, c := range c01ConstSpecs {
		fmt.Fprintf(&b, "/-- `%s` of %s -/\ndef %s : Int := %d\n", c.name, c.rel, c.lean, intConst(c.rel, c.name))
	}
	fmt.Fprintf(&b, "/-- the hash chunk limit: `b.Len() > …` in readObjectValue of pkg/rdb/reader.go -/\ndef chunkLimit : Int := %d\n", c01ChunkLimit())
	b.WriteString("\nend RSVerif.Generated.C01\n")
	writeIfChanged("C01Consts.lean", b.String())

	rd := "pkg/rdb/reader.go"
	for _, f := range []string{"Read", "readObjectValue", "ReadString", "readEncodedLength", "ReadLength", "readFull", "ReadBytes",
		"ReadByte", "ReadFloat", "ReadDouble", "readUint8", "readUint16", "readUint32", "readUint64", "readUint32BigEndian", "readUint64BigEndian"} {
		addFP("C01.rdbReader."+f, rd, "rdbReader", f)
	}
	ld := "pkg/rdb/loader.go"
	for _, f := range []string{"Header", "Footer", "NextBinEntry"} {
		addFP("C01.Loader."+f, ld, "Loader", f)
	}
	addFP("C01.createValueDump", ld, "", "createValueDump")
	addFP("C01.lzfDecompress", rd, "", "lzfDecompress")
}
