package main

// C19: the log-flow facts need go/types, so they are produced by a separate small program
// (go/logflow, own go.mod requiring golang.org/x/tools/go/packages from the module cache) which this
// generator builds when stale and runs. It writes Generated/LogFlow.lean (and a .stamp so that an
// unchanged source tree costs nothing).

import (
	"os"
	"os/exec"
	"path/filepath"
)

func init() { register(genC19) }

func genC19() {
	absOut, _ := filepath.Abs(outDir)
	verif := filepath.Clean(filepath.Join(absOut, "..", "..", ".."))
	src := filepath.Join(verif, "go", "logflow")
	exe := filepath.Join(verif, "build", "logflow")
	env := append(os.Environ(), "GOFLAGS=-mod=mod", "GOPROXY=off", "GOSUMDB=off", "GOTOOLCHAIN=local", "CGO_ENABLED=0")
	stale := true
	if st, err := os.Stat(exe); err == nil {
		stale = false
		ents, _ := os.ReadDir(src)
		for _, e := range ents {
			if fi, err := e.Info(); err == nil && fi.ModTime().After(st.ModTime()) {
				stale = true
			}
		}
	}
	if stale {
		os.MkdirAll(filepath.Dir(exe), 0755)
		cmd := exec.Command("go", "build", "-o", exe, ".")
		cmd.Dir = src
		cmd.Env = env
		if out, err := cmd.CombinedOutput(); err != nil {
			fail("C19: go/logflow does not build: %v\n%s", err, out)
			return
		}
	}
	cmd := exec.Command(exe, "-repo", repo, "-out", filepath.Join(absOut, "LogFlow.lean"))
	cmd.Env = env
	if out, err := cmd.CombinedOutput(); err != nil {
		fail("C19: log-flow extraction failed on the current source: %v\n%s", err, out)
	}
}
