package main

import (
	"fmt"
	"strings"
)

// C12: the constants of the cupcake decoder/encoder and of pkg/rdb's type codes that the models in
// Model/RdbDecode.lean and Model/RdbEncode.lean spell as numerals. Properties/C12.lean re-checks the numerals
// against what the source says now (`consts_tie`).

var c12ConstSpecs = []constSpec{
	{"typeString", "pkg/libs/cupcake/rdb/decoder.go", "TypeString", false},
	{"typeList", "pkg/libs/cupcake/rdb/decoder.go", "TypeList", false},
	{"typeSet", "pkg/libs/cupcake/rdb/decoder.go", "TypeSet", false},
	{"typeZSet", "pkg/libs/cupcake/rdb/decoder.go", "TypeZSet", false},
	{"typeHash", "pkg/libs/cupcake/rdb/decoder.go", "TypeHash", false},
	{"typeZSet2", "pkg/libs/cupcake/rdb/decoder.go", "TypeZSet2", false},
	{"typeModule", "pkg/libs/cupcake/rdb/decoder.go", "TypeModule", false},
	{"typeHashZipmap", "pkg/libs/cupcake/rdb/decoder.go", "TypeHashZipmap", false},
	{"typeListZiplist", "pkg/libs/cupcake/rdb/decoder.go", "TypeListZiplist", false},
	{"typeSetIntset", "pkg/libs/cupcake/rdb/decoder.go", "TypeSetIntset", false},
	{"typeZSetZiplist", "pkg/libs/cupcake/rdb/decoder.go", "TypeZSetZiplist", false},
	{"typeHashZiplist", "pkg/libs/cupcake/rdb/decoder.go", "TypeHashZiplist", false},
	{"typeListQuicklist", "pkg/libs/cupcake/rdb/decoder.go", "TypeListQuicklist", false},
	{"len6bit", "pkg/libs/cupcake/rdb/decoder.go", "rdb6bitLen", false},
	{"len14bit", "pkg/libs/cupcake/rdb/decoder.go", "rdb14bitLen", false},
	{"len32bit", "pkg/libs/cupcake/rdb/decoder.go", "rdb32bitLen", false},
	{"len64bit", "pkg/libs/cupcake/rdb/decoder.go", "rdb64bitLen", false},
	{"encVal", "pkg/libs/cupcake/rdb/decoder.go", "rdbEncVal", false},
	{"encInt8", "pkg/libs/cupcake/rdb/decoder.go", "rdbEncInt8", false},
	{"encInt16", "pkg/libs/cupcake/rdb/decoder.go", "rdbEncInt16", false},
	{"encInt32", "pkg/libs/cupcake/rdb/decoder.go", "rdbEncInt32", false},
	{"encLZF", "pkg/libs/cupcake/rdb/decoder.go", "rdbEncLZF", false},
	{"flagExpiryMS", "pkg/libs/cupcake/rdb/decoder.go", "rdbFlagExpiryMS", false},
	{"flagSelectDB", "pkg/libs/cupcake/rdb/decoder.go", "rdbFlagSelectDB", false},
	{"flagEOF", "pkg/libs/cupcake/rdb/decoder.go", "rdbFlagEOF", false},
	{"zl6bitStr", "pkg/libs/cupcake/rdb/decoder.go", "rdbZiplist6bitlenString", false},
	{"zl14bitStr", "pkg/libs/cupcake/rdb/decoder.go", "rdbZiplist14bitlenString", false},
	{"zl32bitStr", "pkg/libs/cupcake/rdb/decoder.go", "rdbZiplist32bitlenString", false},
	{"zlInt16", "pkg/libs/cupcake/rdb/decoder.go", "rdbZiplistInt16", false},
	{"zlInt32", "pkg/libs/cupcake/rdb/decoder.go", "rdbZiplistInt32", false},
	{"zlInt64", "pkg/libs/cupcake/rdb/decoder.go", "rdbZiplistInt64", false},
	{"zlInt24", "pkg/libs/cupcake/rdb/decoder.go", "rdbZiplistInt24", false},
	{"zlInt8", "pkg/libs/cupcake/rdb/decoder.go", "rdbZiplistInt8", false},
	{"zlInt4", "pkg/libs/cupcake/rdb/decoder.go", "rdbZiplistInt4", false},
	{"encoderVersion", "pkg/libs/cupcake/rdb/encoder.go", "Version", false},
	{"pkgTypeString", "pkg/rdb/reader.go", "RdbTypeString", false},
	{"pkgTypeList", "pkg/rdb/reader.go", "RdbTypeList", false},
	{"pkgTypeSet", "pkg/rdb/reader.go", "RdbTypeSet", false},
	{"pkgTypeZSet", "pkg/rdb/reader.go", "RdbTypeZSet", false},
	{"pkgTypeHash", "pkg/rdb/reader.go", "RdbTypeHash", false},
}

func init() { register(genC12) }

func genC12() {
	var b strings.Builder
	b.WriteString(header)
	b.WriteString("namespace RSVerif.Generated.C12\n\n")
	for _, c := range c12ConstSpecs {
		fmt.Fprintf(&b, "/-- `%s` of %s -/\ndef %s : Int := %d\n", c.name, c.rel, c.lean, intConst(c.rel, c.name))
	}
	b.WriteString("\nend RSVerif.Generated.C12\n")
	writeIfChanged("C12Consts.lean", b.String())

	// fingerprints of the functions the C12 models transcribe
	dec := "pkg/libs/cupcake/rdb/decoder.go"
	for _, f := range []string{"readObject", "readZipmap", "readZiplist", "readZiplistZset", "readZiplistHash", "readIntset",
		"readString", "readLength", "readFloat64", "readDouble64"} {
		addFP("C12.decode."+f, dec, "decode", f)
	}
	for _, f := range []string{"DecodeDump", "readZipmapItem", "countZipmapItems", "readZipmapItemLength", "readZiplistLength",
		"readZiplistEntry", "verifyDump", "lzfDecompress"} {
		addFP("C12."+f, dec, "", f)
	}
	enc := "pkg/libs/cupcake/rdb/encoder.go"
	for _, f := range []string{"EncodeHeader", "EncodeFooter", "EncodeDumpFooter", "EncodeDatabase", "EncodeExpiry", "EncodeType",
		"EncodeString", "EncodeLength", "EncodeFloat", "encodeIntString"} {
		addFP("C12.Encoder."+f, enc, "Encoder", f)
	}
	for _, f := range []string{"Slice", "ReadByte", "Read", "Seek"} {
		addFP("C12.sliceBuffer."+f, "pkg/libs/cupcake/rdb/slice_buffer.go", "sliceBuffer", f)
	}
	addFP("C12.EncodeDump", "pkg/rdb/encoder.go", "", "EncodeDump")
	addFP("C12.Encoder.EncodeObject", "pkg/rdb/encoder.go", "Encoder", "EncodeObject")
	addFP("C12.pkgDecodeDump", "pkg/rdb/decoder.go", "", "DecodeDump")
	for _, f := range []string{"initObject", "Set", "StartHash", "Hset", "StartSet", "Sadd", "StartList", "Rpush", "StartZSet", "Zadd"} {
		addFP("C12.adaptor."+f, "pkg/rdb/decoder.go", "decoder", f)
	}
	addFP("C12.BinEntry.ObjEntry", "pkg/rdb/loader.go", "BinEntry", "ObjEntry")
	addFP("C12.ObjEntry.BinEntry", "pkg/rdb/loader.go", "ObjEntry", "BinEntry")
}
