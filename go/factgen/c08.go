package main

// C08 facts: the constants of the offset arithmetic, read off the AST of the functions the model
// (lean/RSVerif/Model/Offsets.lean) transcribes:
//   dbSync/syncBegin.go  pSyncPipeCopy       time.NewTicker(<period>), SendPSyncAck(bw, <0>) while WaitFull is open, 8192 copy buffer
//                        runIncrementalSync  time.Sleep(<reopen delay>), time.Sleep(<30 s>) after a refused PSYNC
//   dbSync/dbSyncer.go   incrementRetryCounter  `fullSyncRetryCounter > <3>`
//   common/utils.go      SendPSyncContinue   `if offset != <-1> { offset += <1> }`, `return runid, offset - <1>` on +CONTINUE
// Emits Generated/C08Offsets.lean. A shape that is not found is a factgen failure (reported by ./check).

import (
	"fmt"
	"go/ast"
	"go/token"
	"strings"
)

func init() { register(genC08) }

// duration expression in milliseconds: time.Second, N * time.Second, time.Millisecond * N, …
func c08DurMs(e ast.Expr) (int64, bool) {
	switch x := e.(type) {
	case *ast.ParenExpr:
		return c08DurMs(x.X)
	case *ast.SelectorExpr:
		if id, ok := x.X.(*ast.Ident); ok && id.Name == "time" {
			switch x.Sel.Name {
			case "Millisecond":
				return 1, true
			case "Second":
				return 1000, true
			case "Minute":
				return 60000, true
			case "Hour":
				return 3600000, true
			}
		}
	case *ast.BinaryExpr:
		if x.Op == token.MUL {
			if a, ok := evalInt(x.X, constEnv{}); ok {
				if b, ok := c08DurMs(x.Y); ok {
					return a * b, true
				}
			}
			if b, ok := evalInt(x.Y, constEnv{}); ok {
				if a, ok := c08DurMs(x.X); ok {
					return a * b, true
				}
			}
		}
	}
	return 0, false
}

func c08IsCall(e ast.Expr, pkg, name string) (*ast.CallExpr, bool) {
	c, ok := e.(*ast.CallExpr)
	if !ok {
		return nil, false
	}
	switch f := c.Fun.(type) {
	case *ast.SelectorExpr:
		if id, ok := f.X.(*ast.Ident); ok && id.Name == pkg && f.Sel.Name == name {
			return c, true
		}
	case *ast.Ident:
		if pkg == "" && f.Name == name {
			return c, true
		}
	}
	return nil, false
}

func genC08() {
	const sb = "redis-shake/dbSync/syncBegin.go"
	const dsf = "redis-shake/dbSync/dbSyncer.go"
	const ut = "redis-shake/common/utils.go"

	var period, reopen, refused []int64
	var idleAck []int64
	var copyBuf []int64
	ackExprs := []string{}
	if fd := funcDecl(sb, "DbSyncer", "pSyncPipeCopy"); fd != nil {
		ast.Inspect(fd, func(n ast.Node) bool {
			if e, ok := n.(ast.Expr); ok {
				if c, ok := c08IsCall(e, "time", "NewTicker"); ok && len(c.Args) == 1 {
					if v, ok := c08DurMs(c.Args[0]); ok {
						period = append(period, v)
					}
				}
				if c, ok := c08IsCall(e, "utils", "SendPSyncAck"); ok && len(c.Args) == 2 {
					if v, ok := evalInt(c.Args[1], constEnv{}); ok {
						idleAck = append(idleAck, v)
					} else {
						ackExprs = append(ackExprs, srcOf(c.Args[1]))
					}
				}
				if c, ok := c08IsCall(e, "", "make"); ok && len(c.Args) == 2 {
					if v, ok := evalInt(c.Args[1], constEnv{}); ok {
						copyBuf = append(copyBuf, v)
					}
				}
			}
			return true
		})
	} else {
		fail("%s: pSyncPipeCopy not found", sb)
	}
	psyncArgs := []string{}
	if fd := funcDecl(sb, "DbSyncer", "runIncrementalSync"); fd != nil {
		ast.Inspect(fd, func(n ast.Node) bool {
			if e, ok := n.(ast.Expr); ok {
				if c, ok := c08IsCall(e, "time", "Sleep"); ok && len(c.Args) == 1 {
					if v, ok := c08DurMs(c.Args[0]); ok {
						if len(reopen) == 0 {
							reopen = append(reopen, v)
						} else {
							refused = append(refused, v)
						}
					}
				}
				if c, ok := c08IsCall(e, "utils", "SendPSyncContinue"); ok && len(c.Args) == 4 {
					psyncArgs = append(psyncArgs, srcOf(c.Args[3]))
				}
			}
			return true
		})
	} else {
		fail("%s: runIncrementalSync not found", sb)
	}
	var maxRetries []int64
	if fd := funcDecl(dsf, "DbSyncer", "incrementRetryCounter"); fd != nil {
		ast.Inspect(fd, func(n ast.Node) bool {
			if b, ok := n.(*ast.BinaryExpr); ok && b.Op == token.GTR && strings.HasSuffix(srcOf(b.X), "fullSyncRetryCounter") {
				if v, ok := evalInt(b.Y, constEnv{}); ok {
					maxRetries = append(maxRetries, v)
				}
			}
			return true
		})
	} else {
		fail("%s: incrementRetryCounter not found", dsf)
	}
	var sentinel, inc, back []int64
	if fd := funcDecl(ut, "", "SendPSyncContinue"); fd != nil {
		ast.Inspect(fd, func(n ast.Node) bool {
			switch x := n.(type) {
			case *ast.IfStmt:
				if b, ok := x.Cond.(*ast.BinaryExpr); ok && b.Op == token.NEQ && srcOf(b.X) == "offset" {
					if v, ok := evalInt(b.Y, constEnv{}); ok && len(x.Body.List) == 1 {
						if as, ok := x.Body.List[0].(*ast.AssignStmt); ok && as.Tok == token.ADD_ASSIGN && srcOf(as.Lhs[0]) == "offset" {
							if d, ok := evalInt(as.Rhs[0], constEnv{}); ok {
								sentinel = append(sentinel, v)
								inc = append(inc, d)
							}
						}
					}
				}
			case *ast.ReturnStmt:
				if len(x.Results) == 4 {
					if b, ok := x.Results[1].(*ast.BinaryExpr); ok && b.Op == token.SUB && srcOf(b.X) == "offset" {
						if v, ok := evalInt(b.Y, constEnv{}); ok {
							back = append(back, v)
						}
					}
				}
			}
			return true
		})
	} else {
		fail("%s: SendPSyncContinue not found", ut)
	}
	one := func(what string, vs []int64) int64 {
		if len(vs) != 1 {
			fail("C08: expected exactly one %s, found %d", what, len(vs))
			return 0
		}
		return vs[0]
	}
	var b strings.Builder
	b.WriteString(header)
	b.WriteString("namespace RSVerif.Generated.C08\n\n")
	emit := func(name, doc string, v int64) {
		fmt.Fprintf(&b, "/-- %s -/\ndef %s : Int := %d\n", doc, name, v)
	}
	emit("ackPeriodMs", "`time.NewTicker(…)` of the ACK goroutine in pSyncPipeCopy, milliseconds", one("ticker in pSyncPipeCopy", period))
	if len(idleAck) == 0 {
		// no constant acknowledgement any more: the keep-alive is gone, which the property does not ask for
		emit("ackWaiting", "no constant `SendPSyncAck` argument in pSyncPipeCopy (keep-alive value of the model kept)", 0)
	} else {
		emit("ackWaiting", "offset acknowledged while ds.WaitFull is still open (`SendPSyncAck(bw, 0)`)", one("constant SendPSyncAck argument", idleAck))
	}
	emit("copyBuffer", "size of the copy buffer of pSyncPipeCopy", one("make([]byte, N) in pSyncPipeCopy", copyBuf))
	emit("reopenDelayMs", "`time.Sleep` before every reconnect attempt in runIncrementalSync, milliseconds", one("first time.Sleep in runIncrementalSync", reopen))
	emit("refusedDelayMs", "`time.Sleep` after a refused re-PSYNC, milliseconds", one("second time.Sleep in runIncrementalSync", refused))
	emit("maxRetries", "`fullSyncRetryCounter > N` aborts (incrementRetryCounter)", one("retry bound", maxRetries))
	emit("psyncSentinel", "SendPSyncContinue: `if offset != S`", one("`offset != S` in SendPSyncContinue", sentinel))
	emit("psyncInc", "SendPSyncContinue: `offset += D`", one("`offset += D` in SendPSyncContinue", inc))
	emit("psyncContBack", "SendPSyncContinue: `return runid, offset - B` on +CONTINUE", one("`offset - B` in SendPSyncContinue", back))
	b.WriteString("\n/-- the non-constant offset expressions as written in the source (documentation; the model transcribes them) -/\n")
	fmt.Fprintf(&b, "def ackExprs : List String := [%s]\n", c08Strs(ackExprs))
	fmt.Fprintf(&b, "def rePsyncExprs : List String := [%s]\n", c08Strs(psyncArgs))
	b.WriteString("\nend RSVerif.Generated.C08\n")
	writeIfChanged("C08Offsets.lean", b.String())

	addFP("C08.pSyncPipeCopy", sb, "DbSyncer", "pSyncPipeCopy")
	addFP("C08.runIncrementalSync", sb, "DbSyncer", "runIncrementalSync")
	addFP("C08.sendPSyncCmd", sb, "DbSyncer", "sendPSyncCmd")
	addFP("C08.incrementRetryCounter", dsf, "DbSyncer", "incrementRetryCounter")
	addFP("C08.SendPSyncContinue", ut, "", "SendPSyncContinue")
	addFP("C08.SendPSyncAck", ut, "", "SendPSyncAck")
}

func c08Strs(xs []string) string {
	q := make([]string, len(xs))
	for i, x := range xs {
		q[i] = leanStr(x)
	}
	return strings.Join(q, ", ")
}
