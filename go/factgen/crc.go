package main

import (
	"fmt"
	"strings"
)

func init() { register(genCrc) }

func genCrc() {
	var b strings.Builder
	b.WriteString(header)
	b.WriteString("namespace RSVerif.Generated\n\n")
	b.WriteString("/-- `crc64_table` of pkg/rdb/digest/crc64.go -/\n")
	emitTable(&b, "crc64TableDigest", "UInt64", arrayLit("pkg/rdb/digest/crc64.go", "crc64_table"), 16)
	b.WriteString("/-- `table` of pkg/libs/cupcake/rdb/crc64/crc64.go -/\n")
	emitTable(&b, "crc64TableCupcake", "UInt64", arrayLit("pkg/libs/cupcake/rdb/crc64/crc64.go", "table"), 16)
	b.WriteString("end RSVerif.Generated\n")
	writeIfChanged("Crc64Tables.lean", b.String())

	b.Reset()
	b.WriteString(header)
	b.WriteString("namespace RSVerif.Generated\n\n")
	b.WriteString("/-- `crc16tab` of redis-shake/common/crc16.go -/\n")
	emitTable(&b, "crc16TableCommon", "UInt16", arrayLit("redis-shake/common/crc16.go", "crc16tab"), 4)
	b.WriteString("/-- `crc16tab` of redis-shake/dbSync/latencymonitor/crc16.go -/\n")
	emitTable(&b, "crc16TableLatency", "UInt16", arrayLit("redis-shake/dbSync/latencymonitor/crc16.go", "crc16tab"), 4)
	fmt.Fprintf(&b, "def checkpointSuffixLen : Nat := %d\n", intConst("redis-shake/common/slot.go", "checkpointSuffixLen"))
	b.WriteString("end RSVerif.Generated\n")
	writeIfChanged("Crc16Tables.lean", b.String())

	addFP("C11.digest.update", "pkg/rdb/digest/crc64.go", "digest", "update")
	addFP("C11.cupcake.crc64", "pkg/libs/cupcake/rdb/crc64/crc64.go", "", "crc64")
	addFP("C15.crc16.common", "redis-shake/common/crc16.go", "", "crc16")
	addFP("C15.crc16.latency", "redis-shake/dbSync/latencymonitor/crc16.go", "", "crc16")
	addFP("C15.KeyToSlot", "redis-shake/common/slot.go", "", "KeyToSlot")
	addFP("C15.pickSuffixDfs", "redis-shake/common/slot.go", "", "pickSuffixDfs")
	addFP("C15.ChoseSlotInRange", "redis-shake/common/slot.go", "", "ChoseSlotInRange")
}
