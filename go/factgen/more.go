package main

func genMore() {}
