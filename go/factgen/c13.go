package main

import (
	"fmt"
	"go/ast"
	"strings"
)

// C13: the key-position table `RedisCommands` of redis-shake/filter/redis_command.go, row by row
// (name, firstkey, lastkey, keystep) in source order, plus the checkpoint key that FilterKey always filters.

func init() { register(genC13) }

func genC13() {
	const rel = "redis-shake/filter/redis_command.go"
	var b strings.Builder
	b.WriteString(header)
	b.WriteString("namespace RSVerif.Generated\n\n")
	b.WriteString("/-- rows of `RedisCommands` (" + rel + "): name, firstkey, lastkey, keystep — source order -/\n")
	b.WriteString("-- (names as byte lists: Go strings are bytes, and the kernel need not decode string literals)\n")
	b.WriteString("def redisCommands : List (List UInt8 × Int × Int × Int) := [\n")
	f := parse(rel)
	n := 0
	if f != nil {
		env := fileConsts(f)
		e, ok := env["RedisCommands"]
		if !ok {
			fail("%s: RedisCommands not found", rel)
		} else {
			if ie, ok := e.(*iotaExpr); ok {
				e = ie.Expr
			}
			cl, ok := e.(*ast.CompositeLit)
			if !ok {
				fail("%s: RedisCommands is not a composite literal", rel)
			} else {
				for _, el := range cl.Elts {
					kv, ok := el.(*ast.KeyValueExpr)
					if !ok {
						fail("%s: RedisCommands has a non key:value element", rel)
						continue
					}
					name, ok := evalStr(kv.Key, env)
					if !ok {
						fail("%s: RedisCommands has a non-constant key %s", rel, srcOf(kv.Key))
						continue
					}
					first, last, step, ok := c13Row(kv.Value, env)
					if !ok {
						fail("%s: row %q of RedisCommands is not {nil, int, int, int}: %s", rel, name, srcOf(kv.Value))
						continue
					}
					if n > 0 {
						b.WriteString(",\n")
					}
					fmt.Fprintf(&b, "  /- %s -/ (%s, %d, %d, %d)", c13Comment(name), leanBytes(name), first, last, step)
					n++
				}
			}
		}
	}
	b.WriteString("]\n\n")
	fmt.Fprintf(&b, "/-- `CheckpointKey` of redis-shake/common/common.go (FilterKey never passes a key with this prefix) -/\n")
	ck := strConst("redis-shake/common/common.go", "CheckpointKey")
	fmt.Fprintf(&b, "def c13CheckpointKey : List UInt8 := /- %s -/ %s\n\n", c13Comment(ck), leanBytes(ck))
	b.WriteString("end RSVerif.Generated\n")
	writeIfChanged("RedisCommands.lean", b.String())

	addFP("C13.getMatchKeys", rel, "", "getMatchKeys")
	addFP("C13.HandleFilterKeyWithCommand", "redis-shake/filter/filter.go", "", "HandleFilterKeyWithCommand")
	addFP("C13.FilterKey", "redis-shake/filter/filter.go", "", "FilterKey")
	addFP("C13.hasAtLeastOnePrefix", "redis-shake/filter/filter.go", "", "hasAtLeastOnePrefix")
	addFP("C13.ParseArgs", "pkg/redis/handler.go", "", "ParseArgs")
	addFP("C13.parseSourceCommand", "redis-shake/dbSync/syncIncrease.go", "DbSyncer", "parseSourceCommand")
}

// c13Row reads `{nil, first, last, step}` (positional) or the keyed form with the struct's field names.
func c13Row(v ast.Expr, env constEnv) (first, last, step int64, ok bool) {
	cl, isCl := v.(*ast.CompositeLit)
	if !isCl {
		return
	}
	vals := map[string]ast.Expr{}
	keyed := false
	for i, el := range cl.Elts {
		if kv, isKv := el.(*ast.KeyValueExpr); isKv {
			keyed = true
			id, isId := kv.Key.(*ast.Ident)
			if !isId {
				return
			}
			vals[id.Name] = kv.Value
		} else {
			if keyed || i > 3 {
				return
			}
			vals[[]string{"getkey_proc", "firstkey", "lastkey", "keystep"}[i]] = el
		}
	}
	if !keyed && len(cl.Elts) != 4 {
		return
	}
	if p, has := vals["getkey_proc"]; has {
		id, isId := p.(*ast.Ident)
		if !isId || id.Name != "nil" {
			return // a custom key extractor is outside the model
		}
	}
	get := func(name string) (int64, bool) {
		e, has := vals[name]
		if !has {
			return 0, keyed // omitted field of a keyed literal is the zero value
		}
		return evalInt(e, env)
	}
	var o1, o2, o3 bool
	first, o1 = get("firstkey")
	last, o2 = get("lastkey")
	step, o3 = get("keystep")
	ok = o1 && o2 && o3
	return
}

// leanBytes renders a Go string (a byte sequence) as a Lean `List UInt8` literal.
// c13Comment: printable rendering for a Lean block comment (no comment delimiters can appear).
func c13Comment(s string) string {
	var b strings.Builder
	for _, c := range []byte(s) {
		if c >= 32 && c <= 126 && c != '-' && c != '/' {
			b.WriteByte(c)
		} else if c == '-' {
			b.WriteByte('-')
		} else {
			fmt.Fprintf(&b, "\\x%02x", c)
		}
	}
	return strings.ReplaceAll(b.String(), "-/", "- /")
}
