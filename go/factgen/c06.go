package main

// C06 facts: the checkpoint key constant, the keys of filter.innerFilterKeys, and the command-name
// literals FilterCommands compares against (split by whether the comparison is guarded by FilterLua).
// Written to Generated/FilterConsts.lean.

import (
	"fmt"
	"go/ast"
	"go/token"
	"strconv"
	"strings"
)

func init() { register(genC06) }

// mentions reports whether the expression mentions the identifier/selector name.
func mentions(n ast.Node, name string) bool {
	found := false
	ast.Inspect(n, func(x ast.Node) bool {
		if id, ok := x.(*ast.Ident); ok && id.Name == name {
			found = true
		}
		return !found
	})
	return found
}

// equalFoldLits collects the string literals L of every `strings.EqualFold(<x>, L)` inside n.
func equalFoldLits(n ast.Node) []string {
	var out []string
	ast.Inspect(n, func(x ast.Node) bool {
		ce, ok := x.(*ast.CallExpr)
		if !ok {
			return true
		}
		se, ok := ce.Fun.(*ast.SelectorExpr)
		if !ok || se.Sel.Name != "EqualFold" || len(ce.Args) != 2 {
			return true
		}
		if bl, ok := ce.Args[1].(*ast.BasicLit); ok && bl.Kind == token.STRING {
			if s, err := strconv.Unquote(bl.Value); err == nil {
				out = append(out, s)
			}
		}
		return true
	})
	return out
}

// okFilterCond: the condition is built only from strings.EqualFold(<ident>, "<literal>"),
// conf.Options.FilterLua, &&, || and parentheses.
func okFilterCond(e ast.Expr) bool {
	switch x := e.(type) {
	case *ast.ParenExpr:
		return okFilterCond(x.X)
	case *ast.BinaryExpr:
		return (x.Op == token.LAND || x.Op == token.LOR) && okFilterCond(x.X) && okFilterCond(x.Y)
	case *ast.SelectorExpr:
		return x.Sel.Name == "FilterLua"
	case *ast.CallExpr:
		se, ok := x.Fun.(*ast.SelectorExpr)
		if !ok || se.Sel.Name != "EqualFold" || len(x.Args) != 2 {
			return false
		}
		_, isIdent := x.Args[0].(*ast.Ident)
		bl, isLit := x.Args[1].(*ast.BasicLit)
		return isIdent && isLit && bl.Kind == token.STRING
	}
	return false
}

func isReturnBool(st ast.Stmt, val string) bool {
	rs, ok := st.(*ast.ReturnStmt)
	if !ok || len(rs.Results) != 1 {
		return false
	}
	id, ok := rs.Results[0].(*ast.Ident)
	return ok && id.Name == val
}

// filterCommandsShape recognises the shape `if <cond> { return true } … return false` of FilterCommands and
// returns the compared literals, split by whether the condition is guarded by FilterLua. A different shape
// (a refactoring) is NOT an error: the tie then rests on the differential run alone.
func filterCommandsShape(fd *ast.FuncDecl) (always, lua []string, ok bool) {
	if fd == nil || fd.Body == nil || len(fd.Body.List) == 0 {
		return nil, nil, false
	}
	n := len(fd.Body.List)
	if !isReturnBool(fd.Body.List[n-1], "false") {
		return nil, nil, false
	}
	for _, st := range fd.Body.List[:n-1] {
		is, isIf := st.(*ast.IfStmt)
		if !isIf || is.Init != nil || is.Else != nil || len(is.Body.List) != 1 || !isReturnBool(is.Body.List[0], "true") ||
			!okFilterCond(is.Cond) {
			return nil, nil, false
		}
		lits := equalFoldLits(is.Cond)
		if mentions(is.Cond, "FilterLua") {
			// guarded form must be `FilterLua && (…)` so that every literal is under the guard
			be, isBin := is.Cond.(*ast.BinaryExpr)
			if !isBin || be.Op != token.LAND || !mentions(be.X, "FilterLua") || len(equalFoldLits(be.X)) != 0 {
				return nil, nil, false
			}
			lua = append(lua, lits...)
		} else {
			always = append(always, lits...)
		}
	}
	return always, lua, true
}

// innerKeys recognises `innerFilterKeys = map[string]struct{}{ utils.<Const>: {}, "lit": {} }`.
func innerKeys(filt, common string) (keys []string, ok bool) {
	f := parse(filt)
	if f == nil {
		return nil, false
	}
	e, found := fileConsts(f)["innerFilterKeys"]
	if !found {
		return nil, false
	}
	if ie, isIota := e.(*iotaExpr); isIota {
		e = ie.Expr
	}
	cl, isLit := e.(*ast.CompositeLit)
	if !isLit {
		return nil, false
	}
	cenv := fileConsts(parse(common))
	for _, el := range cl.Elts {
		kv, isKV := el.(*ast.KeyValueExpr)
		if !isKV {
			return nil, false
		}
		switch k := kv.Key.(type) {
		case *ast.SelectorExpr: // utils.<Const>
			ce, has := cenv[k.Sel.Name]
			if !has {
				return nil, false
			}
			v, good := evalStr(ce, cenv)
			if !good {
				return nil, false
			}
			keys = append(keys, v)
		case *ast.BasicLit:
			v, err := strconv.Unquote(k.Value)
			if err != nil || k.Kind != token.STRING {
				return nil, false
			}
			keys = append(keys, v)
		default:
			return nil, false
		}
	}
	return keys, true
}

func leanBool(b bool) string {
	if b {
		return "true"
	}
	return "false"
}

func genC06() {
	const common = "redis-shake/common/common.go"
	const filt = "redis-shake/filter/filter.go"
	ck := strConst(common, "CheckpointKey")
	inner, innerOK := innerKeys(filt, common)
	always, lua, cmdOK := filterCommandsShape(funcDecl(filt, "", "FilterCommands"))

	var b strings.Builder
	b.WriteString(header)
	b.WriteString("namespace RSVerif.Generated\n\n")
	fmt.Fprintf(&b, "/-- `CheckpointKey` of %s: %s -/\n", common, strconv.Quote(ck))
	fmt.Fprintf(&b, "def checkpointKey : List UInt8 := %s\n\n", leanBytes(ck))
	fmt.Fprintf(&b, "/-- the map literal `innerFilterKeys` of %s has the recognised shape (else the list below is empty) -/\n", filt)
	fmt.Fprintf(&b, "def innerKeysRecognised : Bool := %s\n\n", leanBool(innerOK))
	fmt.Fprintf(&b, "/-- keys of `innerFilterKeys` of %s -/\n", filt)
	fmt.Fprintf(&b, "def innerFilterKeys : List (List UInt8) := %s\n\n", leanBytesList(inner))
	fmt.Fprintf(&b, "/-- `FilterCommands` of %s has the recognised shape `if <EqualFold…> { return true } … return false`\n    (else the two lists below are empty and the tie rests on the differential run) -/\n", filt)
	fmt.Fprintf(&b, "def filterCmdRecognised : Bool := %s\n\n", leanBool(cmdOK))
	fmt.Fprintf(&b, "/-- FilterCommands: names compared (EqualFold) unconditionally: %q -/\n", always)
	fmt.Fprintf(&b, "def filterCmdAlways : List (List UInt8) := %s\n\n", leanBytesList(always))
	fmt.Fprintf(&b, "/-- FilterCommands: names compared (EqualFold) under `conf.Options.FilterLua`: %q -/\n", lua)
	fmt.Fprintf(&b, "def filterCmdLua : List (List UInt8) := %s\n\n", leanBytesList(lua))
	b.WriteString("end RSVerif.Generated\n")
	writeIfChanged("FilterConsts.lean", b.String())

	addFP("C06.FilterCommands", filt, "", "FilterCommands")
	addFP("C06.FilterKey", filt, "", "FilterKey")
	addFP("C06.FilterSlot", filt, "", "FilterSlot")
	addFP("C06.FilterDB", filt, "", "FilterDB")
	addFP("C06.hasAtLeastOnePrefix", filt, "", "hasAtLeastOnePrefix")
	addFP("C06.matchOne", filt, "", "matchOne")
	addFP("C06.syncRDBFile", "redis-shake/dbSync/syncRDB.go", "DbSyncer", "syncRDBFile")
	addFP("C06.parseSourceCommand", "redis-shake/dbSync/syncIncrease.go", "DbSyncer", "parseSourceCommand")
	addFP("C06.restoreRDBFile", "redis-shake/restore.go", "dbRestorer", "restoreRDBFile")
	addFP("C06.restoreCommand", "redis-shake/restore.go", "dbRestorer", "restoreCommand")
	addFP("C06.rump.fetcher", "redis-shake/rump.go", "dbRumperExecutor", "fetcher")
	addFP("C06.rump.doFetch", "redis-shake/rump.go", "dbRumperExecutor", "doFetch")
	addFP("C06.rump.getSourceDbList", "redis-shake/rump.go", "dbRumperExecutor", "getSourceDbList")
}
