// factgen: extracts data facts (tables, constants, command rows, function
// fingerprints) from the CURRENT /repo/src sources with go/parser (no type
// checking, so it works on packages that do not compile) and writes them as
// Lean source under RSVerif/Generated. Re-run on every check.
package main

import (
	"bytes"
	"crypto/sha256"
	"flag"
	"fmt"
	"go/ast"
	"go/parser"
	"go/printer"
	"go/token"
	"os"
	"path/filepath"
	"reflect"
	"runtime"
	"sort"
	"strconv"
	"strings"
)

var repo, outDir string
var fset = token.NewFileSet()
var parsed = map[string]*ast.File{}
var failures []string

func fail(format string, a ...interface{}) {
	failures = append(failures, fmt.Sprintf(format, a...))
}

func parse(rel string) *ast.File {
	if f, ok := parsed[rel]; ok {
		return f
	}
	f, err := parser.ParseFile(fset, filepath.Join(repo, rel), nil, parser.SkipObjectResolution)
	if err != nil {
		fail("parse %s: %v", rel, err)
		parsed[rel] = nil
		return nil
	}
	parsed[rel] = f
	return f
}

// ---------- constant folding over go/ast ----------

type constEnv map[string]ast.Expr

func fileConsts(f *ast.File) constEnv {
	env := constEnv{}
	if f == nil {
		return env
	}
	for _, d := range f.Decls {
		gd, ok := d.(*ast.GenDecl)
		if !ok || (gd.Tok != token.CONST && gd.Tok != token.VAR) {
			continue
		}
		var lastVals []ast.Expr
		iota := 0
		for _, s := range gd.Specs {
			vs := s.(*ast.ValueSpec)
			vals := vs.Values
			if len(vals) == 0 && gd.Tok == token.CONST {
				vals = lastVals
			} else {
				lastVals = vals
			}
			for i, n := range vs.Names {
				if i < len(vals) {
					if _, dup := env[n.Name]; !dup {
						env[n.Name] = substIota(vals[i], iota)
					}
				}
			}
			iota++
		}
	}
	return env
}

func substIota(e ast.Expr, iota int) ast.Expr {
	// shallow: only handles `iota`, `iota + k`, `k + iota`, `1 << iota` via eval with special ident
	return &iotaExpr{e, iota}
}

type iotaExpr struct {
	ast.Expr
	iota int
}

func evalInt(e ast.Expr, env constEnv) (int64, bool) { return evalIntI(e, env, -1, 0) }

func evalIntI(e ast.Expr, env constEnv, iota int, depth int) (int64, bool) {
	if depth > 50 {
		return 0, false
	}
	switch x := e.(type) {
	case *iotaExpr:
		return evalIntI(x.Expr, env, x.iota, depth+1)
	case *ast.BasicLit:
		switch x.Kind {
		case token.INT:
			v, err := strconv.ParseUint(strings.ReplaceAll(x.Value, "_", ""), 0, 64)
			if err != nil {
				return 0, false
			}
			return int64(v), true
		case token.CHAR:
			s, err := strconv.Unquote(x.Value)
			if err != nil || len(s) == 0 {
				return 0, false
			}
			return int64([]rune(s)[0]), true
		}
	case *ast.Ident:
		if x.Name == "iota" && iota >= 0 {
			return int64(iota), true
		}
		if v, ok := env[x.Name]; ok {
			return evalIntI(v, env, -1, depth+1)
		}
		if v, ok := ctxEnv[x.Name]; ok { // a named constant of the package / of the function last looked up
			return evalIntI(v, ctxEnv, -1, depth+1)
		}
	case *ast.ParenExpr:
		return evalIntI(x.X, env, iota, depth+1)
	case *ast.UnaryExpr:
		v, ok := evalIntI(x.X, env, iota, depth+1)
		if !ok {
			return 0, false
		}
		switch x.Op {
		case token.SUB:
			return -v, true
		case token.ADD:
			return v, true
		}
	case *ast.CallExpr: // conversions like uint16(8), int64(x), byte(x)
		if id, ok := x.Fun.(*ast.Ident); ok && len(x.Args) == 1 {
			switch id.Name {
			case "int", "int8", "int16", "int32", "int64", "uint", "uint8", "uint16", "uint32", "uint64", "byte":
				return evalIntI(x.Args[0], env, iota, depth+1)
			}
		}
	case *ast.BinaryExpr:
		a, ok1 := evalIntI(x.X, env, iota, depth+1)
		b, ok2 := evalIntI(x.Y, env, iota, depth+1)
		if !ok1 || !ok2 {
			return 0, false
		}
		switch x.Op {
		case token.ADD:
			return a + b, true
		case token.SUB:
			return a - b, true
		case token.MUL:
			return a * b, true
		case token.QUO:
			if b == 0 {
				return 0, false
			}
			return a / b, true
		case token.SHL:
			return a << uint(b), true
		case token.SHR:
			return int64(uint64(a) >> uint(b)), true
		case token.OR:
			return a | b, true
		case token.AND:
			return a & b, true
		}
	}
	return 0, false
}

func evalStr(e ast.Expr, env constEnv) (string, bool) {
	switch x := e.(type) {
	case *iotaExpr:
		return evalStr(x.Expr, env)
	case *ast.BasicLit:
		if x.Kind == token.STRING {
			s, err := strconv.Unquote(x.Value)
			return s, err == nil
		}
	case *ast.Ident:
		if v, ok := env[x.Name]; ok {
			return evalStr(v, env)
		}
		if v, ok := ctxEnv[x.Name]; ok {
			delete(ctxEnv, x.Name) // guards against a cyclic definition
			s, ok2 := evalStr(v, ctxEnv)
			ctxEnv[x.Name] = v
			return s, ok2
		}
	case *ast.BinaryExpr:
		if x.Op == token.ADD {
			a, ok1 := evalStr(x.X, env)
			b, ok2 := evalStr(x.Y, env)
			return a + b, ok1 && ok2
		}
	case *ast.ParenExpr:
		return evalStr(x.X, env)
	}
	return "", false
}

// intConst returns the folded integer value of a package-level const/var.
func intConst(rel, name string) int64 {
	f := parse(rel)
	env := fileConsts(f)
	e, ok := env[name]
	if !ok {
		// moved to another file of the package?
		if e2, ok2 := pkgEnv(filepath.Dir(rel))[name]; ok2 {
			e, ok, env = e2, true, pkgEnv(filepath.Dir(rel))
		}
	}
	if !ok {
		fail("%s: constant %s not found", rel, name)
		return 0
	}
	v, ok := evalInt(e, env)
	if !ok {
		fail("%s: constant %s not foldable", rel, name)
	}
	return v
}

func strConst(rel, name string) string {
	f := parse(rel)
	env := fileConsts(f)
	e, ok := env[name]
	if !ok {
		if e2, ok2 := pkgEnv(filepath.Dir(rel))[name]; ok2 {
			e, ok, env = e2, true, pkgEnv(filepath.Dir(rel))
		}
	}
	if !ok {
		fail("%s: string constant %s not found", rel, name)
		return ""
	}
	v, ok := evalStr(e, env)
	if !ok {
		fail("%s: string constant %s not foldable", rel, name)
	}
	return v
}

// arrayLit returns the elements of `var name = [N]T{...}` (integers).
func arrayLit(rel, name string) []uint64 {
	f := parse(rel)
	if f == nil {
		return nil
	}
	env := fileConsts(f)
	e, ok := env[name]
	if !ok {
		// renamed? the table is then the ONE package-level composite literal of the file with 256 or more elements
		var cands []ast.Expr
		for _, v := range env {
			x := v
			if ie, ok := x.(*iotaExpr); ok {
				x = ie.Expr
			}
			if cl, ok := x.(*ast.CompositeLit); ok && len(cl.Elts) >= 256 {
				cands = append(cands, v)
			}
		}
		if len(cands) != 1 {
			fail("%s: table %s not found", rel, name)
			return nil
		}
		e = cands[0]
	}
	if ie, ok := e.(*iotaExpr); ok {
		e = ie.Expr
	}
	cl, ok := e.(*ast.CompositeLit)
	if !ok {
		fail("%s: %s is not a composite literal", rel, name)
		return nil
	}
	var out []uint64
	for _, el := range cl.Elts {
		v, ok := evalInt(el, env)
		if !ok {
			fail("%s: %s has a non-constant element", rel, name)
			return nil
		}
		out = append(out, uint64(v))
	}
	return out
}

// ctxEnv: the CONSTANTS (not vars) visible in the function funcDecl returned last — those of every file of its package
// plus the ones declared inside the function. Expression evaluation falls back to it, so that `count == 100` and
// `count == batchSize` (with `const batchSize = 100` anywhere in the package or in the function) read the same.
var ctxEnv = constEnv{}

var pkgEnvCache = map[string]constEnv{}

func pkgFiles(dir string) []string {
	ents, err := os.ReadDir(filepath.Join(repo, dir))
	if err != nil {
		return nil
	}
	var out []string
	for _, e := range ents {
		n := e.Name()
		if !e.IsDir() && strings.HasSuffix(n, ".go") && !strings.HasSuffix(n, "_test.go") {
			out = append(out, filepath.Join(dir, n))
		}
	}
	sort.Strings(out)
	return out
}

func constDecls(decls []ast.Decl, env constEnv) {
	for _, d := range decls {
		gd, ok := d.(*ast.GenDecl)
		if !ok || gd.Tok != token.CONST {
			continue
		}
		var lastVals []ast.Expr
		iota := 0
		for _, s := range gd.Specs {
			vs := s.(*ast.ValueSpec)
			vals := vs.Values
			if len(vals) == 0 {
				vals = lastVals
			} else {
				lastVals = vals
			}
			for i, n := range vs.Names {
				if i < len(vals) {
					if _, dup := env[n.Name]; !dup {
						env[n.Name] = substIota(vals[i], iota)
					}
				}
			}
			iota++
		}
	}
}

func pkgEnv(dir string) constEnv {
	if e, ok := pkgEnvCache[dir]; ok {
		return e
	}
	env := constEnv{}
	for _, rel := range pkgFiles(dir) {
		if f := parseQuiet(rel); f != nil {
			constDecls(f.Decls, env)
		}
	}
	pkgEnvCache[dir] = env
	return env
}

// parseQuiet: like parse, but a file that does not parse is not a failure of the extraction (only the anchored
// files are required to parse)
func parseQuiet(rel string) *ast.File {
	if f, ok := parsed[rel]; ok {
		return f
	}
	f, err := parser.ParseFile(fset, filepath.Join(repo, rel), nil, parser.SkipObjectResolution)
	if err != nil {
		return nil
	}
	parsed[rel] = f
	return f
}

func findFunc(f *ast.File, recv, name string) *ast.FuncDecl {
	if f == nil {
		return nil
	}
	for _, d := range f.Decls {
		fd, ok := d.(*ast.FuncDecl)
		if !ok || fd.Name.Name != name {
			continue
		}
		r := ""
		if fd.Recv != nil && len(fd.Recv.List) == 1 {
			t := fd.Recv.List[0].Type
			if st, ok := t.(*ast.StarExpr); ok {
				t = st.X
			}
			if id, ok := t.(*ast.Ident); ok {
				r = id.Name
			}
		}
		if r == recv {
			return fd
		}
	}
	return nil
}

// funcDecl finds a function (recv == "" for plain functions, else receiver type name without *) in the given file or,
// when it was moved, in another file of the same package; it also sets ctxEnv.
// withCallees: fd and the functions/methods of its package that it calls, transitively (a tidy-up may move a case body or a loop
// into a helper; a fact about "the code of f" is a fact about f and what f hands the work to)
func withCallees(rel string, fd *ast.FuncDecl) []*ast.FuncDecl {
	if fd == nil {
		return nil
	}
	byName := map[string]*ast.FuncDecl{}
	for _, file := range pkgFiles(filepath.Dir(rel)) {
		f := parseQuiet(file)
		if f == nil {
			continue
		}
		for _, d := range f.Decls {
			if x, ok := d.(*ast.FuncDecl); ok && x.Body != nil {
				if _, dup := byName[x.Name.Name]; !dup {
					byName[x.Name.Name] = x
				}
			}
		}
	}
	seen := map[*ast.FuncDecl]bool{fd: true}
	out := []*ast.FuncDecl{fd}
	for i := 0; i < len(out) && len(out) < 40; i++ {
		ast.Inspect(out[i].Body, func(n ast.Node) bool {
			ce, ok := n.(*ast.CallExpr)
			if !ok {
				return true
			}
			name := ""
			switch f := ce.Fun.(type) {
			case *ast.Ident:
				name = f.Name
			case *ast.SelectorExpr:
				if _, isIdent := f.X.(*ast.Ident); isIdent {
					name = f.Sel.Name
				}
			}
			if c := byName[name]; c != nil && !seen[c] && !ast.IsExported(name) {
				seen[c] = true
				out = append(out, c)
			}
			return true
		})
	}
	return out
}

func funcDecl(rel, recv, name string) *ast.FuncDecl {
	fd := findFunc(parse(rel), recv, name)
	if fd == nil {
		for _, other := range pkgFiles(filepath.Dir(rel)) {
			if other == rel {
				continue
			}
			if fd = findFunc(parseQuiet(other), recv, name); fd != nil {
				break
			}
		}
	}
	ctxEnv = constEnv{}
	for k, v := range pkgEnv(filepath.Dir(rel)) {
		ctxEnv[k] = v
	}
	if fd != nil && fd.Body != nil {
		local := constEnv{}
		ast.Inspect(fd.Body, func(n ast.Node) bool {
			if ds, ok := n.(*ast.DeclStmt); ok {
				constDecls([]ast.Decl{ds.Decl}, local)
			}
			return true
		})
		for k, v := range local {
			ctxEnv[k] = v
		}
	}
	return fd
}

func srcOf(n ast.Node) string {
	var b bytes.Buffer
	printer.Fprint(&b, fset, n)
	return b.String()
}

// fingerprint = sha256 of the comment-free, gofmt-normalised source of a function.
func fingerprint(rel, recv, name string) string {
	fd := funcDecl(rel, recv, name)
	if fd == nil {
		return "MISSING"
	}
	cp := *fd
	cp.Doc = nil
	h := sha256.Sum256([]byte(srcOf(&cp)))
	return fmt.Sprintf("%x", h[:8])
}

// ---------- Lean emission ----------

func leanStr(s string) string {
	var b strings.Builder
	b.WriteByte('"')
	for _, c := range []byte(s) {
		switch {
		case c == '"':
			b.WriteString("\\\"")
		case c == '\\':
			b.WriteString("\\\\")
		case c == '\n':
			b.WriteString("\\n")
		case c == '\r':
			b.WriteString("\\r")
		case c == '\t':
			b.WriteString("\\t")
		case c < 32 || c > 126:
			fmt.Fprintf(&b, "\\x%02x", c)
		default:
			b.WriteByte(c)
		}
	}
	b.WriteByte('"')
	return b.String()
}

// leanBytes renders a Go string as a Lean `List UInt8` literal.
func leanBytes(s string) string {
	var b strings.Builder
	b.WriteByte('[')
	for i, c := range []byte(s) {
		if i > 0 {
			b.WriteString(", ")
		}
		fmt.Fprintf(&b, "0x%02x", c)
	}
	b.WriteByte(']')
	return b.String()
}

func leanBytesList(ss []string) string {
	parts := make([]string, len(ss))
	for i, s := range ss {
		parts[i] = leanBytes(s)
	}
	return "[" + strings.Join(parts, ", ") + "]"
}

// pending: the files of the generator that is running; they are written only if it recognised everything it looks for
var pending map[string]string

func writeIfChanged(name, content string) {
	if pending != nil {
		pending[name] = content
		return
	}
	writeNow(name, content)
}

func writeNow(name, content string) {
	p := filepath.Join(outDir, name)
	old, err := os.ReadFile(p)
	if err == nil && string(old) == content {
		return
	}
	if err := os.WriteFile(p, []byte(content), 0644); err != nil {
		fail("write %s: %v", p, err)
	}
}

func emitTable(b *strings.Builder, leanName, ty string, vals []uint64, width int) {
	fmt.Fprintf(b, "def %s : Array %s := #[\n", leanName, ty)
	for i, v := range vals {
		if i > 0 {
			b.WriteString(",")
			if i%4 == 0 {
				b.WriteString("\n")
			}
		}
		fmt.Fprintf(b, " 0x%0*x", width, v)
	}
	b.WriteString("]\n\n")
}

var header = "-- GENERATED by /verif/go/factgen from the current /repo/src. DO NOT EDIT.\n"

type fp struct{ key, rel, recv, name string }

var fingerprints []fp

// generators are registered by the per-property files (init functions).
type generator struct {
	name string
	fn   func()
}

var generators []generator

func register(g func()) {
	n := runtime.FuncForPC(reflect.ValueOf(g).Pointer()).Name()
	generators = append(generators, generator{strings.TrimPrefix(n, "main."), g})
}

func addFP(key, rel, recv, name string) {
	fingerprints = append(fingerprints, fp{key, rel, recv, name})
}

// refDir: the generated files of the tree the models were written against (corpus/generated.ref, recorded together
// with the anchor hashes). When a generator does not RECOGNISE the shape of the source any more (a function was
// restructured, a literal became a named expression it cannot fold, a closure was lifted …) it cannot say what the
// fact is now; that is not a changed fact. Its files are then taken from refDir, the generator is listed in
// factgen.unrecognised, and ./check ties the model of the affected properties by the correspondence run alone (with the
// escalated budget) and says so. A fact that IS recognised and differs is written as it is and breaks its theorem.
var refDir string

func main() {
	flag.StringVar(&repo, "repo", "/repo/src", "module root")
	flag.StringVar(&outDir, "out", "/verif/lean/RSVerif/Generated", "output dir")
	flag.StringVar(&refDir, "ref", "", "reference copies of the generated files")
	flag.Parse()
	os.MkdirAll(outDir, 0755)
	var unrecognised []string
	for _, g := range generators {
		before := len(failures)
		pending = map[string]string{}
		func() {
			defer func() {
				if e := recover(); e != nil {
					fail("%s: extractor panicked: %v", g.name, e)
				}
			}()
			g.fn()
		}()
		files := pending
		pending = nil
		if len(failures) == before {
			for n, c := range files {
				writeNow(n, c)
			}
			continue
		}
		msgs := append([]string{}, failures[before:]...)
		restored := len(files) > 0 && refDir != ""
		if restored {
			for n := range files {
				ref, err := os.ReadFile(filepath.Join(refDir, n))
				if err != nil {
					restored = false
					break
				}
				files[n] = string(ref)
			}
		}
		if !restored {
			continue // hard failure: the messages stay in `failures`
		}
		failures = failures[:before]
		for n, c := range files {
			writeNow(n, c)
		}
		for _, m := range msgs {
			unrecognised = append(unrecognised, g.name+"\t"+strings.ReplaceAll(m, "\n", " "))
		}
	}
	// fingerprints
	sort.Slice(fingerprints, func(i, j int) bool { return fingerprints[i].key < fingerprints[j].key })
	var b strings.Builder
	for _, f := range fingerprints {
		fmt.Fprintf(&b, "%s %s\n", f.key, fingerprint(f.rel, f.recv, f.name))
	}
	writeIfChanged("fingerprints.txt", b.String())
	if len(unrecognised) > 0 {
		os.WriteFile(filepath.Join(outDir, "factgen.unrecognised"), []byte(strings.Join(unrecognised, "\n")+"\n"), 0644)
		for _, u := range unrecognised {
			fmt.Println("UNRECOGNISED\t" + u)
		}
	} else {
		os.Remove(filepath.Join(outDir, "factgen.unrecognised"))
	}
	if len(failures) > 0 {
		for _, f := range failures {
			fmt.Fprintln(os.Stderr, "factgen: "+f)
		}
		os.WriteFile(filepath.Join(outDir, "factgen.failures"), []byte(strings.Join(failures, "\n")+"\n"), 0644)
		os.Exit(3)
	}
	os.Remove(filepath.Join(outDir, "factgen.failures"))
}
