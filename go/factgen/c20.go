package main

// C20 facts: the retry depth the supervisor is constructed with, and the two role tests of the line loop of
// getRedisNodeState (as regular expressions) — written to Generated/Supervisor.lean on every run.

import (
	"fmt"
	"go/ast"
	"strings"
)

func init() { register(genC20) }

const c20File = "redis-shake/dbSync/slotsupervisor/supervisor.go"

// c20MaxRetries: the value of the `maxRetries:` field of the composite literal built in New().
func c20MaxRetries() int64 {
	fd := funcDecl(c20File, "", "New")
	if fd == nil {
		fail("%s: func New not found", c20File)
		return 0
	}
	env := fileConsts(parse(c20File))
	found := 0
	var val int64
	ast.Inspect(fd, func(n ast.Node) bool {
		kv, ok := n.(*ast.KeyValueExpr)
		if !ok {
			return true
		}
		if id, ok := kv.Key.(*ast.Ident); ok && id.Name == "maxRetries" {
			v, ok := evalInt(kv.Value, env)
			if !ok {
				fail("%s: maxRetries in New() is not a foldable constant", c20File)
			}
			val = v
			found++
		}
		return true
	})
	if found != 1 {
		fail("%s: expected exactly one maxRetries field in New(), found %d", c20File, found)
	}
	return val
}

// c20Patterns: the two tests of the line loop of getRedisNodeState,
//     for … range strings.Split(resp, "\n") { if <master test> { return true, nil } else if <slave test> { return false, nil } }
// rendered as regular expressions. A test is `X.MatchString(line)` with `X := regexp.MustCompile("…")`
// (function-local or package-level), or `strings.HasPrefix(line, "lit")` (= `^lit`), or
// `strings.Contains(line, "lit")` (= `lit`).
func c20Patterns() (string, string) {
	f := parse(c20File)
	if f == nil {
		return "", ""
	}
	env := fileConsts(f)
	regexVars := map[string]string{}
	dup := map[string]bool{}
	grab := func(lhs ast.Expr, rhs ast.Expr) {
		id, ok := lhs.(*ast.Ident)
		if !ok {
			return
		}
		call, ok := rhs.(*ast.CallExpr)
		if !ok || len(call.Args) != 1 || srcOf(call.Fun) != "regexp.MustCompile" {
			return
		}
		s, ok := evalStr(call.Args[0], env)
		if !ok {
			fail("%s: pattern of %s is not a constant string", c20File, id.Name)
			return
		}
		if _, seen := regexVars[id.Name]; seen {
			dup[id.Name] = true
		}
		regexVars[id.Name] = s
	}
	ast.Inspect(f, func(n ast.Node) bool {
		switch x := n.(type) {
		case *ast.AssignStmt:
			for i := range x.Lhs {
				if i < len(x.Rhs) {
					grab(x.Lhs[i], x.Rhs[i])
				}
			}
		case *ast.ValueSpec:
			for i := range x.Names {
				if i < len(x.Values) {
					grab(x.Names[i], x.Values[i])
				}
			}
		}
		return true
	})
	pattern := func(cond ast.Expr, what string) string {
		call, ok := cond.(*ast.CallExpr)
		if !ok {
			fail("%s: the %s test of getRedisNodeState is not a single call: %s", c20File, what, srcOf(cond))
			return ""
		}
		fn := srcOf(call.Fun)
		switch {
		case strings.HasSuffix(fn, ".MatchString") && len(call.Args) == 1:
			v := strings.TrimSuffix(fn, ".MatchString")
			p, ok := regexVars[v]
			if !ok || dup[v] {
				fail("%s: %s test uses %s, which is not defined by exactly one regexp.MustCompile(\"…\")", c20File, what, v)
			}
			return p
		case (fn == "strings.HasPrefix" || fn == "strings.Contains") && len(call.Args) == 2:
			lit, ok := evalStr(call.Args[1], env)
			if !ok {
				fail("%s: %s test compares with a non-constant string", c20File, what)
				return ""
			}
			for _, c := range []byte(lit) {
				if strings.IndexByte("\\.+*?()|[]{}^$", c) >= 0 {
					fail("%s: %s test literal %q contains a regexp metacharacter; the model cannot render it", c20File, what, lit)
				}
			}
			if fn == "strings.HasPrefix" {
				return "^" + lit
			}
			return lit
		}
		fail("%s: the %s test of getRedisNodeState has an unknown shape: %s", c20File, what, srcOf(cond))
		return ""
	}
	fd := funcDecl(c20File, "slotSupervisor", "getRedisNodeState")
	if fd == nil {
		fail("%s: getRedisNodeState not found", c20File)
		return "", ""
	}
	var loops []*ast.RangeStmt
	ast.Inspect(fd, func(n ast.Node) bool {
		if r, ok := n.(*ast.RangeStmt); ok {
			loops = append(loops, r)
		}
		return true
	})
	if len(loops) != 1 {
		fail("%s: expected exactly one range loop in getRedisNodeState, found %d", c20File, len(loops))
		return "", ""
	}
	var ifs []*ast.IfStmt
	for _, st := range loops[0].Body.List {
		if i, ok := st.(*ast.IfStmt); ok {
			ifs = append(ifs, i)
		}
	}
	if len(ifs) != 1 {
		fail("%s: expected exactly one if-chain in the line loop of getRedisNodeState, found %d", c20File, len(ifs))
		return "", ""
	}
	first := ifs[0]
	second, ok := first.Else.(*ast.IfStmt)
	if !ok || second.Else != nil || first.Init != nil || second.Init != nil {
		fail("%s: the line loop of getRedisNodeState is not `if … {} else if … {}`", c20File)
		return "", ""
	}
	returns := func(b *ast.BlockStmt, want string) bool {
		if len(b.List) != 1 {
			return false
		}
		r, ok := b.List[0].(*ast.ReturnStmt)
		return ok && len(r.Results) == 2 && srcOf(r.Results[0]) == want && srcOf(r.Results[1]) == "nil"
	}
	if !returns(first.Body, "true") || !returns(second.Body, "false") {
		fail("%s: the branches of the line loop are not `return true, nil` / `return false, nil`", c20File)
	}
	return pattern(first.Cond, "master"), pattern(second.Cond, "slave")
}

func genC20() {
	var b strings.Builder
	b.WriteString(header)
	b.WriteString("namespace RSVerif.Generated.Supervisor\n\n")
	fmt.Fprintf(&b, "/-- `maxRetries:` in `New` of %s (Go `int`) -/\ndef maxRetries : Int := %d\n\n", c20File, c20MaxRetries())
	m, s := c20Patterns()
	fmt.Fprintf(&b, "-- pattern of the master test in the line loop of getRedisNodeState: %s (UTF-8 bytes)\ndef masterRegex : List UInt8 := %s\n\n", leanStr(m), leanBytes(m))
	fmt.Fprintf(&b, "-- pattern of the slave test in the line loop of getRedisNodeState: %s (UTF-8 bytes)\ndef slaveRegex : List UInt8 := %s\n\n", leanStr(s), leanBytes(s))
	b.WriteString("end RSVerif.Generated.Supervisor\n")
	writeIfChanged("Supervisor.lean", b.String())

	addFP("C20.New", c20File, "", "New")
	addFP("C20.GetSlotState", c20File, "slotSupervisor", "GetSlotState")
	addFP("C20.recursiveGetSlotState", c20File, "slotSupervisor", "recursiveGetSlotState")
	addFP("C20.getRedisNodeState", c20File, "slotSupervisor", "getRedisNodeState")
}
